package main

// C14 R-8 (added after seeded change C14-5): reading a variable yields a value detached from the variable.
//
// An element of a `vars` slice is the addressable reflect.Value of a package-level or captured variable: it
// designates the variable's storage. A general register that holds that very reflect.Value does not hold
// "the value the variable had": it follows every later assignment to the variable, and so does everything
// the register is moved or copied to (locals, call arguments, the registers startGoroutine copies into the
// machine of a new goroutine) — `go stage(cur, next); cur = next` with a global or captured cur hands the
// goroutine the NEXT channel, and the machine reads the variable's storage while another goroutine writes it.
//
// The register setters decide per reflect.Kind whether they extract the value (v.Int(), v.String(), v.Elem(),
// a new callable) or keep the reflect.Value itself. The condition, evaluated for every kind (finite domain):
//
//      NC(site)   = kinds for which the handler passes the vars element on without detaching a copy
//      KEEP(sink) = kinds for which the setter it is passed to stores that reflect.Value itself in the
//                   general register file (followed through the setters it delegates to)
//      NC(site) ∩ KEEP(sink) = ∅
//
// Both sets are computed from syntax: the statements are walked with the kind bound to each constant of
// reflect.Kind; conditions on `v.Kind()` (or a local holding it) are decided by evalPred (==, !=, <, <=, &&,
// ||, !, value and tagless switches), any other condition takes both arms. `v = w` detaches when w is a local
// initialised with reflect.New(..).Elem(), reflect.Zero(..) or reflect.ValueOf(..).

import (
	"go/ast"
	"go/token"
	"go/types"
	"sort"
	"strings"
)

func init() {
	p := registry["C14"]
	if p == nil {
		return
	}
	run := p.run
	p.run = func(r *Run) { run(r); c14R8(r) }
	p.explain += " R-8: for every reflect.Kind, an element of a vars slice (the storage of a global or captured variable) that a handler passes to a register setter either has been replaced by a detached copy or is of a kind the setter stores by extracting the value; the reflect.Value of the variable itself never ends in the general register file."
}

type c14KW struct {
	info     *types.Info
	vm       *types.Named
	regs     *types.Named
	k        int64
	obj      types.Object
	kindVars map[types.Object]bool
	defs     map[types.Object]ast.Expr
	onSink   func(call *ast.CallExpr, fn *types.Func, idx int, status string)
	onStore  func(pos token.Pos, status string)
	decl     map[*types.Func]*FuncInfo
}

// cond decides a condition for the bound kind: directly, through a bool local holding a decidable
// expression, or through a helper of the runtime whose body is `return <predicate of its parameter>`.
func (w *c14KW) cond(e ast.Expr, depth int) (bool, bool) {
	e = ast.Unparen(e)
	if v, ok := evalPred(w.info, e, w.isKindVar, w.k); ok {
		return v, true
	}
	if depth > 3 {
		return false, false
	}
	switch x := e.(type) {
	case *ast.Ident:
		if o := w.info.Uses[x]; o != nil {
			if d, ok := w.defs[o]; ok {
				return w.cond(d, depth+1)
			}
		}
	case *ast.UnaryExpr:
		if x.Op == token.NOT {
			v, ok := w.cond(x.X, depth+1)
			return !v, ok
		}
	case *ast.BinaryExpr:
		if x.Op == token.LAND || x.Op == token.LOR {
			l, ok1 := w.cond(x.X, depth+1)
			r, ok2 := w.cond(x.Y, depth+1)
			if ok1 && ok2 {
				if x.Op == token.LAND {
					return l && r, true
				}
				return l || r, true
			}
		}
	case *ast.CallExpr:
		fn := callee(w.info, x)
		fi := w.decl[fn]
		if fn == nil || fi == nil || len(x.Args) != 1 || !w.isKindVar(x.Args[0]) || len(fi.Decl.Body.List) != 1 {
			break
		}
		ret, ok := fi.Decl.Body.List[0].(*ast.ReturnStmt)
		if !ok || len(ret.Results) != 1 || fi.Decl.Type.Params.NumFields() != 1 || len(fi.Decl.Type.Params.List[0].Names) != 1 {
			break
		}
		po := fi.Pkg.TypesInfo.Defs[fi.Decl.Type.Params.List[0].Names[0]]
		return evalPred(fi.Pkg.TypesInfo, ret.Results[0], isIdentOf(fi.Pkg.TypesInfo, po), w.k)
	}
	return false, false
}

// aboutKind: an undecided condition that looks at the tracked value or its kind
func (w *c14KW) aboutKind(e ast.Expr) bool {
	found := false
	ast.Inspect(e, func(n ast.Node) bool {
		if x, ok := n.(ast.Expr); ok && (w.isKindVar(x) || w.isObj(x)) {
			found = true
		}
		if id, ok := n.(*ast.Ident); ok {
			if o := w.info.Uses[id]; o != nil {
				if d, ok := w.defs[o]; ok && d != e && !found {
					found = w.aboutKind(d)
				}
			}
		}
		return !found
	})
	return found
}

func c14MergeAbout(a, b string, about bool) string {
	if about && a != b {
		return "unknown"
	}
	return c14Merge(a, b)
}

// statuses: "raw" (the tracked value itself), "detached", "unknown"
func c14Merge(a, b string) string {
	switch {
	case a == b:
		return a
	case a == "raw" || b == "raw":
		return "raw"
	case a == "unknown" || b == "unknown":
		return "unknown"
	}
	return a
}

func (w *c14KW) isObj(e ast.Expr) bool {
	id, ok := ast.Unparen(e).(*ast.Ident)
	return ok && w.obj != nil && (w.info.Uses[id] == w.obj || w.info.Defs[id] == w.obj)
}

// isKindOfObj: obj.Kind()
func (w *c14KW) isKindCall(e ast.Expr) bool {
	c, ok := ast.Unparen(e).(*ast.CallExpr)
	if !ok || len(c.Args) != 0 {
		return false
	}
	sel, ok := ast.Unparen(c.Fun).(*ast.SelectorExpr)
	if !ok || !w.isObj(sel.X) {
		return false
	}
	return isPkgFunc(callee(w.info, c), "reflect", "Value", "Kind")
}

func (w *c14KW) isKindVar(e ast.Expr) bool {
	if w.isKindCall(e) {
		return true
	}
	if id, ok := ast.Unparen(e).(*ast.Ident); ok {
		if o := w.info.Uses[id]; o != nil && w.kindVars[o] {
			return true
		}
	}
	return false
}

// fresh: an expression that makes a new reflect.Value, not an alias of the tracked one
func (w *c14KW) fresh(e ast.Expr, depth int) bool {
	e = ast.Unparen(e)
	if depth > 3 {
		return false
	}
	switch x := e.(type) {
	case *ast.Ident:
		if o := w.info.Uses[x]; o != nil {
			if d, ok := w.defs[o]; ok {
				return w.fresh(d, depth+1)
			}
		}
	case *ast.CallExpr:
		fn := callee(w.info, x)
		if fn == nil || fn.Pkg() == nil || fn.Pkg().Path() != "reflect" {
			return false
		}
		sig := fn.Type().(*types.Signature)
		if sig.Recv() == nil {
			switch fn.Name() {
			case "New", "Zero", "ValueOf", "MakeSlice", "MakeMap", "MakeMapWithSize", "MakeChan":
				return true
			}
			return false
		}
		// reflect.New(T).Elem()
		if fn.Name() == "Elem" {
			if sel, ok := ast.Unparen(x.Fun).(*ast.SelectorExpr); ok {
				if inner, ok := ast.Unparen(sel.X).(*ast.CallExpr); ok {
					return isPkgFunc(callee(w.info, inner), "reflect", "", "New")
				}
			}
		}
	}
	return false
}

func (w *c14KW) isGeneralFile(e ast.Expr) bool {
	ix, ok := ast.Unparen(e).(*ast.IndexExpr)
	if !ok {
		return false
	}
	sel, ok := ast.Unparen(ix.X).(*ast.SelectorExpr)
	if !ok {
		return false
	}
	s := w.info.Selections[sel]
	if s == nil || s.Kind() != types.FieldVal {
		return false
	}
	return c10NamedOf(s.Recv()) == w.regs && typeStr(s.Obj().Type()) == "[]reflect.Value"
}

// exprs scans an expression/statement for sinks: calls of VM methods that receive the tracked value itself.
func (w *c14KW) scan(n ast.Node, st string) {
	if n == nil {
		return
	}
	ast.Inspect(n, func(m ast.Node) bool {
		if _, ok := m.(*ast.FuncLit); ok {
			return false
		}
		c, ok := m.(*ast.CallExpr)
		if !ok {
			return true
		}
		fn := callee(w.info, c)
		if fn == nil {
			return true
		}
		sig, _ := fn.Type().(*types.Signature)
		if sig == nil || sig.Recv() == nil || c10NamedOf(sig.Recv().Type()) != w.vm {
			return true
		}
		for i, a := range c.Args {
			if w.isObj(a) && w.onSink != nil {
				w.onSink(c, fn, i, st)
			}
		}
		return true
	})
}

// walk returns the status after the list and whether every path left the list (return, break, continue, panic).
func (w *c14KW) walk(list []ast.Stmt, st string) (string, bool) {
	for _, s := range list {
		var term bool
		st, term = w.stmt(s, st)
		if term {
			return st, true
		}
	}
	return st, false
}

func (w *c14KW) stmt(s ast.Stmt, st string) (string, bool) {
	switch s := s.(type) {
	case nil:
		return st, false
	case *ast.BlockStmt:
		return w.walk(s.List, st)
	case *ast.LabeledStmt:
		return w.stmt(s.Stmt, st)
	case *ast.ExprStmt:
		w.scan(s.X, st)
		if c, ok := s.X.(*ast.CallExpr); ok && isBuiltinCall(w.info, c, "panic") {
			return st, true
		}
	case *ast.DeclStmt:
		if gd, ok := s.Decl.(*ast.GenDecl); ok {
			for _, sp := range gd.Specs {
				vs, ok := sp.(*ast.ValueSpec)
				if !ok {
					continue
				}
				for i, id := range vs.Names {
					if i < len(vs.Values) && len(vs.Names) == len(vs.Values) {
						w.scan(vs.Values[i], st)
						if o := w.info.Defs[id]; o != nil {
							w.defs[o] = vs.Values[i]
							if w.isKindCall(vs.Values[i]) {
								w.kindVars[o] = true
							}
						}
					}
				}
			}
		}
	case *ast.AssignStmt:
		for _, rh := range s.Rhs {
			w.scan(rh, st)
		}
		if len(s.Lhs) != len(s.Rhs) {
			for _, l := range s.Lhs {
				if w.isObj(l) {
					st = "unknown"
				}
			}
			return st, false
		}
		for i, l := range s.Lhs {
			rh := s.Rhs[i]
			if id, ok := ast.Unparen(l).(*ast.Ident); ok {
				o := w.info.Defs[id]
				if o == nil {
					o = w.info.Uses[id]
				}
				if o != nil && o != w.obj {
					if s.Tok == token.DEFINE {
						w.defs[o] = rh
					} else {
						delete(w.defs, o)
					}
					if w.isKindCall(rh) {
						w.kindVars[o] = true
					} else {
						delete(w.kindVars, o)
					}
				}
			}
			if w.isObj(l) {
				switch {
				case w.isObj(rh):
				case w.fresh(rh, 0):
					st = "detached"
				default:
					st = "unknown"
				}
			}
			if w.isGeneralFile(l) && w.isObj(rh) && w.onStore != nil {
				w.onStore(s.Pos(), st)
			}
		}
	case *ast.ReturnStmt:
		for _, e := range s.Results {
			w.scan(e, st)
		}
		return st, true
	case *ast.BranchStmt:
		if s.Tok == token.FALLTHROUGH {
			return "unknown", false
		}
		return st, true
	case *ast.IfStmt:
		if s.Init != nil {
			st, _ = w.stmt(s.Init, st)
		}
		w.scan(s.Cond, st)
		var elseS ast.Stmt = s.Else
		if v, ok := w.cond(s.Cond, 0); ok {
			if v {
				return w.walk(s.Body.List, st)
			}
			return w.stmt(elseS, st)
		}
		about := w.aboutKind(s.Cond)
		a, ta := w.walk(s.Body.List, st)
		b, tb := w.stmt(elseS, st)
		switch {
		case ta && tb:
			return c14MergeAbout(a, b, about), true
		case ta:
			return b, false
		case tb:
			return a, false
		}
		return c14MergeAbout(a, b, about), false
	case *ast.SwitchStmt:
		if s.Init != nil {
			st, _ = w.stmt(s.Init, st)
		}
		if s.Tag != nil {
			w.scan(s.Tag, st)
		}
		var def *ast.CaseClause
		var may []*ast.CaseClause // clauses that may be selected
		decided, about := false, false
		for _, c := range s.Body.List {
			cc := c.(*ast.CaseClause)
			if cc.List == nil {
				def = cc
				continue
			}
			if decided {
				continue
			}
			hit, unsure := false, false
			for _, e := range cc.List {
				switch {
				case s.Tag != nil && w.isKindVar(s.Tag):
					if v, ok := intValue(w.info, e); ok {
						hit = hit || v == w.k
					} else {
						unsure = true
					}
				case s.Tag == nil:
					if v, ok := w.cond(e, 0); ok {
						hit = hit || v
					} else {
						unsure = true
						about = about || w.aboutKind(e)
					}
				default:
					unsure = true
					about = about || w.aboutKind(s.Tag)
				}
			}
			if hit {
				may = append(may, cc)
				decided = true
			} else if unsure {
				may = append(may, cc)
			}
		}
		if !decided && def != nil {
			may = append(may, def)
		}
		out, first, allTerm := st, true, true
		if !decided && def == nil {
			// no clause may be selected
			first, allTerm = false, false
		}
		for _, cc := range may {
			a, ta := w.walk(cc.Body, st)
			if ta {
				// a break leaves the switch only; a return leaves the handler. Both end this clause.
				if !c14EndsWithReturn(cc.Body) {
					ta = false
				}
			}
			if !ta {
				allTerm = false
			}
			if first {
				out, first = a, false
			} else {
				out = c14MergeAbout(out, a, about)
			}
		}
		return out, allTerm && len(may) > 0
	case *ast.ForStmt:
		a, _ := w.walk(s.Body.List, st)
		return c14Merge(st, a), false
	case *ast.RangeStmt:
		a, _ := w.walk(s.Body.List, st)
		return c14Merge(st, a), false
	default:
		w.scan(s, st)
	}
	return st, false
}

func c14EndsWithReturn(list []ast.Stmt) bool {
	if len(list) == 0 {
		return false
	}
	switch x := list[len(list)-1].(type) {
	case *ast.ReturnStmt:
		return true
	case *ast.ExprStmt:
		if c, ok := x.X.(*ast.CallExpr); ok {
			if id, ok := c.Fun.(*ast.Ident); ok && id.Name == "panic" {
				return true
			}
		}
	}
	return false
}

type c14Keep struct {
	r     *Run
	ro    *c10Roles
	kinds []*types.Const
	decl  map[*types.Func]*FuncInfo
	memo  map[string]map[int64]string // fn#idx -> kind -> "keep" | "unknown"
	busy  map[string]bool
}

// keep computes, for parameter idx of VM method fn, the kinds for which the parameter value itself is stored
// in the general register file.
func (x *c14Keep) keep(fn *types.Func, idx int) map[int64]string {
	key := funcKey(fn) + "#" + string(rune('0'+idx))
	if m, ok := x.memo[key]; ok {
		return m
	}
	out := map[int64]string{}
	if x.busy[key] {
		return out
	}
	x.busy[key] = true
	defer func() { x.busy[key] = false; x.memo[key] = out }()
	fi := x.decl[fn]
	if fi == nil {
		for _, k := range x.kinds {
			v, _ := constantInt64(k)
			out[v] = "unknown"
		}
		return out
	}
	// the parameter object
	var obj types.Object
	n := 0
	for _, fl := range fi.Decl.Type.Params.List {
		for _, nm := range fl.Names {
			if n == idx {
				obj = fi.Pkg.TypesInfo.Defs[nm]
			}
			n++
		}
	}
	if obj == nil {
		return out
	}
	for _, kc := range x.kinds {
		kv, _ := constantInt64(kc)
		w := &c14KW{info: fi.Pkg.TypesInfo, vm: x.ro.vm, regs: x.ro.registers, k: kv, obj: obj, kindVars: map[types.Object]bool{}, defs: map[types.Object]ast.Expr{}, decl: x.decl}
		w.onStore = func(_ token.Pos, st string) {
			switch st {
			case "raw":
				out[kv] = "keep"
			case "unknown":
				if out[kv] == "" {
					out[kv] = "unknown"
				}
			}
		}
		w.onSink = func(_ *ast.CallExpr, fn2 *types.Func, i2 int, st string) {
			if st == "detached" {
				return
			}
			sub := x.keep(fn2, i2)
			if sub[kv] == "" {
				return
			}
			if st == "raw" && sub[kv] == "keep" {
				out[kv] = "keep"
			} else if out[kv] == "" {
				out[kv] = "unknown"
			}
		}
		w.walk(fi.Decl.Body.List, "raw")
	}
	return out
}

func c14R8(r *Run) {
	const R = "R-8"
	const rel = "internal/runtime"
	ro := c10ResolveRoles(r, R)
	if ro == nil {
		return
	}
	kindT := r.P.ExtNamed("reflect", "Kind")
	if !r.Anchor(R, "reflect.Kind", kindT != nil) {
		return
	}
	x := &c14Keep{r: r, ro: ro, decl: map[*types.Func]*FuncInfo{}, memo: map[string]map[int64]string{}, busy: map[string]bool{}}
	kindName := map[int64]string{}
	for _, c := range EnumConsts(kindT) {
		v, _ := constantInt64(c)
		if v == 0 || kindName[v] != "" { // Invalid is not the kind of a variable; Ptr duplicates Pointer
			continue
		}
		kindName[v] = c.Name()
		x.kinds = append(x.kinds, c)
	}
	if !r.Anchor(R, "the constants of reflect.Kind", len(x.kinds) >= 26) {
		return
	}
	// vars fields: []reflect.Value fields of the holders (a struct with a *Function field next to it)
	varsField := map[types.Object]bool{}
	for _, n := range []*types.Named{ro.vm, ro.callable} {
		st := c10StructOf(n)
		for i := 0; st != nil && i < st.NumFields(); i++ {
			if typeStr(st.Field(i).Type()) == "[]reflect.Value" {
				varsField[st.Field(i)] = true
			}
		}
	}
	if !r.Anchor(R, "the vars fields of VM and callable", len(varsField) == 2) {
		return
	}
	for _, fi := range r.P.Funcs(rel) {
		if !r.P.isTestFile(fi.File) && fi.Obj != nil {
			x.decl[fi.Obj] = fi
		}
	}
	nontrivial := 0
	for _, fi := range r.P.Funcs(rel) {
		if r.P.isTestFile(fi.File) {
			continue
		}
		info := fi.Pkg.TypesInfo
		par := r.P.Parents(fi.File)
		isVarsElem := func(e ast.Expr) bool {
			ix, ok := ast.Unparen(e).(*ast.IndexExpr)
			if !ok {
				return false
			}
			sel, ok := ast.Unparen(ix.X).(*ast.SelectorExpr)
			if !ok {
				return false
			}
			s := info.Selections[sel]
			return s != nil && s.Kind() == types.FieldVal && varsField[s.Obj()]
		}
		type site struct {
			pos  token.Pos
			obj  types.Object
			rest []ast.Stmt
			call *ast.CallExpr // direct use as an argument
			idx  int
		}
		var sites []site
		ast.Inspect(fi.Decl.Body, func(n ast.Node) bool {
			switch s := n.(type) {
			case *ast.AssignStmt:
				if len(s.Lhs) != len(s.Rhs) {
					return true
				}
				for i, rh := range s.Rhs {
					if !isVarsElem(rh) {
						continue
					}
					id, ok := ast.Unparen(s.Lhs[i]).(*ast.Ident)
					if !ok {
						continue // stored into another slice / field: sharing the variable (closure creation)
					}
					o := info.Defs[id]
					if o == nil {
						o = info.Uses[id]
					}
					var rest []ast.Stmt
					switch p := par[s].(type) {
					case *ast.BlockStmt:
						rest = c14After(p.List, s)
					case *ast.CaseClause:
						rest = c14After(p.Body, s)
					}
					sites = append(sites, site{pos: s.Pos(), obj: o, rest: rest})
				}
			case *ast.CallExpr:
				for i, a := range s.Args {
					if isVarsElem(a) {
						sites = append(sites, site{pos: s.Pos(), call: s, idx: i})
					}
				}
			}
			return true
		})
		for _, s := range sites {
			type res struct {
				nc, bad, unk []string
				fn           *types.Func
				idx          int
			}
			per := map[string]*res{} // sink name -> result
			var order []string
			get := func(name string) *res {
				if per[name] == nil {
					per[name] = &res{}
					order = append(order, name)
				}
				return per[name]
			}
			for _, kc := range x.kinds {
				kv, _ := constantInt64(kc)
				judge := func(fn *types.Func, idx int, st string) {
					sig := fn.Type().(*types.Signature)
					if sig.Recv() == nil || c10NamedOf(sig.Recv().Type()) != ro.vm {
						return
					}
					rs := get(funcKey(fn))
					rs.fn, rs.idx = fn, idx
					if st == "detached" {
						return
					}
					rs.nc = append(rs.nc, kindName[kv])
					k := x.keep(fn, idx)[kv]
					switch {
					case st == "raw" && k == "keep":
						rs.bad = append(rs.bad, kindName[kv])
					case k != "":
						rs.unk = append(rs.unk, kindName[kv])
					}
				}
				if s.call != nil {
					if fn := callee(info, s.call); fn != nil {
						judge(fn, s.idx, "raw")
					}
					continue
				}
				w := &c14KW{info: info, vm: ro.vm, regs: ro.registers, k: kv, obj: s.obj, kindVars: map[types.Object]bool{}, defs: map[types.Object]ast.Expr{}, decl: x.decl}
				w.onSink = func(_ *ast.CallExpr, fn *types.Func, idx int, st string) { judge(fn, idx, st) }
				w.onStore = func(_ token.Pos, st string) {
					rs := get("general register file")
					if st == "raw" {
						rs.bad = append(rs.bad, kindName[kv])
					} else if st == "unknown" {
						rs.unk = append(rs.unk, kindName[kv])
					}
				}
				w.walk(s.rest, "raw")
			}
			for _, name := range order {
				rs := per[name]
				o := r.Ob(R, fi.Name()+"#vars-element:"+name, s.pos)
				switch {
				case len(rs.bad) > 0:
					o.Bad("a vars element of kind %s reaches %s without a detached copy, and for that kind the setter keeps the reflect.Value itself in a general register: the register aliases the storage of the variable, so a later assignment to the variable changes the value already read (also the copy handed to a goroutine), and the machine reads the variable while another goroutine may write it", strings.Join(c14Dedup(rs.bad), ", "), name)
				case len(rs.unk) > 0:
					o.Unknown("for kind %s the rule cannot read how the vars element reaches %s or what the setter keeps", strings.Join(c14Dedup(rs.unk), ", "), name)
				case len(rs.nc) == 0:
					o.OK("the vars element is replaced by a detached copy for every kind before it reaches %s", name)
					nontrivial++
				default:
					var keeps []string
					if rs.fn != nil {
						for kv, how := range x.keep(rs.fn, rs.idx) {
							if how == "keep" {
								keeps = append(keeps, kindName[kv])
							}
						}
					}
					o.OK("passed on as is only for kinds {%s}; %s keeps the reflect.Value itself only for kinds {%s}: disjoint", strings.Join(c14Dedup(rs.nc), ", "), name, strings.Join(c14Dedup(keeps), ", "))
					nontrivial++
				}
			}
		}
	}
	r.Anchor(R, "a handler passing an element of a vars slice to a register setter (the variable read)", nontrivial > 0)
	r.Require(R, 1)
}

func c14After(list []ast.Stmt, s ast.Stmt) []ast.Stmt {
	for i, x := range list {
		if x == s {
			return list[i+1:]
		}
	}
	return nil
}

func c14Dedup(in []string) []string {
	seen := map[string]bool{}
	var out []string
	for _, s := range in {
		if !seen[s] {
			seen[s] = true
			out = append(out, s)
		}
	}
	sort.Strings(out)
	return out
}
