package main

// Observation flags (met in the false-alarm corpus): the reflect.Select that waits on a channel together
// with the done case may live in a helper of package runtime that tells its caller, through a boolean
// result, whether the done case was chosen (`recv, ok, stopped := vm.selectOrDone(cas)`). The helper does
// not leave the loop itself; its callers do, on the true edge of a test of that result.
//
// c11ObservationFlags summarises such helpers: function → index k of a boolean result such that every
// return yields a constant at k, the constant is true only behind the equal edge of a comparison of the
// index reflect.Select chose, and at least one return yields true. C11 R-2 then requires every caller to
// test the flag on every path and to leave through the stop function on its true edge; C11/C13 R-5 accept
// a test of the flag as "the cancellation was observed".

import (
	"fmt"
	"go/ast"
	"go/token"
	"go/types"

	"golang.org/x/tools/go/cfg"
)

func c11ObservationFlags(p *Prog) map[*types.Func]int {
	out := map[*types.Func]int{}
	for _, fi := range p.Funcs("internal/runtime") {
		if p.isTestFile(fi.File) || fi.Obj == nil {
			continue
		}
		info := fi.Pkg.TypesInfo
		sig := fi.Obj.Type().(*types.Signature)
		if sig.Results().Len() == 0 {
			continue
		}
		// the index chosen by a reflect.Select in the function
		chosen := map[types.Object]bool{}
		ast.Inspect(fi.Decl.Body, func(m ast.Node) bool {
			if as, ok := m.(*ast.AssignStmt); ok && len(as.Rhs) == 1 && len(as.Lhs) == 3 {
				if rc, ok := ast.Unparen(as.Rhs[0]).(*ast.CallExpr); ok {
					if f := callee(info, rc); f != nil && isPkgFunc(f, "reflect", "", "Select") {
						if o := objOfIdent(info, as.Lhs[0]); o != nil {
							chosen[o] = true
						}
					}
				}
			}
			return true
		})
		if len(chosen) == 0 {
			continue
		}
		g := p.CFGOf(fi)
		rets := g.Returns()
		for k := 0; k < sig.Results().Len(); k++ {
			if b, ok := sig.Results().At(k).Type().Underlying().(*types.Basic); !ok || b.Kind() != types.Bool {
				continue
			}
			ntrue, okAll := 0, len(rets) > 0
			for _, rs := range rets {
				if len(rs.Results) != sig.Results().Len() {
					okAll = false
					break
				}
				tv, ok := info.Types[rs.Results[k]]
				if !ok || tv.Value == nil {
					okAll = false
					break
				}
				if tv.Value.String() != "true" {
					continue
				}
				ntrue++
				if !g.GuardedBy(rs, func(l Lit) bool {
					if l.Tag != nil {
						return l.Truth && chosen[objOfIdent(info, l.Tag)]
					}
					be, ok := ast.Unparen(l.Expr).(*ast.BinaryExpr)
					if !ok {
						return false
					}
					isChosen := chosen[objOfIdent(info, be.X)] || chosen[objOfIdent(info, be.Y)]
					return isChosen && ((be.Op == token.EQL && l.Truth) || (be.Op == token.NEQ && !l.Truth))
				}) {
					okAll = false
					break
				}
			}
			if okAll && ntrue > 0 {
				out[fi.Obj] = k
			}
		}
	}
	return out
}

// c11FlagVars: in fn, the variables that receive the observation flag of a helper.
func c11FlagVars(info *types.Info, body ast.Node, flags map[*types.Func]int) map[types.Object]*ast.AssignStmt {
	out := map[types.Object]*ast.AssignStmt{}
	ast.Inspect(body, func(m ast.Node) bool {
		as, ok := m.(*ast.AssignStmt)
		if !ok || len(as.Rhs) != 1 {
			return true
		}
		rc, ok := ast.Unparen(as.Rhs[0]).(*ast.CallExpr)
		if !ok {
			return true
		}
		f := callee(info, rc)
		if f == nil {
			return true
		}
		if k, isFlag := flags[f]; isFlag && k < len(as.Lhs) {
			if o := objOfIdent(info, as.Lhs[k]); o != nil {
				out[o] = as
			}
		}
		return true
	})
	return out
}

// exitsViaFlag: the Select is in a helper; on the edge where the done case was chosen (from block b) every
// return hands back `true` as the helper's observation flag, and every caller tests the flag on every path
// after the call and leaves through the stop function on its true edge.
func (x *c11) exitsViaFlag(fi *FuncInfo, c *CFGInfo, b *cfg.Block) (ok bool, why string) {
	flags := c11ObservationFlags(x.r.P)
	k, isFlag := flags[fi.Obj]
	if !isFlag {
		return false, ""
	}
	ok = true
	nret := 0
	c11Walk(c, b, 0, nil, func(bb *cfg.Block, j int, n ast.Node) bool {
		rs, isRet := n.(*ast.ReturnStmt)
		if !isRet {
			return false
		}
		nret++
		reports := false
		if k < len(rs.Results) {
			if tv, has := x.info.Types[rs.Results[k]]; has && tv.Value != nil && tv.Value.String() == "true" {
				reports = true
			}
		}
		if !reports {
			ok, why = false, fmt.Sprintf("the return at %s does not report the done case to the caller", x.r.P.Pos(rs.Pos()))
		}
		return true
	}, func(bb *cfg.Block) { ok, why = false, "a path ends without returning" })
	if !ok || nret == 0 {
		if why == "" {
			why = "no return reached from the done edge"
		}
		return false, why
	}
	ncall := 0
	for _, caller := range x.r.P.Funcs("internal/runtime") {
		if x.r.P.isTestFile(caller.File) {
			continue
		}
		cc := x.r.P.CFGOf(caller)
		if caller.Obj == x.a.loop.Obj {
			cc = x.lc
		}
		cpar := x.r.P.Parents(caller.File)
		for _, cl := range calls(caller.Decl.Body, true) {
			if callee(x.info, cl) != fi.Obj {
				continue
			}
			ncall++
			as, isAs := cpar[cl].(*ast.AssignStmt)
			var flag types.Object
			if isAs && k < len(as.Lhs) && len(as.Rhs) == 1 {
				flag = objOfIdent(x.info, as.Lhs[k])
			}
			if flag == nil {
				return false, fmt.Sprintf("the call at %s discards the result that reports the done case", x.r.P.Pos(cl.Pos()))
			}
			ab, ai := cc.Locate(as)
			if ab == nil {
				return false, fmt.Sprintf("the call at %s is not in the control-flow graph", x.r.P.Pos(cl.Pos()))
			}
			bad := ""
			c11Walk(cc, ab, ai+1, nil, func(bb *cfg.Block, j int, n ast.Node) bool {
				if bad != "" {
					return true
				}
				if j == len(bb.Nodes)-1 {
					if cd := cc.CondOf(bb); cd != nil && cd.Tag == nil && objOfIdent(x.info, cd.Expr) == flag {
						if sok, swhy := x.exitsViaStop(cc, bb.Succs[0], 0); !sok {
							bad = fmt.Sprintf("after the call at %s, when %s is true the loop is not left through the stop function: %s", x.r.P.Pos(cl.Pos()), flag.Name(), swhy)
						}
						return true
					}
				}
				if _, isRet := n.(*ast.ReturnStmt); isRet {
					bad = fmt.Sprintf("after the call at %s a return is reached without testing %s", x.r.P.Pos(cl.Pos()), flag.Name())
					return true
				}
				if cc == x.lc && bb == x.disp && n == ast.Node(x.a.dispatch.Tag) {
					bad = fmt.Sprintf("after the call at %s the next instruction is dispatched without testing %s", x.r.P.Pos(cl.Pos()), flag.Name())
					return true
				}
				return false
			}, func(bb *cfg.Block) {
				bad = fmt.Sprintf("after the call at %s the function ends without testing %s", x.r.P.Pos(cl.Pos()), flag.Name())
			})
			if bad != "" {
				return false, bad
			}
		}
	}
	if ncall == 0 {
		return false, "the helper is never called"
	}
	return true, ""
}
