package main

// C15 R-4 (added after seeded change C15-1): a first-match search never steps over a candidate.
//
// The end of a raw block is found by a loop that walks a cursor over the source, saves the position of a
// candidate (`start := cursor`), looks ahead by moving the cursor and answers `return start` when the
// look-ahead matches. When the look-ahead fails the iteration is abandoned and the loop's own increment
// moves on. The answer is the FIRST match only if no position after the failed candidate is stepped over:
// at every point where an iteration is abandoned (a `continue`, or the end of the body) the cursor is back
// on the saved candidate, so that the increment resumes on the very next byte. A cursor left where the
// look-ahead stopped makes the increment jump over that byte; when it is the '{' of the real
// `{% end raw %}` the block swallows its own end statement (template syntax comes out as text, or the
// build fails with an unexpected EOF).
//
// The rule is not tied to endRawIndex: it instantiates on every loop of the module with this shape
//   for …; …; cursor++ { … start := cursor … return start … }
// and follows the cursor through if / else / switch / blocks; helper calls that compute the new cursor
// (`i = skip(src, i+2)`) simply count as "moved". What it cannot follow (the cursor or the saved start
// escaping into a closure or through its address, a goto) is reported as undecided.

import (
	"go/ast"
	"go/token"
	"go/types"
)

func init() {
	p := registry["C15"]
	if p == nil {
		return
	}
	run := p.run
	p.run = func(r *Run) { run(r); c15FirstMatchSearch(r) }
	p.explain += " R-4: in a loop that saves a candidate position from its cursor, looks ahead and returns the saved position on a match (the search for the end of a raw block), every abandoned iteration leaves the cursor on the saved candidate, so that no later candidate is stepped over."
}

type c15r4State int

const (
	c15r4NoSave c15r4State = iota // no candidate saved yet in this iteration
	c15r4AtSave                   // cursor == saved candidate
	c15r4Moved                    // cursor moved by the look-ahead
	c15r4Dead                     // path ended (return, break, continue, panic)
)

type c15r4Walker struct {
	info   *types.Info
	loop   *ast.ForStmt
	label  string
	cur    types.Object
	save   types.Object
	bad    []token.Pos // abandon points reached with a moved cursor
	okN    int         // abandon points reached with the cursor on the candidate (or before any save)
	opaque string      // first construct the walker cannot follow
}

func c15r4Join(a, b c15r4State) c15r4State {
	switch {
	case a == c15r4Dead:
		return b
	case b == c15r4Dead:
		return a
	case a == b:
		return a
	case a == c15r4Moved || b == c15r4Moved:
		return c15r4Moved
	}
	// NoSave joined with AtSave (a candidate saved on one branch only): the cursor need not be on a saved
	// candidate any more
	return c15r4Moved
}

func (w *c15r4Walker) isObj(e ast.Expr, o types.Object) bool {
	id, ok := ast.Unparen(e).(*ast.Ident)
	return ok && o != nil && (w.info.Uses[id] == o || w.info.Defs[id] == o)
}

func (w *c15r4Walker) abandon(pos token.Pos, st c15r4State) {
	switch st {
	case c15r4Moved:
		w.bad = append(w.bad, pos)
	case c15r4NoSave, c15r4AtSave:
		w.okN++
	}
}

func (w *c15r4Walker) stmts(list []ast.Stmt, st c15r4State) c15r4State {
	for _, s := range list {
		if st == c15r4Dead {
			return st
		}
		st = w.stmt(s, st)
	}
	return st
}

// touches reports whether n contains an assignment / inc-dec of o, its address, or a closure using it.
func (w *c15r4Walker) touches(n ast.Node, o types.Object) (assigned, escapes bool) {
	ast.Inspect(n, func(m ast.Node) bool {
		switch x := m.(type) {
		case *ast.AssignStmt:
			for _, l := range x.Lhs {
				if w.isObj(l, o) {
					assigned = true
				}
			}
		case *ast.IncDecStmt:
			if w.isObj(x.X, o) {
				assigned = true
			}
		case *ast.UnaryExpr:
			if x.Op == token.AND && w.isObj(x.X, o) {
				escapes = true
			}
		case *ast.FuncLit:
			ast.Inspect(x.Body, func(q ast.Node) bool {
				if id, ok := q.(*ast.Ident); ok && w.info.Uses[id] == o {
					escapes = true
				}
				return true
			})
			return false
		case *ast.RangeStmt:
			if (x.Key != nil && w.isObj(x.Key, o)) || (x.Value != nil && w.isObj(x.Value, o)) {
				assigned = true
			}
		}
		return true
	})
	return
}

func (w *c15r4Walker) stmt(s ast.Stmt, st c15r4State) c15r4State {
	switch x := s.(type) {
	case *ast.AssignStmt:
		for i, l := range x.Lhs {
			switch {
			case w.isObj(l, w.save):
				if len(x.Lhs) == len(x.Rhs) && (x.Tok == token.DEFINE || x.Tok == token.ASSIGN) && w.isObj(x.Rhs[i], w.cur) {
					st = c15r4AtSave
				} else if w.opaque == "" {
					w.opaque = "the saved candidate is assigned something other than the cursor"
				}
			case w.isObj(l, w.cur):
				if len(x.Lhs) == len(x.Rhs) && x.Tok == token.ASSIGN && w.isObj(x.Rhs[i], w.save) && st != c15r4NoSave {
					st = c15r4AtSave
				} else {
					st = c15r4Moved
				}
			}
		}
		return st
	case *ast.IncDecStmt:
		if w.isObj(x.X, w.cur) {
			return c15r4Moved
		}
		if w.isObj(x.X, w.save) && w.opaque == "" {
			w.opaque = "the saved candidate is incremented"
		}
		return st
	case *ast.ExprStmt:
		if c, ok := ast.Unparen(x.X).(*ast.CallExpr); ok && isBuiltinCall(w.info, c, "panic") {
			return c15r4Dead
		}
		return st
	case *ast.DeclStmt, *ast.EmptyStmt, *ast.SendStmt, *ast.GoStmt, *ast.DeferStmt:
		return st
	case *ast.ReturnStmt:
		return c15r4Dead
	case *ast.BranchStmt:
		switch x.Tok {
		case token.CONTINUE:
			if x.Label == nil || x.Label.Name == w.label {
				w.abandon(x.Pos(), st)
			} else if w.opaque == "" {
				w.opaque = "continue to an outer loop"
			}
			return c15r4Dead
		case token.BREAK:
			return c15r4Dead // leaves the loop (or, inside a switch, handled by the switch case below)
		default:
			if w.opaque == "" {
				w.opaque = x.Tok.String() + " statement"
			}
			return c15r4Dead
		}
	case *ast.BlockStmt:
		return w.stmts(x.List, st)
	case *ast.LabeledStmt:
		return w.stmt(x.Stmt, st)
	case *ast.IfStmt:
		if x.Init != nil {
			st = w.stmt(x.Init, st)
		}
		a := w.stmts(x.Body.List, st)
		b := st
		if x.Else != nil {
			b = w.stmt(x.Else, st)
		}
		return c15r4Join(a, b)
	case *ast.SwitchStmt, *ast.TypeSwitchStmt:
		var body *ast.BlockStmt
		if sw, ok := x.(*ast.SwitchStmt); ok {
			if sw.Init != nil {
				st = w.stmt(sw.Init, st)
			}
			body = sw.Body
		} else {
			body = x.(*ast.TypeSwitchStmt).Body
		}
		// a break inside a switch leaves the switch, not the loop: the walker cannot tell the two apart
		// without more bookkeeping, so a switch that moves the cursor AND breaks is opaque
		out := c15r4Dead
		hasDefault := false
		for _, cs := range body.List {
			cc := cs.(*ast.CaseClause)
			if cc.List == nil {
				hasDefault = true
			}
			hasBreak := false
			ast.Inspect(cc, func(m ast.Node) bool {
				switch b := m.(type) {
				case *ast.BranchStmt:
					if b.Tok == token.BREAK && b.Label == nil {
						hasBreak = true
					}
				case *ast.ForStmt, *ast.RangeStmt, *ast.SwitchStmt, *ast.TypeSwitchStmt, *ast.SelectStmt, *ast.FuncLit:
					return m == ast.Node(cc)
				}
				return true
			})
			if hasBreak {
				if as, _ := w.touches(cc, w.cur); as && w.opaque == "" {
					w.opaque = "a switch clause both moves the cursor and breaks out of the switch"
				}
			}
			res := w.stmts(cc.Body, st)
			if hasBreak {
				res = c15r4Join(res, st)
			}
			out = c15r4Join(out, res)
		}
		if !hasDefault {
			out = c15r4Join(out, st)
		}
		return out
	case *ast.ForStmt, *ast.RangeStmt, *ast.SelectStmt:
		// an inner loop: its own continue/break are its own; what matters is whether it moves the cursor
		as, _ := w.touches(x, w.cur)
		sv, _ := w.touches(x, w.save)
		if sv && w.opaque == "" {
			w.opaque = "the saved candidate is assigned inside an inner loop"
		}
		labelled := false
		ast.Inspect(x, func(m ast.Node) bool {
			if b, ok := m.(*ast.BranchStmt); ok && b.Label != nil && b.Label.Name == w.label && w.label != "" {
				labelled = true
			}
			return true
		})
		if labelled && w.opaque == "" {
			w.opaque = "an inner loop continues or breaks the search loop by label"
		}
		if as {
			return c15r4Moved
		}
		return st
	}
	if w.opaque == "" {
		w.opaque = "a statement form the rule does not follow"
	}
	return st
}

func c15FirstMatchSearch(r *Run) {
	const R = "R-4"
	n := 0
	for _, rel := range sortedKeys(r.P.byRel) {
		for _, fi := range r.P.Funcs(rel) {
			if r.P.isTestFile(fi.File) {
				continue
			}
			info := fi.Pkg.TypesInfo
			par := r.P.Parents(fi.File)
			idx := 0
			ast.Inspect(fi.Decl.Body, func(m ast.Node) bool {
				loop, ok := m.(*ast.ForStmt)
				if !ok || loop.Post == nil {
					return true
				}
				// the cursor: the variable the loop's own post statement increments by one
				var cur types.Object
				switch ps := loop.Post.(type) {
				case *ast.IncDecStmt:
					if id, ok := ast.Unparen(ps.X).(*ast.Ident); ok && ps.Tok == token.INC {
						cur = info.Uses[id]
					}
				case *ast.AssignStmt:
					if len(ps.Lhs) == 1 && len(ps.Rhs) == 1 && ps.Tok == token.ADD_ASSIGN {
						if v, ok := intValue(info, ps.Rhs[0]); ok && v == 1 {
							if id, ok := ast.Unparen(ps.Lhs[0]).(*ast.Ident); ok {
								cur = info.Uses[id]
							}
						}
					}
				}
				if cur == nil || !isIntType(cur.Type()) {
					return true
				}
				// the saved candidate: a local assigned exactly the cursor, directly in this loop (not in an
				// inner loop or closure), that is also a result of a return statement of the loop
				saves := map[types.Object]bool{}
				inner := func(q ast.Node) bool {
					switch q.(type) {
					case *ast.ForStmt, *ast.RangeStmt, *ast.FuncLit:
						return q != ast.Node(loop)
					}
					return false
				}
				ast.Inspect(loop.Body, func(q ast.Node) bool {
					if q == nil || inner(q) {
						return false
					}
					as, ok := q.(*ast.AssignStmt)
					if !ok || len(as.Lhs) != len(as.Rhs) {
						return true
					}
					for i, l := range as.Lhs {
						lid, ok := ast.Unparen(l).(*ast.Ident)
						rid, ok2 := ast.Unparen(as.Rhs[i]).(*ast.Ident)
						if !ok || !ok2 || info.Uses[rid] != cur {
							continue
						}
						o := info.Defs[lid]
						if o == nil {
							o = info.Uses[lid]
						}
						if o != nil && o != cur && isIntType(o.Type()) {
							saves[o] = true
						}
					}
					return true
				})
				var save types.Object
				ast.Inspect(loop.Body, func(q ast.Node) bool {
					if q == nil || inner(q) {
						return false
					}
					if rs, ok := q.(*ast.ReturnStmt); ok {
						for _, e := range rs.Results {
							if id, ok := ast.Unparen(e).(*ast.Ident); ok && saves[info.Uses[id]] {
								save = info.Uses[id]
							}
						}
					}
					return true
				})
				if save == nil {
					return true
				}
				n++
				idx++
				key := fi.Name() + "#search-loop"
				if idx > 1 {
					key += "-" + string(rune('0'+idx))
				}
				o := r.Ob(R, key, loop.Pos())
				w := &c15r4Walker{info: info, loop: loop, cur: cur, save: save}
				if ls, ok := par[loop].(*ast.LabeledStmt); ok {
					w.label = ls.Label.Name
				}
				if _, esc := w.touches(loop.Body, cur); esc {
					w.opaque = "the cursor escapes (address taken or used in a closure)"
				}
				if _, esc := w.touches(loop.Body, save); esc {
					w.opaque = "the saved candidate escapes (address taken or used in a closure)"
				}
				end := w.stmts(loop.Body.List, c15r4NoSave)
				if end != c15r4Dead {
					w.abandon(loop.Body.Rbrace, end)
				}
				switch {
				case len(w.bad) > 0:
					var at []string
					for _, p := range w.bad {
						at = append(at, r.P.Pos(p))
					}
					o.Bad("the search loop returns the saved position %s of a candidate, but %d of its abandoned iterations (%v) leave the cursor %s where the look-ahead stopped instead of on the candidate: the loop's increment then steps over a byte that is never tried as the start of a match, and the first match can be missed (the raw block swallows its own end statement)", save.Name(), len(w.bad), at, cur.Name())
				case w.opaque != "":
					o.Unknown("search loop saving the candidate %s from the cursor %s: %s", save.Name(), cur.Name(), w.opaque)
				default:
					o.OK("every abandoned iteration (%d) leaves the cursor %s on the saved candidate %s", w.okN, cur.Name(), save.Name())
				}
				return true
			})
		}
	}
	r.Require(R, 1)
}
