package main

// C06 R-8 (added after seeded change C06-1): the lexer leaves a script or style element exactly where an
// HTML tokenizer does.
//
// Inside a script or style element (raw text) an HTML tokenizer ends the element only at `</` + the
// element's name in any letter case + one of TAB LF FF CR SPACE `/` `>` ("appropriate end tag",
// HTML §13.2.5.x script data / RAWTEXT end tag name states; CR is LF after input preprocessing).
// `</scripts>`, `</script-x>` or `</styled>` are content. The lexer decides the same thing with a
// recogniser predicate over the bytes that follow; when the predicate says yes the lexer goes back to the
// HTML context, so every later {{ v }} of the element is escaped for HTML while the browser still reads
// JavaScript / CSS. When the predicate says no although the browser leaves the element, the page that
// follows is lexed as JavaScript / CSS and a value shown in a tag is written as a quoted literal with its
// spaces and '=' (new attributes).
//
// The recognisers are found by role (functions ([]byte) bool of the module called in the clauses of the
// lexer's context switch for the CSS / JS / JSON contexts, guarding an assignment of the context) and are
// evaluated from their syntax (c06x) on 3 spellings x 2 tails x 256 following bytes plus near misses.

import (
	"fmt"
	"go/ast"
	"go/types"
	"sort"
	"strings"
)

func init() {
	p := registry["C06"]
	if p == nil {
		return
	}
	run := p.run
	p.run = func(r *Run) { run(r); c06EndTagRecognisers(r) }
	p.explain += " R-8: the predicates with which the lexer leaves a script or style element hold exactly for `</name` in any letter case followed by TAB, LF, FF, CR, SPACE, '/' or '>' (evaluated from their syntax on every following byte)."
}

// element whose raw text a context belongs to (HTML: script elements hold JavaScript or JSON, style elements CSS)
func c06RawElement(ctxName string) string {
	switch {
	case strings.HasPrefix(ctxName, "ContextCSS"):
		return "style"
	case strings.HasPrefix(ctxName, "ContextJS"): // ContextJS, ContextJSString, ContextJSON, ContextJSONString
		return "script"
	}
	return ""
}

func c06LexerScan(r *Run, R string) *FuncInfo {
	var nonTest []*FuncInfo
	for _, f := range r.P.Funcs("internal/compiler") {
		if !r.P.isTestFile(f.File) {
			nonTest = append(nonTest, f)
		}
	}
	scan := c04GoroutineEntry(r, nonTest)
	if !r.Anchor(R, "the lexer goroutine entry (scan)", scan != nil) {
		return nil
	}
	return scan
}

func c06EndTagRecognisers(r *Run) {
	const R = "R-8"
	ctxT := r.P.Named("ast", "Context")
	if !r.Anchor(R, "ast.Context", ctxT != nil) {
		return
	}
	scan := c06LexerScan(r, R)
	if scan == nil {
		return
	}
	info := scan.Pkg.TypesInfo
	// recogniser -> element, by role
	type rec struct {
		fn   *types.Func
		elem string
		pos  ast.Node
	}
	recs := map[string]*rec{}
	conflict := ""
	for _, sw := range switchesOn(info, scan.Decl.Body, ctxT) {
		for _, st := range sw.Body.List {
			cc := st.(*ast.CaseClause)
			elem := ""
			for _, e := range cc.List {
				if k := constOf(info, e); k != nil {
					if el := c06RawElement(k.Name()); el != "" {
						elem = el
					}
				}
			}
			if elem == "" {
				continue
			}
			for _, c := range calls(cc, false) {
				fn := callee(info, c)
				if fn == nil || fn.Pkg() != scan.Pkg.Types {
					continue
				}
				sig := fn.Type().(*types.Signature)
				if sig.Recv() != nil || sig.Params().Len() != 1 || sig.Results().Len() != 1 {
					continue
				}
				if !c06IsByteSlice(sig.Params().At(0).Type()) {
					continue
				}
				if b, ok := sig.Results().At(0).Type().Underlying().(*types.Basic); !ok || b.Kind() != types.Bool {
					continue
				}
				key := funcKey(fn)
				if old, ok := recs[key]; ok {
					if old.elem != elem {
						conflict = key
					}
					continue
				}
				recs[key] = &rec{fn: fn, elem: elem, pos: c}
			}
		}
	}
	if !r.Anchor(R, "the predicates over the following bytes called in the CSS / JS / JSON clauses of the lexer's context switch (isEndStyle, isEndScript)", len(recs) > 0) {
		return
	}
	if conflict != "" {
		r.Ob(R, conflict+"#element", scan.Decl.Pos()).Unknown("the same recogniser is used for script and style contexts")
		return
	}
	var keys []string
	for k := range recs {
		keys = append(keys, k)
	}
	sort.Strings(keys)
	html := map[int]bool{'\t': true, '\n': true, '\f': true, '\r': true, ' ': true, '/': true, '>': true}
	it := c06xNew(r.P)
	for _, key := range keys {
		rc := recs[key]
		fi := c06FuncInfoOf(r.P, rc.fn)
		pos := rc.pos.Pos()
		if fi != nil {
			pos = fi.Decl.Pos()
		}
		unknown := ""
		accept := func(s string) bool {
			if unknown != "" {
				return false
			}
			var res any
			reason, ok := it.Run(20000, func() { res = it.callFunc(rc.fn, nil, []any{[]byte(s)}) })
			if !ok {
				unknown = fmt.Sprintf("on %q: %s", s, reason)
				return false
			}
			t, _ := res.(c06xTuple)
			if len(t) != 1 {
				unknown = "no result"
				return false
			}
			b, _ := t[0].(bool)
			return b
		}
		name := rc.elem
		mixed := []byte(name)
		for i := range mixed {
			if i%2 == 0 {
				mixed[i] -= 'a' - 'A'
			}
		}
		spell := []string{name, strings.ToUpper(name), string(mixed)}
		tails := []string{"", "x>"}
		// 1. nothing but an end tag is accepted
		var extra []string
		acc := map[[3]int]bool{}
		for si, sp := range spell {
			for ti, tl := range tails {
				for _, b := range c06ProbeOrder() {
					s := "</" + sp + string([]byte{byte(b)}) + tl
					if accept(s) {
						acc[[3]int{si, ti, b}] = true
						if !html[b] && len(extra) < 4 {
							extra = append(extra, fmt.Sprintf("%q", s))
						}
					}
				}
			}
		}
		near := []string{"</" + name[:len(name)-1] + ">", "</" + name[:len(name)-1] + "x>", "<" + name + ">", "</x" + name[1:] + ">",
			"< /" + name + ">", "</ " + name + ">", "<//" + name + ">"}
		for _, s := range near {
			for _, tl := range []string{"", " >"} {
				if accept(s + tl) {
					extra = append(extra, fmt.Sprintf("%q", s+tl))
				}
			}
		}
		o1 := r.Ob(R, key+"#only-end-tag:"+name, pos)
		o2 := r.Ob(R, key+"#case-insensitive:"+name, pos)
		if unknown != "" {
			o1.Unknown("the recogniser cannot be evaluated %s", unknown)
			o2.Unknown("the recogniser cannot be evaluated %s", unknown)
			continue
		}
		if len(extra) > 0 {
			o1.Bad("the lexer leaves the %s element at %s, which for an HTML tokenizer is content of the element (an end tag needs TAB, LF, FF, CR, SPACE, '/' or '>' after the name): the values shown in the rest of the element are escaped for HTML while the browser reads them as %s", name, strings.Join(extra, ", "), map[string]string{"script": "JavaScript", "style": "CSS"}[name])
		} else {
			o1.OK("of 1536 probes `</%s` + byte (+ tail) and %d near misses only end tags of the element are accepted", name, 2*len(near))
		}
		// 2. letter case
		diff := ""
		for si := 1; si < len(spell) && diff == ""; si++ {
			for ti := range tails {
				for b := 0; b < 256; b++ {
					if acc[[3]int{si, ti, b}] != acc[[3]int{0, ti, b}] {
						diff = fmt.Sprintf("`</%s` + %q is treated differently from `</%s` + %q", spell[si], string([]byte{byte(b)}), spell[0], string([]byte{byte(b)}))
					}
				}
			}
		}
		if diff != "" {
			o2.Bad("%s: HTML matches the name of an end tag in any letter case", diff)
		} else {
			o2.OK("upper, lower and mixed case spellings are accepted alike")
		}
		// 3. every end tag is accepted
		var hs []int
		for b := range html {
			hs = append(hs, b)
		}
		sort.Ints(hs)
		missing := 0
		for _, b := range hs {
			if acc[[3]int{0, 0, b}] && acc[[3]int{0, 1, b}] {
				continue
			}
			missing++
			r.Ob(R, fmt.Sprintf("%s#accepts:U+%04X", key, b), pos).Bad("`</%s` followed by %q ends the %s element for an HTML tokenizer but not for the lexer: the page after it is lexed as %s and a value shown in a tag there is written as a quoted literal keeping its spaces and '='", name, string(rune(b)), name, map[string]string{"script": "JavaScript", "style": "CSS"}[name])
		}
		if missing == 0 {
			r.Ob(R, key+"#accepts-all:"+name, pos).OK("every byte ending an end tag name is accepted")
		}
	}
	r.Require(R, 4)
}

func c06IsByteSlice(t types.Type) bool {
	s, ok := t.Underlying().(*types.Slice)
	if !ok {
		return false
	}
	b, ok := s.Elem().Underlying().(*types.Basic)
	return ok && b.Kind() == types.Uint8
}

// c06ProbeOrder lists the 256 byte values, letters, '-' and digits first (they make the readable witnesses).
func c06ProbeOrder() []int {
	var out []int
	seen := map[int]bool{}
	for _, c := range "s-1xA:_." {
		out = append(out, int(c))
		seen[int(c)] = true
	}
	for b := 0; b < 256; b++ {
		if !seen[b] {
			out = append(out, b)
		}
	}
	return out
}
