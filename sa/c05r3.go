package main

// C05 R-3: the nil window of the VM's current-function field (see DESIGN.md §5 C05).
//
// The window opens where the run driver stores nil into the field (after pushing a panicked frame) and
// closes where the next-call selector assigns it again. The functions that may execute inside it are
// those statically reachable from the recoverable section other than through the interpreter loop
// (which is entered only when the field is non-nil or the selector returned true), plus the panic
// classifier and what it calls. In all of them the FIRST dereference of the field on a path must be
// preceded by a non-nil test or by an assignment of a non-nil value; a function is exempt when every
// call site from the window already establishes that.

import (
	"go/ast"
	"go/token"
	"go/types"
	"strings"
)

type c05win struct {
	r      *Run
	field  *types.Var
	window map[*types.Func]*FuncInfo
	roots  map[*types.Func]bool
	memo   map[*types.Func]int // 1 computing, 2 safe at entry, 3 not safe
}

func (w *c05win) isField(info *types.Info, e ast.Expr) bool {
	sel, ok := ast.Unparen(e).(*ast.SelectorExpr)
	return ok && info.Uses[sel.Sel] == w.field
}

// derefsIn lists the dereferences of the field (field.X selectors) that node n evaluates unconditionally.
func (w *c05win) derefsIn(info *types.Info, n ast.Node) []*ast.SelectorExpr {
	var out []*ast.SelectorExpr
	var walk func(m ast.Node)
	walk = func(m ast.Node) {
		switch x := m.(type) {
		case nil:
			return
		case *ast.FuncLit:
			return
		case *ast.BinaryExpr:
			if x.Op == token.LAND || x.Op == token.LOR {
				walk(x.X)
				return
			}
		case *ast.SelectorExpr:
			if w.isField(info, x.X) {
				out = append(out, x)
			}
		}
		ast.Inspect(m, func(c ast.Node) bool {
			if c == m || c == nil {
				return true
			}
			walk(c)
			return false
		})
	}
	walk(n)
	return out
}

// nonNilAt reports whether the field is known non-nil when node (inside fi) is evaluated.
func (w *c05win) nonNilAt(fi *FuncInfo, node ast.Node) (bool, string) {
	info := fi.Pkg.TypesInfo
	// nodes inside function literals are evaluated later (deferred / goroutine): nothing is known
	par := w.r.P.Parents(fi.File)
	for p := par[node]; p != nil; p = par[p] {
		if _, isLit := p.(*ast.FuncLit); isLit {
			return false, ""
		}
	}
	g := w.r.P.CFGOf(fi)
	if g.GuardedBy(node, func(l Lit) bool {
		if l.Tag != nil {
			return false
		}
		be, ok := ast.Unparen(l.Expr).(*ast.BinaryExpr)
		if !ok || !w.isField(info, be.X) {
			return false
		}
		if tv := info.Types[be.Y]; !tv.IsNil() {
			return false
		}
		return (be.Op == token.NEQ && l.Truth) || (be.Op == token.EQL && !l.Truth)
	}) {
		return true, "dominated by a test that the field is not nil"
	}
	if g.MustPassNode(node, func(nd ast.Node) bool {
		as, ok := nd.(*ast.AssignStmt)
		if !ok {
			return false
		}
		for i, l := range as.Lhs {
			if w.isField(info, l) && i < len(as.Rhs) && len(as.Lhs) == len(as.Rhs) {
				if tv := info.Types[as.Rhs[i]]; !tv.IsNil() {
					return true
				}
			}
		}
		return false
	}) {
		return true, "dominated by an assignment of the field in the same function"
	}
	if g.MustPassNode(node, func(nd ast.Node) bool {
		return nd != node && !containsNode(nd, node) && len(w.derefsIn(info, nd)) > 0
	}) {
		return true, "an earlier dereference on every path already failed if the field was nil (that one is the obligation)"
	}
	if why, ok := w.falseParamGuard(fi, node, 0); ok {
		return true, why
	}
	if w.entrySafe(fi) {
		return true, "every call from the window establishes that the field is not nil before calling " + fi.Decl.Name.Name
	}
	return false, ""
}

// entrySafe: every call site of fi inside the window has the field non-nil.
func (w *c05win) entrySafe(fi *FuncInfo) bool {
	if w.roots[fi.Obj] {
		return false
	}
	switch w.memo[fi.Obj] {
	case 1:
		return false // recursion: assume nothing
	case 2:
		return true
	case 3:
		return false
	}
	w.memo[fi.Obj] = 1
	n := 0
	safe := true
	for _, caller := range w.window {
		for _, c := range calls(caller.Decl.Body, true) {
			if callee(caller.Pkg.TypesInfo, c) != fi.Obj {
				continue
			}
			n++
			if ok, _ := w.nonNilAt(caller, c); !ok {
				safe = false
			}
		}
	}
	if n == 0 {
		safe = false
	}
	if safe {
		w.memo[fi.Obj] = 2
	} else {
		w.memo[fi.Obj] = 3
	}
	return safe
}

// falseParamGuard: node is reachable only when a boolean parameter is true, and every call of fi from
// the window passes the constant false for it (directly or through a parameter with the same property).
func (w *c05win) falseParamGuard(fi *FuncInfo, node ast.Node, depth int) (string, bool) {
	if depth > 3 {
		return "", false
	}
	info := fi.Pkg.TypesInfo
	sig := fi.Obj.Type().(*types.Signature)
	g := w.r.P.CFGOf(fi)
	for i := 0; i < sig.Params().Len(); i++ {
		p := sig.Params().At(i)
		if b, ok := p.Type().Underlying().(*types.Basic); !ok || b.Info()&types.IsBoolean == 0 {
			continue
		}
		guarded := g.GuardedBy(node, func(l Lit) bool {
			id, ok := ast.Unparen(l.Expr).(*ast.Ident)
			return ok && l.Tag == nil && info.Uses[id] == p && l.Truth
		})
		if !guarded || w.paramAssigned(fi, p) {
			continue
		}
		if w.paramAlwaysFalse(fi, i, depth) {
			return "reachable only when parameter " + p.Name() + " is true, and every call from the window passes false", true
		}
	}
	return "", false
}

func (w *c05win) paramAssigned(fi *FuncInfo, p *types.Var) bool {
	info := fi.Pkg.TypesInfo
	res := false
	ast.Inspect(fi.Decl.Body, func(n ast.Node) bool {
		if as, ok := n.(*ast.AssignStmt); ok {
			for _, l := range as.Lhs {
				if id, ok := ast.Unparen(l).(*ast.Ident); ok && info.Uses[id] == p {
					res = true
				}
			}
		}
		return true
	})
	return res
}

func (w *c05win) paramAlwaysFalse(fi *FuncInfo, idx int, depth int) bool {
	if depth > 3 {
		return false
	}
	n := 0
	for _, caller := range w.window {
		cinfo := caller.Pkg.TypesInfo
		csig := caller.Obj.Type().(*types.Signature)
		for _, c := range calls(caller.Decl.Body, true) {
			if callee(cinfo, c) != fi.Obj {
				continue
			}
			n++
			if idx >= len(c.Args) {
				return false
			}
			a := ast.Unparen(c.Args[idx])
			if tv := cinfo.Types[a]; tv.Value != nil {
				if tv.Value.String() != "false" {
					return false
				}
				continue
			}
			id, ok := a.(*ast.Ident)
			if !ok {
				return false
			}
			pi := -1
			for j := 0; j < csig.Params().Len(); j++ {
				if cinfo.Uses[id] == csig.Params().At(j) {
					pi = j
				}
			}
			if pi < 0 || w.paramAssigned(caller, csig.Params().At(pi)) || !w.paramAlwaysFalse(caller, pi, depth+1) {
				return false
			}
		}
	}
	return n > 0
}

// c05EmitTextNonEmpty: the cross-package precondition of renderer.Text — every call of the builder's
// emitText passes a text that a dominating test shows to be non-empty.
func c05EmitTextNonEmpty(r *Run) {
	const R = "R-4"
	emit := r.NeedFunc(R, "internal/compiler", "(*functionBuilder).emitText")
	if emit == nil {
		return
	}
	n := 0
	for _, fi := range r.P.Funcs("internal/compiler") {
		if r.P.isTestFile(fi.File) {
			continue
		}
		info := fi.Pkg.TypesInfo
		for _, c := range calls(fi.Decl.Body, false) {
			if callee(info, c) != emit.Obj || len(c.Args) == 0 {
				continue
			}
			n++
			o := r.Ob(R, "compiler.emitText#non-empty-argument<-"+fi.Name(), c.Pos())
			arg := exprStr(c.Args[0])
			g := r.P.CFGOf(fi)
			ok := g.GuardedBy(c, func(l Lit) bool {
				be, isBin := ast.Unparen(l.Expr).(*ast.BinaryExpr)
				if !isBin || l.Tag != nil {
					return false
				}
				call, isCall := ast.Unparen(be.X).(*ast.CallExpr)
				if !isCall || !isBuiltinCall(info, call, "len") || len(call.Args) != 1 || exprStr(call.Args[0]) != arg {
					return false
				}
				v, isConst := intValue(info, be.Y)
				if !isConst || v != 0 {
					return false
				}
				switch be.Op {
				case token.NEQ, token.GTR:
					return l.Truth
				case token.EQL, token.LEQ:
					return !l.Truth
				}
				return false
			})
			if ok {
				o.OK("dominated by a test that len(%s) is not 0", arg)
			} else {
				o.Bad("emitText is called with a text that may be empty: renderer.Text indexes txt[0] when a question mark is to be removed, so an empty Text instruction in a URL makes Run panic in the host")
			}
		}
	}
	if n == 0 {
		r.Ob(R, "compiler.emitText#non-empty-argument", emit.Decl.Pos()).Unknown("no call site of emitText found")
	}
}

func c05R3v2(r *Run, fns []*FuncInfo, byObj map[*types.Func]*FuncInfo, recoverable, loop *FuncInfo, classifier *types.Func) {
	const R = "R-3"
	// the field: the *Function field of VM that the run driver (the caller of the recoverable section) sets to nil
	var field *types.Var
	var opener *FuncInfo
	for _, fi := range fns {
		info := fi.Pkg.TypesInfo
		callsRecoverable := false
		for _, c := range calls(fi.Decl.Body, true) {
			if callee(info, c) == recoverable.Obj {
				callsRecoverable = true
			}
		}
		if !callsRecoverable {
			continue
		}
		ast.Inspect(fi.Decl.Body, func(n ast.Node) bool {
			as, ok := n.(*ast.AssignStmt)
			if !ok || len(as.Lhs) != 1 || len(as.Rhs) != 1 {
				return true
			}
			sel, ok := as.Lhs[0].(*ast.SelectorExpr)
			if !ok {
				return true
			}
			v, ok := info.Uses[sel.Sel].(*types.Var)
			if !ok || !v.IsField() || typeStr(v.Type()) != "*runtime.Function" {
				return true
			}
			if tv := info.Types[as.Rhs[0]]; tv.IsNil() && strings.HasSuffix(typeStr(info.TypeOf(sel.X)), "VM") {
				field, opener = v, fi
			}
			return true
		})
	}
	if field == nil {
		r.Ob(R, "VM.fn#nil-window", token.NoPos).Trivial("the run driver never stores nil into the VM's current-function field: there is no nil window")
		return
	}
	r.Note("nil window opened by %s (stores nil into VM.%s before re-entering %s)", opener.Name(), field.Name(), recoverable.Name())
	w := &c05win{r: r, field: field, window: map[*types.Func]*FuncInfo{}, roots: map[*types.Func]bool{}, memo: map[*types.Func]int{}}
	var walk func(f *FuncInfo)
	walk = func(f *FuncInfo) {
		if f == nil || w.window[f.Obj] != nil || f.Obj == loop.Obj {
			return
		}
		w.window[f.Obj] = f
		info := f.Pkg.TypesInfo
		for _, c := range calls(f.Decl.Body, true) {
			if cf := callee(info, c); cf != nil {
				walk(byObj[cf])
			}
		}
	}
	walk(recoverable)
	w.roots[recoverable.Obj] = true
	if classifier != nil {
		walk(byObj[classifier])
	}
	for _, fi := range sortedFuncs(w.window) {
		info := fi.Pkg.TypesInfo
		seen := map[string]bool{}
		ast.Inspect(fi.Decl.Body, func(m ast.Node) bool {
			if _, isLit := m.(*ast.FuncLit); isLit {
				return false
			}
			sel, ok := m.(*ast.SelectorExpr)
			if !ok || !w.isField(info, sel.X) {
				return true
			}
			key := fi.Name() + "#" + exprStr(sel)
			if seen[key] {
				return true
			}
			seen[key] = true
			o := r.Ob(R, key, sel.Pos())
			if ok, why := w.nonNilAt(fi, sel); ok {
				o.OK("%s", why)
			} else {
				o.Bad("%s dereferences VM.%s unguarded, and %s leaves it nil while a panicked frame is unwound: a deferred native call that panics, or a second panic, makes Run panic in the host with a nil dereference", fi.Name(), field.Name(), opener.Name())
			}
			return true
		})
	}
	r.Stats["R-3_window_functions"] = len(w.window)
	r.Require(R, 3)
}
