package main

// C02 — compile-time constant arithmetic is exact and matches the Go specification
// (DESIGN.md §5 C02). Uses the selector walk of c01walk.go.
//
//   R-1 representability bounds: the acceptance predicate of every integer-kind clause of a
//       representedBy method, evaluated from syntax at the boundary points of the kind, accepts
//       exactly the kind's range; kind-indexed maximum tables hold 2^N-1 for every unsigned kind;
//       the kind predicate guarding values in (MaxInt64, MaxUint64] denotes the 64-bit unsigned kinds
//   R-2 operator coverage: binaryOp / unaryOp of every constant implementation accept exactly the
//       operators the Go specification defines for the implementation's class
//   R-3 fast-path fallback: in the int64 / float64 implementations every operator whose result can
//       leave the fast representation has a return that re-dispatches to a big representation
//   R-4 complex product symmetry: in the product clause of the complex implementation the two
//       cross terms are combined with + (imaginary part) and the two straight terms with -

import (
	"fmt"
	"go/ast"
	"go/constant"
	"go/token"
	"go/types"
	"math"
	"math/big"
	"sort"
	"strings"

	"golang.org/x/tools/go/packages"
)

func init() {
	register("C02", &ruleSet{
		explain: "Structural necessary conditions on internal/compiler's constant implementations (all implementers of the interface with the binaryOp/unaryOp/representedBy roles, found through go/types): (R-1) for every clause labelled with integer kinds in a representedBy method, the acceptance predicate (the disjunction of the conditions guarding a non-error return) is evaluated with go/constant, Go conversion semantics included, at the points lo-1, lo, lo+1, -1, 0, 1, hi-1, hi, hi+1 of each labelled kind under the analysed word size and must hold exactly inside [lo,hi]; a predicate that depends on an out-of-range float->integer conversion (implementation-defined in Go) at a point that must be accepted is a violation; every table indexed by kind-reflect.Uint has an entry 2^N-1 for each of the six unsigned kinds; (R-2) the set of ast.OperatorType values for which binaryOp/unaryOp reach a non-error return (selector walk over the operator parameter) equals the operator set of the Go specification for the implementation's class (integer, float, complex, boolean, string; Scriggo's contains operators on strings are a listed extension); (R-3) for int64Const-like and float64Const-like implementations (underlying basic type) each of + - * << unary - unary ^ (integers) and + - * / (floats) has, in the region selected for the operator, a return whose value is computed by a different implementation; (R-4) in the complex implementation's product clause the real part subtracts the product of the two real-with-real / imag-with-imag terms and the imaginary part adds the two cross terms.",
		notCov: []string{
			"the numeric values computed by the big representations (rounding at 512 bits, rational/float switch-over, division)",
			"equality of results with go/constant for values inside the ranges",
			"R-1: float32 overflow bounds and the 512-bit overflow limit",
		},
		trusted: []string{
			"Go specification: operators defined on integer, floating-point, complex, boolean and string constants; representability; conversion semantics; (a+bi)(c+di) = (ac-bd) + (bc+ad)i",
			"math/big.NewInt and (*big.Int).SetUint64 yield the value of their argument",
		},
		run:     runC02,
		arch386: true,
	})
}

type c02 struct {
	r         *Run
	pk        *packages.Package
	info      *types.Info
	iface     *types.Named
	opT       *types.Named
	kindT     *types.Named
	rtypT     types.Type // reflect.Type
	impls     []*c02Impl
	sizes     types.Sizes
	opVal     map[string]int64
	opNam     map[int64]string
	helperAcc map[*types.Func]map[int64]bool // operators accepted by helpers handed the operator
	kinds     map[string]int64
	kname     map[int64]string
}

type c02Impl struct {
	typ    *types.Named
	class  string // integer | float | complex | boolean | string
	fast   bool   // underlying basic numeric type (int64 / float64)
	binary *FuncInfo
	unary  *FuncInfo
	repr   *FuncInfo
}

func runC02(r *Run) {
	x := &c02{r: r, opVal: map[string]int64{}, opNam: map[int64]string{}, kinds: map[string]int64{}, kname: map[int64]string{}}
	r.Exhaust = true
	x.pk = r.P.Pkg("internal/compiler")
	if !r.Anchor("R-2", "package internal/compiler", x.pk != nil) {
		return
	}
	x.info = x.pk.TypesInfo
	x.sizes = x.pk.TypesSizes
	x.opT = r.P.Named("ast", "OperatorType")
	x.kindT = r.P.ExtNamed("reflect", "Kind")
	if rt := r.P.ExtNamed("reflect", "Type"); rt != nil {
		x.rtypT = rt
	}
	if !r.Anchor("R-2", "ast.OperatorType", x.opT != nil) || !r.Anchor("R-1", "reflect.Kind / reflect.Type", x.kindT != nil && x.rtypT != nil) {
		return
	}
	for _, c := range EnumConsts(x.opT) {
		v, _ := constantInt64(c)
		x.opVal[c.Name()] = v
		x.opNam[v] = c.Name()
	}
	for _, c := range EnumConsts(x.kindT) {
		v, _ := constantInt64(c)
		x.kinds[c.Name()] = v
		if _, dup := x.kname[v]; !dup || c.Name() == "Pointer" {
			x.kname[v] = c.Name()
		}
	}
	x.findImpls()
	if !r.Anchor("R-2", "constant interface (methods (OperatorType, self) and (OperatorType, reflect.Type) and (reflect.Type) (self, error)) with at least 6 implementations", x.iface != nil && len(x.impls) >= 6) {
		return
	}
	r.Stats["implementations"] = len(x.impls)
	x.ruleR1()
	if r.P.Arch != "" {
		// the repetition under another GOARCH: only R-1 depends on the word size
		return
	}
	x.ruleR2()
	x.ruleR3()
	x.ruleR4()
}

// findImpls resolves the constant interface and its implementations by role.
func (x *c02) findImpls() {
	sc := x.pk.Types.Scope()
	errT := types.Universe.Lookup("error").Type()
	for _, n := range sc.Names() {
		tn, ok := sc.Lookup(n).(*types.TypeName)
		if !ok {
			continue
		}
		nt, ok := tn.Type().(*types.Named)
		if !ok {
			continue
		}
		it, ok := nt.Underlying().(*types.Interface)
		if !ok {
			continue
		}
		roles := 0
		for i := 0; i < it.NumMethods(); i++ {
			if x.role(it.Method(i).Type().(*types.Signature), nt, errT) != "" {
				roles++
			}
		}
		if roles == 3 {
			x.iface = nt
		}
	}
	if x.iface == nil {
		return
	}
	it := x.iface.Underlying().(*types.Interface)
	for _, t := range implementers(x.pk, it) {
		nt, ok := t.(*types.Named)
		if !ok {
			if p, isP := t.(*types.Pointer); isP {
				nt, _ = p.Elem().(*types.Named)
			}
		}
		if nt == nil {
			continue
		}
		im := &c02Impl{typ: nt}
		switch u := nt.Underlying().(type) {
		case *types.Basic:
			switch {
			case u.Info()&types.IsInteger != 0:
				im.class, im.fast = "integer", true
			case u.Info()&types.IsFloat != 0:
				im.class, im.fast = "float", true
			case u.Info()&types.IsBoolean != 0:
				im.class = "boolean"
			case u.Info()&types.IsString != 0:
				im.class = "string"
			}
		case *types.Struct:
			nself := 0
			for i := 0; i < u.NumFields(); i++ {
				ft := u.Field(i).Type()
				if types.Identical(ft, x.iface) {
					nself++
				}
				if pt, ok := ft.(*types.Pointer); ok {
					if bn, ok := pt.Elem().(*types.Named); ok && bn.Obj().Pkg() != nil && bn.Obj().Pkg().Path() == "math/big" {
						switch bn.Obj().Name() {
						case "Int":
							im.class = "integer"
						case "Float", "Rat":
							im.class = "float"
						}
					}
				}
			}
			if nself == 2 {
				im.class = "complex"
			}
		}
		for _, fi := range x.r.P.Funcs("internal/compiler") {
			if x.r.P.isTestFile(fi.File) || fi.Obj == nil {
				continue
			}
			sig := fi.Obj.Type().(*types.Signature)
			if sig.Recv() == nil {
				continue
			}
			rt := sig.Recv().Type()
			if p, ok := rt.(*types.Pointer); ok {
				rt = p.Elem()
			}
			if !types.Identical(rt, nt) {
				continue
			}
			switch x.role(sig, x.iface, errT) {
			case "binary":
				im.binary = fi
			case "unary":
				im.unary = fi
			case "repr":
				im.repr = fi
			}
		}
		x.impls = append(x.impls, im)
	}
	sort.Slice(x.impls, func(i, j int) bool { return x.impls[i].typ.Obj().Name() < x.impls[j].typ.Obj().Name() })
}

func (x *c02) role(sig *types.Signature, self types.Type, errT types.Type) string {
	p, res := sig.Params(), sig.Results()
	if res.Len() != 2 || !types.Identical(res.At(0).Type(), self) || !types.Identical(res.At(1).Type(), errT) {
		return ""
	}
	switch {
	case p.Len() == 2 && types.Identical(p.At(0).Type(), x.opT) && types.Identical(p.At(1).Type(), self):
		return "binary"
	case p.Len() == 2 && types.Identical(p.At(0).Type(), x.opT) && types.Identical(p.At(1).Type(), x.rtypT):
		return "unary"
	case p.Len() == 1 && types.Identical(p.At(0).Type(), x.rtypT):
		return "repr"
	}
	return ""
}

func (x *c02) implOf(t types.Type) *c02Impl {
	if p, ok := t.(*types.Pointer); ok {
		t = p.Elem()
	}
	for _, im := range x.impls {
		if types.Identical(im.typ, t) {
			return im
		}
	}
	return nil
}

// ---------------------------------------------------------------------------
// a small evaluator of Go expressions over one variable, with Go's conversion semantics

type c02Env struct {
	info  *types.Info
	sizes types.Sizes
	obj   types.Object
	val   constant.Value
	undef string // set when an implementation-defined conversion was evaluated
}

func c02Basic(t types.Type) *types.Basic {
	if t == nil {
		return nil
	}
	b, _ := t.Underlying().(*types.Basic)
	return b
}

// eval returns the value of e, or nil when e is outside the supported forms.
func (env *c02Env) eval(e ast.Expr) constant.Value {
	e = ast.Unparen(e)
	if tv, ok := env.info.Types[e]; ok && tv.Value != nil {
		v := tv.Value
		if b := c02Basic(tv.Type); b != nil && b.Info()&types.IsFloat != 0 && b.Info()&types.IsUntyped == 0 {
			f, _ := constant.Float64Val(constant.ToFloat(v))
			if b.Kind() == types.Float32 {
				f = float64(float32(f))
			}
			return constant.MakeFloat64(f)
		}
		return v
	}
	switch t := e.(type) {
	case *ast.Ident:
		if env.info.Uses[t] == env.obj {
			return env.val
		}
	case *ast.UnaryExpr:
		if t.Op == token.NOT {
			if v := env.eval(t.X); v != nil && v.Kind() == constant.Bool {
				return constant.MakeBool(!constant.BoolVal(v))
			}
		}
	case *ast.BinaryExpr:
		switch t.Op {
		case token.LAND, token.LOR:
			l := env.eval(t.X)
			if l == nil || l.Kind() != constant.Bool {
				return nil
			}
			if constant.BoolVal(l) == (t.Op == token.LOR) {
				return l // short circuit
			}
			r := env.eval(t.Y)
			if r == nil || r.Kind() != constant.Bool {
				return nil
			}
			return r
		case token.EQL, token.NEQ, token.LSS, token.LEQ, token.GTR, token.GEQ:
			l, r := env.eval(t.X), env.eval(t.Y)
			if l == nil || r == nil {
				return nil
			}
			if l.Kind() == constant.Float || r.Kind() == constant.Float {
				l, r = constant.ToFloat(l), constant.ToFloat(r)
			}
			if l.Kind() == constant.Unknown || r.Kind() == constant.Unknown {
				return nil
			}
			return constant.MakeBool(constant.Compare(l, t.Op, r))
		}
	case *ast.CallExpr:
		if len(t.Args) != 1 {
			return nil
		}
		ft, ok := env.info.Types[t.Fun]
		if !ok || !ft.IsType() {
			return nil
		}
		to, from := c02Basic(ft.Type), c02Basic(env.info.TypeOf(t.Args[0]))
		v := env.eval(t.Args[0])
		if v == nil || to == nil || from == nil {
			return nil
		}
		return env.convert(v, from, to, exprStr(e))
	}
	return nil
}

func (env *c02Env) convert(v constant.Value, from, to *types.Basic, what string) constant.Value {
	toInt, toFloat := to.Info()&types.IsInteger != 0, to.Info()&types.IsFloat != 0
	fromFloat := from.Info()&types.IsFloat != 0
	switch {
	case toFloat:
		f, _ := constant.Float64Val(constant.ToFloat(v))
		if to.Kind() == types.Float32 {
			f = float64(float32(f))
		}
		return constant.MakeFloat64(f)
	case toInt:
		bits := uint(env.sizes.Sizeof(to)) * 8
		uns := to.Info()&types.IsUnsigned != 0
		var n *big.Int
		if fromFloat {
			f, _ := constant.Float64Val(v)
			if math.IsNaN(f) || math.IsInf(f, 0) {
				env.undef = what
				return nil
			}
			bf := new(big.Float).SetFloat64(f)
			n, _ = bf.Int(nil) // truncation toward zero
			lo, hi := c02Range(bits, uns)
			if n.Cmp(lo) < 0 || n.Cmp(hi) > 0 {
				env.undef = fmt.Sprintf("%s with operand %v is outside %s: the result is implementation-defined", what, v, to.Name())
				return nil
			}
		} else {
			iv := constant.ToInt(v)
			if iv.Kind() != constant.Int {
				return nil
			}
			n, _ = new(big.Int).SetString(iv.ExactString(), 10)
			// integer -> integer conversion wraps
			mod := new(big.Int).Lsh(big.NewInt(1), bits)
			n.Mod(n, mod)
			if !uns && n.Bit(int(bits-1)) == 1 {
				n.Sub(n, mod)
			}
		}
		return constant.Make(n)
	}
	return nil
}

func c02Range(bits uint, uns bool) (lo, hi *big.Int) {
	if uns {
		return big.NewInt(0), new(big.Int).Sub(new(big.Int).Lsh(big.NewInt(1), bits), big.NewInt(1))
	}
	h := new(big.Int).Lsh(big.NewInt(1), bits-1)
	return new(big.Int).Neg(h), new(big.Int).Sub(h, big.NewInt(1))
}

// ---------------------------------------------------------------------------
// R-1

func (x *c02) goTypeOfKind(k int64) *types.Basic {
	n, ok := x.kname[k]
	if !ok {
		return nil
	}
	o := types.Universe.Lookup(strings.ToLower(n))
	if o == nil {
		return nil
	}
	b, _ := o.Type().(*types.Basic)
	return b
}

func (x *c02) intKind(k int64) (bits uint, uns, ok bool) {
	b := x.goTypeOfKind(k)
	if b == nil || b.Info()&types.IsInteger == 0 {
		return 0, false, false
	}
	return uint(x.sizes.Sizeof(b)) * 8, b.Info()&types.IsUnsigned != 0, true
}

// acceptPred extracts the acceptance predicate of a clause body: the disjunction of the conditions
// of `if P { ...; return <non-nil>, ... }` statements, up to the first unconditional return.
// always is true when the clause accepts unconditionally.
func (x *c02) acceptPred(body []ast.Stmt) (preds []ast.Expr, always bool, why string) {
	accepting := func(r *ast.ReturnStmt) bool {
		if len(r.Results) == 1 {
			// `return other.representedBy(typ)`: the value is handed to another implementation
			_, isCall := ast.Unparen(r.Results[0]).(*ast.CallExpr)
			return isCall
		}
		if len(r.Results) != 2 {
			return false
		}
		if id, ok := ast.Unparen(r.Results[0]).(*ast.Ident); ok && id.Name == "nil" && x.info.Uses[id] == types.Universe.Lookup("nil") {
			return false
		}
		return true
	}
	for _, st := range body {
		switch s := st.(type) {
		case *ast.IfStmt:
			if s.Else != nil || len(s.Body.List) == 0 {
				return nil, false, "if with else or empty body"
			}
			ret, ok := s.Body.List[len(s.Body.List)-1].(*ast.ReturnStmt)
			if !ok {
				return nil, false, "if body does not end in a return"
			}
			if accepting(ret) {
				c := s.Cond
				if s.Init != nil {
					// `if f := float32(c1); P(f)`: not a bound on the constant's value
					return nil, false, "condition with an init statement"
				}
				preds = append(preds, c)
			}
		case *ast.ReturnStmt:
			if accepting(s) {
				return preds, true, ""
			}
			return preds, false, ""
		default:
			return nil, false, "statement other than if/return in the clause"
		}
	}
	return preds, false, ""
}

// freeVar returns the single non-constant variable the predicates mention.
func (x *c02) freeVar(preds []ast.Expr) types.Object {
	var obj types.Object
	many := false
	for _, p := range preds {
		ast.Inspect(p, func(n ast.Node) bool {
			id, ok := n.(*ast.Ident)
			if !ok {
				return true
			}
			if v, ok := x.info.Uses[id].(*types.Var); ok {
				if obj != nil && obj != types.Object(v) {
					many = true
				}
				obj = v
			}
			return true
		})
	}
	if many {
		return nil
	}
	return obj
}

func (x *c02) ruleR1() {
	const R = "R-1"
	two := func(n uint) *big.Int { return new(big.Int).Lsh(big.NewInt(1), n) }
	minI64, maxI64 := c02Range(64, false)
	for _, im := range x.impls {
		if im.repr == nil {
			continue
		}
		fname := im.repr.Name()
		for _, sw := range switchesOn(x.info, im.repr.Decl.Body, x.kindT) {
			for _, st := range sw.Body.List {
				cc := st.(*ast.CaseClause)
				if cc.List == nil {
					continue
				}
				var ks []int64
				allInt := true
				for _, e := range cc.List {
					v, ok := intValue(x.info, e)
					if !ok {
						allInt = false
						break
					}
					if _, _, isInt := x.intKind(v); !isInt {
						allInt = false
					}
					ks = append(ks, v)
				}
				if !allInt {
					continue
				}
				preds, always, why := x.acceptPred(cc.Body)
				for _, k := range ks {
					bits, uns, _ := x.intKind(k)
					o := x.r.Ob(R, fname+"#"+x.kname[k], cc.Pos())
					if why != "" {
						o.Unknown("clause for %s has an unrecognised shape: %s", x.kname[k], why)
						continue
					}
					var v types.Object
					if !always {
						v = x.freeVar(preds)
						if v == nil {
							o.Unknown("the acceptance predicate of the clause for %s does not depend on exactly one variable", x.kname[k])
							continue
						}
					}
					vb := (*types.Basic)(nil)
					if v != nil {
						vb = c02Basic(v.Type())
					}
					// expected range and test points
					lo, hi := c02Range(bits, uns)
					var pts []constant.Value
					var want []bool
					isFloatVar := vb != nil && vb.Info()&types.IsFloat != 0
					if isFloatVar {
						// a float variable: the clause decides "is an integer the delegate can check":
						// the signed kinds share the int64 range, the unsigned kinds the uint64 range
						flo, fhi := c02Range(64, uns)
						for _, f := range []float64{-math.Ldexp(1, 63) - 2048, -math.Ldexp(1, 63), -1, 0, 1, math.Ldexp(1, 63) - 1024, math.Ldexp(1, 63), math.Ldexp(1, 64) - 2048, math.Ldexp(1, 64)} {
							bi, _ := new(big.Float).SetFloat64(f).Int(nil)
							pts = append(pts, constant.MakeFloat64(f))
							want = append(want, bi.Cmp(flo) >= 0 && bi.Cmp(fhi) <= 0)
						}
					} else {
						// an integer variable of type int64 (or the clause accepts always): domain int64
						dlo, dhi := minI64, maxI64
						if vb != nil && vb.Info()&types.IsInteger != 0 {
							dlo, dhi = c02Range(uint(x.sizes.Sizeof(vb))*8, vb.Info()&types.IsUnsigned != 0)
						}
						cand := []*big.Int{big.NewInt(-1), big.NewInt(0), big.NewInt(1)}
						for _, d := range []int64{-1, 0, 1} {
							cand = append(cand, new(big.Int).Add(lo, big.NewInt(d)), new(big.Int).Add(hi, big.NewInt(d)))
						}
						for _, c := range cand {
							if c.Cmp(dlo) < 0 || c.Cmp(dhi) > 0 {
								continue
							}
							pts = append(pts, constant.Make(c))
							want = append(want, c.Cmp(lo) >= 0 && c.Cmp(hi) <= 0)
						}
					}
					bad := ""
					unk := ""
					for i, p := range pts {
						got := always
						if !always {
							for _, pr := range preds {
								env := &c02Env{info: x.info, sizes: x.sizes, obj: v, val: p}
								res := env.eval(pr)
								if res == nil {
									if env.undef != "" {
										// Go leaves the result of an out-of-range float->integer conversion to the
										// implementation: the verdict of the clause at this point differs between platforms
										if bad == "" {
											bad = fmt.Sprintf("at value %v, which %s must %s, the predicate evaluates %s", p, x.kname[k], map[bool]string{true: "accept", false: "reject"}[want[i]], env.undef)
										}
										continue
									}
									unk = "cannot evaluate " + exprStr(pr)
									continue
								}
								if res.Kind() == constant.Bool && constant.BoolVal(res) {
									got = true
								}
							}
						}
						if bad == "" && unk == "" && got != want[i] {
							bad = fmt.Sprintf("the clause %s the value %v but %s (%d bits, range [%v, %v]) %s", map[bool]string{true: "accepts", false: "rejects"}[got], p, x.kname[k], bits, lo, hi, map[bool]string{true: "contains it", false: "does not contain it"}[want[i]])
						}
					}
					switch {
					case bad != "":
						o.Bad("%s: %s", fname, bad)
					case unk != "":
						o.Unknown("%s", unk)
					default:
						o.OK("acceptance predicate evaluated at %d boundary points of %s (%d bits): accepts exactly [%v, %v] within the variable's domain", len(pts), x.kname[k], bits, lo, hi)
					}
				}
			}
		}
		// values in (MaxInt64, MaxUint64]: the guard calling (*big.Int).IsUint64
		ast.Inspect(im.repr.Decl.Body, func(n ast.Node) bool {
			is, ok := n.(*ast.IfStmt)
			if !ok {
				return true
			}
			call, ok := ast.Unparen(is.Cond).(*ast.CallExpr)
			if !ok || !isPkgFunc(callee(x.info, call), "math/big", "Int", "IsUint64") {
				return true
			}
			o := x.r.Ob(R, fname+"#uint64-range", is.Pos())
			preds, always, why := x.acceptPred(is.Body.List)
			if why != "" || always || len(preds) == 0 {
				o.Unknown("guard on IsUint64 does not enclose `if <kind predicate> { return value, nil }` (%s)", why)
				return false
			}
			isKind := func(e ast.Expr) bool {
				tv, ok := x.info.Types[ast.Unparen(e)]
				return ok && tv.Value == nil && types.Identical(tv.Type, x.kindT)
			}
			got := map[int64]bool{}
			for _, p := range preds {
				set, ok := predSet(x.info, p, isKind, 0, 26)
				if !ok {
					o.Unknown("cannot evaluate the kind predicate %s", exprStr(p))
					return false
				}
				for k := range set {
					got[k] = true
				}
			}
			var diff []string
			for k := int64(0); k <= 26; k++ {
				bits, uns, isInt := x.intKind(k)
				want := isInt && uns && bits == 64
				if want != got[k] {
					diff = append(diff, fmt.Sprintf("%s:%v(want %v)", x.kname[k], got[k], want))
				}
			}
			if len(diff) > 0 {
				o.Bad("%s: a value in (MaxInt64, MaxUint64] is accepted for a kind set different from the 64-bit unsigned kinds: %s", fname, strings.Join(diff, " "))
			} else {
				o.OK("values in (MaxInt64, MaxUint64] accepted exactly for the unsigned kinds of 64 bits under this word size")
			}
			return false
		})
	}
	// kind-indexed tables: f(kind) = TABLE[kind - reflect.Uint]
	for _, fi := range x.r.P.Funcs("internal/compiler") {
		if x.r.P.isTestFile(fi.File) || fi.Obj == nil || fi.Decl.Recv != nil {
			continue
		}
		sig := fi.Obj.Type().(*types.Signature)
		if sig.Params().Len() != 1 || !types.Identical(sig.Params().At(0).Type(), x.kindT) || len(fi.Decl.Body.List) != 1 {
			continue
		}
		ret, ok := fi.Decl.Body.List[0].(*ast.ReturnStmt)
		if !ok || len(ret.Results) != 1 {
			continue
		}
		ix, ok := ast.Unparen(ret.Results[0]).(*ast.IndexExpr)
		if !ok {
			continue
		}
		sub, ok := ast.Unparen(ix.Index).(*ast.BinaryExpr)
		if !ok || sub.Op != token.SUB {
			continue
		}
		base, okb := intValue(x.info, sub.Y)
		tid, okt := ast.Unparen(ix.X).(*ast.Ident)
		if !okb || !okt {
			continue
		}
		init, _, _ := x.r.P.pkgVarInit("internal/compiler", tid.Name)
		lit, _ := init.(*ast.CompositeLit)
		if lit == nil {
			continue
		}
		if base != x.kinds["Uint"] || !strings.Contains(strings.ToLower(fi.Decl.Name.Name), "max") {
			x.r.Ob(R, fi.Name()+"#table", fi.Decl.Pos()).Unknown("kind-indexed table of unknown meaning (base %s)", x.kname[base])
			continue
		}
		elems, ok := keyedElems(x.info, lit)
		if !ok {
			x.r.Ob(R, fi.Name()+"#table", fi.Decl.Pos()).Unknown("table literal with non-constant keys")
			continue
		}
		for k := int64(0); k <= 26; k++ {
			bits, uns, isInt := x.intKind(k)
			if !isInt || !uns {
				continue
			}
			o := x.r.Ob(R, fi.Name()+"#"+x.kname[k], lit.Pos())
			el, has := elems[k-base]
			if !has {
				o.Bad("%s indexes %s with kind-%s but the table has no entry for %s (index %d, length %d): the call panics with index out of range", fi.Name(), tid.Name, x.kname[base], x.kname[k], k-base, len(elems))
				continue
			}
			v := x.constArg(el)
			if v == nil {
				o.Unknown("cannot evaluate the table entry %s", exprStr(el))
				continue
			}
			want := constant.Make(new(big.Int).Sub(two(bits), big.NewInt(1)))
			if constant.Compare(constant.ToInt(v), token.EQL, want) {
				o.OK("entry for %s is 2^%d-1", x.kname[k], bits)
			} else {
				o.Bad("%s: the entry for %s is %v, not 2^%d-1 = %v", fi.Name(), x.kname[k], v, bits, want)
			}
		}
	}
	x.r.Require(R, 30)
}

// constArg evaluates a table element: a constant, big.NewInt(c) or new(big.Int).SetUint64(c).
func (x *c02) constArg(e ast.Expr) constant.Value {
	e = ast.Unparen(e)
	if tv, ok := x.info.Types[e]; ok && tv.Value != nil {
		return tv.Value
	}
	if c, ok := e.(*ast.CallExpr); ok && len(c.Args) == 1 {
		f := callee(x.info, c)
		if isPkgFunc(f, "math/big", "", "NewInt") || isPkgFunc(f, "math/big", "Int", "SetUint64") || isPkgFunc(f, "math/big", "Int", "SetInt64") {
			if tv, ok := x.info.Types[c.Args[0]]; ok && tv.Value != nil {
				return tv.Value
			}
		}
	}
	return nil
}

// ---------------------------------------------------------------------------
// R-2 operator coverage

var (
	c02CmpEq  = []string{"OperatorEqual", "OperatorNotEqual"}
	c02Ord    = []string{"OperatorLess", "OperatorLessEqual", "OperatorGreater", "OperatorGreaterEqual"}
	c02Arith  = []string{"OperatorAddition", "OperatorSubtraction", "OperatorMultiplication", "OperatorDivision"}
	c02IntOps = []string{"OperatorModulo", "OperatorBitAnd", "OperatorBitOr", "OperatorXor", "OperatorAndNot"}
	c02Shifts = []string{"OperatorLeftShift", "OperatorRightShift"}
)

func c02Cat(xs ...[]string) []string {
	var out []string
	for _, x := range xs {
		out = append(out, x...)
	}
	return out
}

// Operators the Go specification defines on constants of each class ("Operators", "Comparison
// operators", "Constant expressions"); a shift of a float/complex constant is legal when the value
// is an integer, so every numeric class must dispatch it.
var c02SpecBinary = map[string][]string{
	"integer": c02Cat(c02CmpEq, c02Ord, c02Arith, c02IntOps, c02Shifts),
	"float":   c02Cat(c02CmpEq, c02Ord, c02Arith, c02Shifts),
	"complex": c02Cat(c02CmpEq, c02Arith, c02Shifts),
	"boolean": c02Cat(c02CmpEq, []string{"OperatorAnd", "OperatorOr"}),
	"string":  c02Cat(c02CmpEq, c02Ord, []string{"OperatorAddition"}),
}
var c02SpecUnary = map[string][]string{
	"integer": {"OperatorAddition", "OperatorSubtraction", "OperatorXor"},
	"float":   {"OperatorAddition", "OperatorSubtraction"},
	"complex": {"OperatorAddition", "OperatorSubtraction"},
	"boolean": {"OperatorNot"},
	"string":  {},
}

// Scriggo's template operators, not part of Go.
var c02Extensions = map[string]string{
	"string binary OperatorContains":    "Scriggo's `contains` operator on string constants",
	"string binary OperatorNotContains": "Scriggo's `not contains` operator on string constants",
}

type c02Ret struct {
	ret *ast.ReturnStmt
	exp bool
}

// isDelegation: `return X.binaryOp(...)` / `return X.unaryOp(...)` (a two-valued call result).
func (x *c02) delegationRecv(r *ast.ReturnStmt) (types.Type, bool) {
	if len(r.Results) != 1 {
		return nil, false
	}
	c, ok := ast.Unparen(r.Results[0]).(*ast.CallExpr)
	if !ok {
		return nil, false
	}
	sel, ok := c.Fun.(*ast.SelectorExpr)
	if !ok {
		return nil, false
	}
	f := callee(x.info, c)
	if f == nil {
		// interface method call: callee resolves to the interface method
		if s := x.info.Selections[sel]; s != nil {
			f, _ = s.Obj().(*types.Func)
		}
	}
	if f == nil {
		return nil, false
	}
	errT := types.Universe.Lookup("error").Type()
	if x.role(f.Type().(*types.Signature), x.iface, errT) == "" {
		return nil, false
	}
	return x.info.TypeOf(sel.X), true
}

// accepted computes, for one method, the operators that reach a non-error return.
func (x *c02) accepted(fi *FuncInfo) (map[int64]bool, []string) {
	acc := map[int64]bool{}
	var unk []string
	for v := range x.opNam {
		var rets []c02Ret
		s := &c01Sel{info: x.info, selType: x.opT, val: v}
		s.leaf = func(n ast.Node, sel, exp bool) {
			if r, ok := n.(*ast.ReturnStmt); ok {
				rets = append(rets, c02Ret{ret: r, exp: exp})
			}
		}
		s.stmts(fi.Decl.Body.List, false, false)
		unk = append(unk, s.unknown...)
		for _, cr := range rets {
			r := cr.ret
			if _, isDeleg := x.delegationRecv(r); isDeleg {
				if cr.exp {
					acc[v] = true
				}
				continue
			}
			// `return helper(op, …)`: a function of the package that is handed the operator decides
			if len(r.Results) == 1 {
				if hc, ok := ast.Unparen(r.Results[0]).(*ast.CallExpr); ok {
					if hf := callee(x.info, hc); hf != nil && hf.Pkg() == fi.Obj.Pkg() && hf != fi.Obj {
						passes := false
						for _, a := range hc.Args {
							if t := x.info.TypeOf(a); t != nil && types.Identical(t, x.opT) {
								passes = true
							}
						}
						if passes {
							for _, h := range x.r.P.Funcs("internal/compiler") {
								if h.Obj == hf && !x.r.P.isTestFile(h.File) {
									if x.helperAcc == nil {
										x.helperAcc = map[*types.Func]map[int64]bool{}
									}
									hacc, done := x.helperAcc[hf]
									if !done {
										x.helperAcc[hf] = map[int64]bool{} // cut recursion
										var hunk []string
										hacc, hunk = x.accepted(h)
										x.helperAcc[hf] = hacc
										unk = append(unk, hunk...)
									}
									if hacc[v] {
										acc[v] = true
									}
									break
								}
							}
						}
					}
				}
			}
			if len(r.Results) != 2 {
				continue
			}
			if id, ok := ast.Unparen(r.Results[0]).(*ast.Ident); ok && id.Name == "nil" && x.info.Uses[id] == types.Universe.Lookup("nil") {
				continue // error return
			}
			acc[v] = true
		}
	}
	return acc, unk
}

func (x *c02) ruleR2() {
	const R = "R-2"
	for _, im := range x.impls {
		if im.class == "" {
			x.r.Ob(R, "compiler."+im.typ.Obj().Name(), im.typ.Obj().Pos()).Unknown("cannot classify the representation of %s (integer/float/complex/boolean/string)", im.typ.Obj().Name())
			continue
		}
		for _, m := range []struct {
			role string
			fi   *FuncInfo
			spec []string
		}{{"binary", im.binary, c02SpecBinary[im.class]}, {"unary", im.unary, c02SpecUnary[im.class]}} {
			if m.fi == nil {
				x.r.Ob(R, "compiler."+im.typ.Obj().Name()+"#"+m.role, im.typ.Obj().Pos()).Unknown("method with the %s-operation role not found", m.role)
				continue
			}
			acc, unk := x.accepted(m.fi)
			if len(unk) > 0 {
				x.r.Ob(R, m.fi.Name(), m.fi.Decl.Pos()).Unknown("%s", strings.Join(unk, "; "))
				continue
			}
			spec := map[int64]bool{}
			for _, n := range m.spec {
				v, ok := x.opVal[n]
				if !ok {
					x.r.Ob(R, m.fi.Name()+"#"+n, m.fi.Decl.Pos()).Unknown("ast.%s not found", n)
					continue
				}
				spec[v] = true
			}
			var all []int64
			for v := range x.opNam {
				if spec[v] || acc[v] {
					all = append(all, v)
				}
			}
			sort.Slice(all, func(i, j int) bool { return all[i] < all[j] })
			for _, v := range all {
				o := x.r.Ob(R, m.fi.Name()+"#"+x.opNam[v], m.fi.Decl.Pos())
				switch {
				case spec[v] && acc[v]:
					o.OK("%s constants: %s defined by Go and dispatched to a non-error return", im.class, x.opNam[v])
				case spec[v]:
					o.Bad("%s rejects %s (every path for it ends in an error return) although Go defines the operator on %s constants", m.fi.Name(), x.opNam[v], im.class)
				default:
					if why, ok := c02Extensions[im.class+" "+m.role+" "+x.opNam[v]]; ok {
						o.Trivial("exception: %s", why)
					} else {
						o.Bad("%s accepts %s although Go does not define the operator on %s constants", m.fi.Name(), x.opNam[v], im.class)
					}
				}
			}
		}
	}
	x.r.Require(R, 90)
}

// ---------------------------------------------------------------------------
// R-3 fast-path fallback

func (x *c02) ruleR3() {
	const R = "R-3"
	overflow := map[string]map[string][]string{
		"integer": {"binary": {"OperatorAddition", "OperatorSubtraction", "OperatorMultiplication", "OperatorLeftShift"}, "unary": {"OperatorSubtraction", "OperatorXor"}},
		"float":   {"binary": {"OperatorAddition", "OperatorSubtraction", "OperatorMultiplication", "OperatorDivision"}, "unary": {}},
	}
	for _, im := range x.impls {
		if !im.fast || overflow[im.class] == nil {
			continue
		}
		for _, m := range []struct {
			role string
			fi   *FuncInfo
		}{{"binary", im.binary}, {"unary", im.unary}} {
			if m.fi == nil {
				continue
			}
			for _, n := range overflow[im.class][m.role] {
				v := x.opVal[n]
				o := x.r.Ob(R, m.fi.Name()+"#"+n, m.fi.Decl.Pos())
				var rets []c02Ret
				s := &c01Sel{info: x.info, selType: x.opT, val: v}
				s.leaf = func(nd ast.Node, sel, exp bool) {
					if r, ok := nd.(*ast.ReturnStmt); ok && exp {
						rets = append(rets, c02Ret{ret: r, exp: exp})
					}
				}
				s.stmts(m.fi.Decl.Body.List, false, false)
				if len(s.unknown) > 0 {
					o.Unknown("%s", strings.Join(s.unknown, "; "))
					continue
				}
				if len(rets) == 0 {
					o.Unknown("no return selected for %s in %s", n, m.fi.Name())
					continue
				}
				redispatch := ""
				for _, cr := range rets {
					r := cr.ret
					if rt, ok := x.delegationRecv(r); ok {
						if other := x.implOf(rt); other != nil && other != im {
							redispatch = "re-dispatches to " + other.typ.Obj().Name()
							o.Pos = x.r.P.Pos(r.Pos())
						}
						continue
					}
					if len(r.Results) == 2 {
						if other := x.implOf(x.info.TypeOf(r.Results[0])); other != nil && other != im {
							redispatch = "returns a " + other.typ.Obj().Name()
							o.Pos = x.r.P.Pos(r.Pos())
						}
					}
				}
				if redispatch != "" {
					o.OK("%s of %s %s when the %s result is not exact", n, im.typ.Obj().Name(), redispatch, im.typ.Underlying())
				} else {
					o.Bad("%s computes %s only in %s: no return of the clause re-dispatches to a big representation, so a result outside %s wraps or rounds silently", m.fi.Name(), n, im.typ.Underlying(), im.typ.Underlying())
				}
			}
		}
	}
	x.r.Require(R, 9)
}

// ---------------------------------------------------------------------------
// R-4 complex product symmetry

// In the clause for OperatorMultiplication of the complex implementation (the struct with two
// fields of the interface type, first = real, second = imaginary) each assignment to a part of the
// result is `L.binaryOp(OP, R)` where L and R are products of two parts of the operands. The real
// part must combine the product of the two real parts and the product of the two imaginary parts
// with -, the imaginary part the two mixed products with +: (a+bi)(c+di) = (ac-bd) + (bc+ad)i.
func (x *c02) ruleR4() {
	const R = "R-4"
	for _, im := range x.impls {
		if im.class != "complex" || im.binary == nil {
			continue
		}
		st := im.typ.Underlying().(*types.Struct)
		var parts []*types.Var // [real, imag] in declaration order
		for i := 0; i < st.NumFields(); i++ {
			if types.Identical(st.Field(i).Type(), x.iface) {
				parts = append(parts, st.Field(i))
			}
		}
		mul := x.opVal["OperatorMultiplication"]
		// collect the statements selected for multiplication
		var stmts []ast.Node
		s := &c01Sel{info: x.info, selType: x.opT, val: mul}
		s.leaf = func(n ast.Node, sel, exp bool) {
			if exp {
				stmts = append(stmts, n)
			}
		}
		s.stmts(im.binary.Decl.Body.List, false, false)
		o := x.r.Ob(R, im.binary.Name()+"#product", im.binary.Decl.Pos())
		if len(stmts) == 0 {
			o.Unknown("no statements selected for OperatorMultiplication")
			continue
		}
		// products: local := <recvOperand>.<part>.binaryOp(op|Mul, <otherOperand>.<part>)
		partOf := func(e ast.Expr) int {
			sel, ok := ast.Unparen(e).(*ast.SelectorExpr)
			if !ok {
				return -1
			}
			if s := x.info.Selections[sel]; s != nil {
				for i, p := range parts {
					if s.Obj() == types.Object(p) {
						return i
					}
				}
			}
			return -1
		}
		opOf := func(e ast.Expr) (int64, bool) {
			if v, ok := intValue(x.info, e); ok {
				return v, true
			}
			// the operator parameter itself: its value in this clause is Multiplication
			if tv, ok := x.info.Types[ast.Unparen(e)]; ok && types.Identical(tv.Type, x.opT) {
				return mul, true
			}
			return 0, false
		}
		type prod struct{ l, r int }
		prods := map[types.Object]prod{}
		type comb struct {
			part int
			op   int64
			a, b types.Object
			pos  token.Pos
		}
		var combs []comb
		for _, n := range stmts {
			as, ok := n.(*ast.AssignStmt)
			if !ok || len(as.Rhs) != 1 || len(as.Lhs) == 0 {
				continue
			}
			call, ok := ast.Unparen(as.Rhs[0]).(*ast.CallExpr)
			if !ok || len(call.Args) != 2 {
				continue
			}
			sel, ok := call.Fun.(*ast.SelectorExpr)
			if !ok {
				continue
			}
			opv, ok := opOf(call.Args[0])
			if !ok {
				continue
			}
			if l, r := partOf(sel.X), partOf(call.Args[1]); l >= 0 && r >= 0 && opv == mul {
				if id, ok := as.Lhs[0].(*ast.Ident); ok {
					if obj := x.info.Defs[id]; obj != nil {
						prods[obj] = prod{l, r}
					}
				}
				continue
			}
			// combination: <result>.<part>, _ = P.binaryOp(OP, Q)
			if p := partOf(as.Lhs[0]); p >= 0 {
				a, ok1 := ast.Unparen(sel.X).(*ast.Ident)
				b, ok2 := ast.Unparen(call.Args[1]).(*ast.Ident)
				if ok1 && ok2 {
					combs = append(combs, comb{p, opv, x.info.Uses[a], x.info.Uses[b], as.Pos()})
				}
			}
		}
		if len(prods) != 4 || len(combs) != 2 {
			o.Unknown("product clause not in the form of four partial products and two combinations (found %d products, %d combinations)", len(prods), len(combs))
			continue
		}
		add, sub := x.opVal["OperatorAddition"], x.opVal["OperatorSubtraction"]
		bad := ""
		undecided := false
		for _, c := range combs {
			pa, oka := prods[c.a]
			pb, okb := prods[c.b]
			if !oka || !okb {
				bad = "a combination uses a term that is not one of the four partial products"
				undecided = true
				break
			}
			straight := func(p prod) bool { return p.l == p.r }
			switch c.part {
			case 0: // real = ac - bd: minuend real*real, subtrahend imag*imag
				if !(straight(pa) && straight(pb) && pa.l == 0 && pb.l == 1 && c.op == sub) {
					bad = fmt.Sprintf("the real part must be (re*re) - (im*im); found %s of parts (%d,%d) and (%d,%d)", x.opNam[c.op], pa.l, pa.r, pb.l, pb.r)
					o.Pos = x.r.P.Pos(c.pos)
				}
			case 1: // imag = bc + ad: both mixed, added
				if !(!straight(pa) && !straight(pb) && pa != pb && c.op == add) {
					bad = fmt.Sprintf("the imaginary part must be (im*re) + (re*im); found %s of parts (%d,%d) and (%d,%d)", x.opNam[c.op], pa.l, pa.r, pb.l, pb.r)
					o.Pos = x.r.P.Pos(c.pos)
				}
			}
		}
		if bad != "" {
			if undecided {
				o.Unknown("%s", bad)
			} else {
				o.Bad("%s: %s — (a+bi)(c+di) = (ac-bd) + (bc+ad)i", im.binary.Name(), bad)
			}
			continue
		}
		o.OK("product clause computes (re*re - im*im) + (im*re + re*im)i")
	}
	x.r.Require(R, 1)
}
