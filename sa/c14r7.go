package main

// C14 R-7 (added after seeded change C14-1): a function is installed or started together with ITS variables.
//
// The code of a Scriggo function addresses its non-local variables by index into a slice that belongs to the
// function: the program globals for a function taken from a Functions table (a package-level function, a
// macro; a function literal taken from the table gets a freshly built slice when the closure is made), the
// `vars` of the callable for a function taken from a callable (a closure value, a saved call frame, the
// running pair of the machine). Whoever makes a (function, variables) pair — assigns the fn/vars fields of a
// machine or of a callable, or calls a function of the runtime that takes both — must therefore take both
// halves from the same place:
//
//      fn from X.Functions[i]   ->  vars is env.globals, or a slice made on the spot (closure creation)
//      fn from H.fn             ->  vars is H.vars of the same holder H
//
// Anything else runs the function against the variables of another function: `go f()` executed inside a
// closure that captures locals starts f with the closure's variables in place of the globals (the seeded
// change), a call/return that forgets to switch vars, a closure value built with the caller's variables.
//
// Decided on SSA by a forward data-flow per function and per holder object (the machine, a callable being
// built): the state is the origin class of the last value stored into the holder's fn field and into its vars
// field; phis are resolved by the edge the path enters their block through (so `fn`/`vars` assigned in the
// arms of a switch stay correlated); the pair is judged where the function returns, and at every call that
// takes a function and a variable slice. Origins are followed through locals captured by closures and
// through helpers returning a table element / the globals.

import (
	"fmt"
	"go/token"
	"go/types"
	"sort"
	"strings"

	"golang.org/x/tools/go/ssa"
)

func init() {
	p := registry["C14"]
	if p == nil {
		return
	}
	run := p.run
	p.run = func(r *Run) { run(r); c14R7(r) }
	p.explain += " R-7: wherever a (function, variables) pair is made — the fn/vars fields of a machine or callable are assigned, or a runtime function taking both is called or started with go — a function read from a Functions table is paired with env.globals (or a slice made on the spot), and a function read from a holder's fn field with the vars field of the same holder."
}

type c14Cls struct {
	k    string // F: table holderfn param nil other   V: globals holdervars fresh param nil other
	root string
}

func (c c14Cls) String() string {
	if c.root != "" {
		return c.k + "(" + c.root + ")"
	}
	return c.k
}

type c14Pairs struct {
	r         *Run
	fnT       types.Type // *Function
	varsT     types.Type // []reflect.Value
	fnField   map[*types.Var]*types.Named
	varsField map[*types.Var]*types.Named
	table     map[*types.Var]bool // []*Function fields of Function
	globals   map[*types.Var]bool // []reflect.Value fields of env
}

func c14Canon(v ssa.Value) string { return c14CanonD(v, 0) }

// c14CopyOf: a local struct that is only ever assigned, as a whole and once, a copy of another holder
// (`cl := call.cl`) denotes that holder; nil when the local is built or changed field by field.
func c14CopyOf(al *ssa.Alloc) ssa.Value {
	if al.Referrers() == nil {
		return nil
	}
	var src ssa.Value
	n := 0
	for _, ref := range *al.Referrers() {
		switch y := ref.(type) {
		case *ssa.Store:
			if y.Addr == ssa.Value(al) {
				n++
				src = y.Val
			}
		case *ssa.FieldAddr:
			if y.Referrers() != nil {
				for _, r2 := range *y.Referrers() {
					if st, ok := r2.(*ssa.Store); ok && st.Addr == ssa.Value(y) {
						return nil
					}
				}
			}
		case *ssa.MakeClosure:
			return nil
		}
	}
	if n != 1 {
		return nil
	}
	switch s := src.(type) {
	case *ssa.UnOp:
		if s.Op == token.MUL {
			return src
		}
	case *ssa.Field, *ssa.Phi:
		return src
	}
	return nil
}

func c14CanonD(v ssa.Value, depth int) string {
	if depth > 8 {
		return "?" + v.Name()
	}
	c14Canon := func(v ssa.Value) string { return c14CanonD(v, depth+1) }
	switch x := v.(type) {
	case *ssa.Alloc:
		if src := c14CopyOf(x); src != nil {
			return c14Canon(src)
		}
	case *ssa.FieldAddr:
		if fv := c10FieldVar(x); fv != nil {
			return c14Canon(x.X) + "." + fv.Name()
		}
	case *ssa.Field:
		if fv := c10FieldOfValue(x); fv != nil {
			return c14Canon(x.X) + "." + fv.Name()
		}
	case *ssa.ChangeType:
		return c14Canon(x.X)
	case *ssa.UnOp:
		// a copy of a struct loaded from a field path / a local (`cl := call.cl`) denotes the same holder as
		// the path it was read from
		if x.Op == token.MUL {
			switch x.X.(type) {
			case *ssa.FieldAddr, *ssa.Alloc:
				return c14Canon(x.X)
			}
		}
	case *ssa.Phi:
		// a phi whose edges all denote the same holder
		same := ""
		for i, e := range c10StripPhi(x) {
			c := c14Canon(e)
			if i > 0 && c != same {
				same = ""
				break
			}
			same = c
		}
		if same != "" {
			return same
		}
	}
	pn := ""
	if in, ok := v.(interface{ Parent() *ssa.Function }); ok && in.Parent() != nil {
		pn = in.Parent().Name() + ":"
	}
	return pn + v.Name()
}

func (p *c14Pairs) cell(addr ssa.Value, isF bool, depth int) (c14Cls, bool) {
	c := cgxCell(addr)
	if c == nil {
		return c14Cls{}, false
	}
	al := c.(*ssa.Alloc)
	top := al.Parent()
	for top.Parent() != nil {
		top = top.Parent()
	}
	st := cgxStoresTo(cgxFns(top), c)
	if len(st) != 1 {
		return c14Cls{k: "other", root: fmt.Sprintf("local with %d stores", len(st))}, true
	}
	return p.class(st[0], nil, isF, depth+1), true
}

// class gives the origin class of a *Function value (isF) or of a []reflect.Value value.
func (p *c14Pairs) class(v ssa.Value, env map[*ssa.Phi]c14Cls, isF bool, depth int) c14Cls {
	if depth > 6 {
		return c14Cls{k: "other", root: "depth"}
	}
	switch x := v.(type) {
	case *ssa.Phi:
		if c, ok := env[x]; ok {
			return c
		}
		// all edges of one class
		var got *c14Cls
		for _, e := range c10StripPhi(x) {
			c := p.class(e, nil, isF, depth+1)
			if got == nil {
				got = &c
			} else if *got != c {
				return c14Cls{k: "other", root: "phi of several origins"}
			}
		}
		if got != nil {
			return *got
		}
	case *ssa.Const:
		if x.IsNil() {
			return c14Cls{k: "nil"}
		}
	case *ssa.Parameter:
		return c14Cls{k: "param", root: x.Name()}
	case *ssa.ChangeType:
		return p.class(x.X, env, isF, depth+1)
	case *ssa.MakeSlice:
		if !isF {
			return c14Cls{k: "fresh"}
		}
	case *ssa.Slice:
		if al, ok := x.X.(*ssa.Alloc); ok && al.Heap && !isF {
			return c14Cls{k: "fresh"}
		}
	case *ssa.Field:
		fv := c10FieldOfValue(x)
		if isF && p.fnField[fv] != nil {
			return c14Cls{k: "holderfn", root: c14Canon(x.X)}
		}
		if !isF && p.varsField[fv] != nil {
			return c14Cls{k: "holdervars", root: c14Canon(x.X)}
		}
		if !isF && p.globals[fv] {
			return c14Cls{k: "globals"}
		}
	case *ssa.UnOp:
		if x.Op != token.MUL {
			break
		}
		switch a := x.X.(type) {
		case *ssa.IndexAddr:
			if !isF {
				break
			}
			var fv *types.Var
			switch s := a.X.(type) {
			case *ssa.UnOp:
				if fa, ok := s.X.(*ssa.FieldAddr); ok && s.Op == token.MUL {
					fv = c10FieldVar(fa)
				}
			case *ssa.Field:
				fv = c10FieldOfValue(s)
			}
			if fv != nil && p.table[fv] {
				return c14Cls{k: "table"}
			}
		case *ssa.FieldAddr:
			fv := c10FieldVar(a)
			if isF && p.fnField[fv] != nil {
				return c14Cls{k: "holderfn", root: c14Canon(a.X)}
			}
			if !isF && p.varsField[fv] != nil {
				return c14Cls{k: "holdervars", root: c14Canon(a.X)}
			}
			if !isF && p.globals[fv] {
				return c14Cls{k: "globals"}
			}
		case *ssa.Alloc, *ssa.FreeVar:
			if c, ok := p.cell(a, isF, depth); ok {
				return c
			}
		}
	case *ssa.Call:
		// a helper of the module that returns a table element / the globals on every path
		callee := x.Common().StaticCallee()
		if callee == nil || !inModule(callee) || callee.Blocks == nil {
			break
		}
		var got *c14Cls
		for _, b := range callee.Blocks {
			for _, in := range b.Instrs {
				ret, ok := in.(*ssa.Return)
				if !ok {
					continue
				}
				for _, res := range ret.Results {
					if !types.Identical(res.Type(), v.Type()) {
						continue
					}
					c := p.class(res, nil, isF, depth+1)
					if c.k != "table" && c.k != "globals" && c.k != "fresh" {
						return c14Cls{k: "other", root: "result of " + callee.Name()}
					}
					if got == nil {
						got = &c
					} else if *got != c {
						return c14Cls{k: "other", root: "result of " + callee.Name()}
					}
				}
			}
		}
		if got != nil {
			return *got
		}
	case *ssa.Extract:
		// not followed
	}
	return c14Cls{k: "other", root: v.Name()}
}

// judge returns "", "ok", "bad:…" or "unknown:…" for a pair; freshHolder: the pair is stored into an object
// allocated by the function itself.
func c14Judge(f, v c14Cls, fset, vset, freshHolder bool) (verdict, fact string) {
	if !fset {
		return "", ""
	}
	vs := "left unchanged"
	if vset {
		vs = v.String()
	}
	switch f.k {
	case "table":
		switch {
		case vset && (v.k == "globals" || v.k == "fresh"):
			return "ok", "a function of a Functions table with " + vs
		case vset && v.k == "other":
			return "unknown", "a function of a Functions table is paired with variables of an origin the rule cannot read (" + v.root + ")"
		}
		return "bad", "a function read from a Functions table is paired with variables that are not the program globals (vars " + vs + "): its variable indexes are resolved against the variables of another function"
	case "holderfn":
		switch {
		case vset && v.k == "holdervars" && v.root == f.root:
			return "ok", "fn and vars of the same holder " + f.root
		case vset && v.k == "other":
			return "unknown", "the function of holder " + f.root + " is paired with variables of an origin the rule cannot read (" + v.root + ")"
		case !vset && freshHolder:
			return "", ""
		}
		return "bad", "the function read from " + f.root + ".fn is paired with variables that are not " + f.root + ".vars (vars " + vs + "): it runs against the variables of another function"
	}
	return "", ""
}

type c14PairSt struct {
	f, v       c14Cls
	fset, vset bool
	env        map[*ssa.Phi]c14Cls
}

func (s *c14PairSt) key() string {
	var ks []string
	for p, c := range s.env {
		ks = append(ks, p.Name()+"="+c.String())
	}
	sort.Strings(ks)
	return fmt.Sprintf("%v/%v/%v/%v/%s", s.f, s.fset, s.v, s.vset, strings.Join(ks, ","))
}

func (s *c14PairSt) clone() *c14PairSt {
	c := *s
	c.env = make(map[*ssa.Phi]c14Cls, len(s.env))
	for k, v := range s.env {
		c.env[k] = v
	}
	return &c
}

type c14PairGroup struct {
	pos          token.Pos
	ok           map[string]bool
	bad, unknown map[string]bool
}

func c14R7(r *Run) {
	const R = "R-7"
	const rel = "internal/runtime"
	ro := c10ResolveRoles(r, R)
	if ro == nil {
		return
	}
	rv := r.P.ExtNamed("reflect", "Value")
	if !r.Anchor(R, "reflect.Value", rv != nil) {
		return
	}
	p := &c14Pairs{r: r, fnT: types.NewPointer(ro.function), varsT: types.NewSlice(rv),
		fnField: map[*types.Var]*types.Named{}, varsField: map[*types.Var]*types.Named{}, table: map[*types.Var]bool{}, globals: map[*types.Var]bool{}}
	// holders: struct types of the runtime with exactly one *Function field and one []reflect.Value field
	sc := r.P.Pkg(rel).Types.Scope()
	var holders []string
	for _, name := range sc.Names() {
		tn, ok := sc.Lookup(name).(*types.TypeName)
		if !ok {
			continue
		}
		n, _ := tn.Type().(*types.Named)
		st := c10StructOf(n)
		if st == nil {
			continue
		}
		var fs, vs []*types.Var
		for i := 0; i < st.NumFields(); i++ {
			if types.Identical(st.Field(i).Type(), p.fnT) {
				fs = append(fs, st.Field(i))
			}
			if types.Identical(st.Field(i).Type(), p.varsT) {
				vs = append(vs, st.Field(i))
			}
			if n == ro.function && types.Identical(st.Field(i).Type(), types.NewSlice(p.fnT)) {
				p.table[st.Field(i)] = true
			}
			if n == ro.env && types.Identical(st.Field(i).Type(), p.varsT) {
				p.globals[st.Field(i)] = true
			}
		}
		if len(fs) == 1 && len(vs) == 1 {
			p.fnField[fs[0]] = n
			p.varsField[vs[0]] = n
			holders = append(holders, name)
		}
	}
	okA := r.Anchor(R, "holder types with a *Function field and a []reflect.Value field (VM, callable)", p.fnField != nil && len(holders) >= 2)
	okA = r.Anchor(R, "the Functions table of Function", len(p.table) == 1) && okA
	okA = r.Anchor(R, "the globals of env", len(p.globals) == 1) && okA
	if !okA {
		return
	}
	r.Note("R-7 holders: %s", strings.Join(holders, ", "))

	for _, fi := range r.P.Funcs(rel) {
		if r.P.isTestFile(fi.File) {
			continue
		}
		f0 := r.P.SSAFunc(fi)
		if f0 == nil {
			continue
		}
		for _, f := range cgxFns(f0) {
			p.function(R, f)
		}
	}
	r.Require(R, 8)
}

func (p *c14Pairs) interesting(t types.Type) bool {
	return types.Identical(t, p.fnT) || types.Identical(t, p.varsT)
}

func (p *c14Pairs) function(R string, f *ssa.Function) {
	if len(f.Blocks) == 0 {
		return
	}
	// holder objects written here, and calls taking a pair
	type holder struct {
		root  ssa.Value
		named *types.Named
		pos   token.Pos
	}
	holders := map[string]*holder{}
	var hkeys []string
	type pairCall struct {
		in     ssa.CallInstruction
		fi, vi int
	}
	var pcalls []pairCall
	for _, b := range f.Blocks {
		for _, in := range b.Instrs {
			switch x := in.(type) {
			case *ssa.Store:
				fa, ok := x.Addr.(*ssa.FieldAddr)
				if !ok {
					continue
				}
				fv := c10FieldVar(fa)
				n := p.fnField[fv]
				if n == nil {
					n = p.varsField[fv]
				}
				if n == nil {
					continue
				}
				k := c14Canon(fa.X)
				if holders[k] == nil {
					root, _ := c10Peel(fa.X)
					holders[k] = &holder{root: root, named: n, pos: x.Pos()}
					hkeys = append(hkeys, k)
				}
			case ssa.CallInstruction:
				cc := x.Common()
				if cc.IsInvoke() {
					continue
				}
				sig := cc.Signature()
				off := 0
				if sig.Recv() != nil {
					off = 1
				}
				fi, vi := -1, -1
				for i := 0; i < sig.Params().Len(); i++ {
					t := sig.Params().At(i).Type()
					if fi < 0 && types.Identical(t, p.fnT) {
						fi = i + off
					}
					if vi < 0 && types.Identical(t, p.varsT) {
						vi = i + off
					}
				}
				if fi >= 0 && vi >= 0 && fi < len(cc.Args) && vi < len(cc.Args) {
					pcalls = append(pcalls, pairCall{x, fi, vi})
				}
			}
		}
	}
	if len(hkeys) == 0 && len(pcalls) == 0 {
		return
	}
	groups := map[string]*c14PairGroup{}
	var gorder []string
	record := func(label string, pos token.Pos, verdict, fact string) {
		if verdict == "" {
			return
		}
		g := groups[label]
		if g == nil {
			g = &c14PairGroup{pos: pos, ok: map[string]bool{}, bad: map[string]bool{}, unknown: map[string]bool{}}
			groups[label] = g
			gorder = append(gorder, label)
		}
		switch verdict {
		case "ok":
			g.ok[fact] = true
		case "bad":
			if len(g.bad) == 0 {
				g.pos = pos
			}
			g.bad[fact] = true
		default:
			g.unknown[fact] = true
		}
	}
	label := func(fc c14Cls, into string) string {
		what := "table-fn"
		if fc.k == "holderfn" {
			what = "holder-fn"
		}
		return what + ":" + into
	}

	// one data-flow per holder object, one more (key "") for the calls
	keys := append([]string{}, hkeys...)
	if len(pcalls) > 0 {
		keys = append(keys, "")
	}
	for _, key := range keys {
		h := holders[key]
		type item struct {
			b *ssa.BasicBlock
			s *c14PairSt
		}
		seen := map[*ssa.BasicBlock]map[string]bool{}
		var work []item
		push := func(b *ssa.BasicBlock, s *c14PairSt) bool {
			if seen[b] == nil {
				seen[b] = map[string]bool{}
			}
			k := s.key()
			if seen[b][k] {
				return true
			}
			if len(seen[b]) > 200 {
				return false
			}
			seen[b][k] = true
			work = append(work, item{b, s})
			return true
		}
		push(f.Blocks[0], &c14PairSt{env: map[*ssa.Phi]c14Cls{}})
		overflow := false
		for len(work) > 0 && !overflow {
			it := work[len(work)-1]
			work = work[:len(work)-1]
			s := it.s.clone()
			for _, in := range it.b.Instrs {
				switch x := in.(type) {
				case *ssa.Store:
					if h == nil {
						continue
					}
					fa, ok := x.Addr.(*ssa.FieldAddr)
					if !ok {
						continue
					}
					fv := c10FieldVar(fa)
					if p.fnField[fv] != nil && c14Canon(fa.X) == key {
						s.f, s.fset = p.class(x.Val, s.env, true, 0), true
					} else if p.varsField[fv] != nil && c14Canon(fa.X) == key {
						s.v, s.vset = p.class(x.Val, s.env, false, 0), true
					}
				case ssa.CallInstruction:
					if h != nil {
						continue
					}
					for _, pc := range pcalls {
						if pc.in != x {
							continue
						}
						cc := x.Common()
						fc := p.class(cc.Args[pc.fi], s.env, true, 0)
						vc := p.class(cc.Args[pc.vi], s.env, false, 0)
						verdict, fact := c14Judge(fc, vc, true, true, false)
						how := "call:"
						switch x.(type) {
						case *ssa.Go:
							how = "go:"
						case *ssa.Defer:
							how = "defer:"
						}
						name := c10CalleeName(cc)
						if i := strings.LastIndex(name, "/"); i >= 0 {
							name = name[i+1:]
						}
						record(label(fc, how+name), x.Pos(), verdict, fact)
					}
				case *ssa.Return:
					if h == nil {
						continue
					}
					_, fresh := h.root.(*ssa.Alloc)
					verdict, fact := c14Judge(s.f, s.v, s.fset, s.vset, fresh)
					record(label(s.f, h.named.Obj().Name()), h.pos, verdict, fact)
				}
			}
			for _, succ := range it.b.Succs {
				ns := s.clone()
				idx := -1
				for i, pr := range succ.Preds {
					if pr == it.b {
						idx = i
						break
					}
				}
				upd := map[*ssa.Phi]c14Cls{}
				for _, in := range succ.Instrs {
					phi, ok := in.(*ssa.Phi)
					if !ok {
						break
					}
					if !p.interesting(phi.Type()) || idx < 0 {
						continue
					}
					upd[phi] = p.class(phi.Edges[idx], s.env, types.Identical(phi.Type(), p.fnT), 0)
				}
				for ph := range ns.env {
					if ph.Block() != succ && !ph.Block().Dominates(succ) {
						delete(ns.env, ph)
					}
				}
				for ph, c := range upd {
					ns.env[ph] = c
				}
				if !push(succ, ns) {
					overflow = true
				}
			}
		}
		if overflow {
			pos := f.Pos()
			if h != nil {
				pos = h.pos
			}
			p.r.Ob(R, ssaFuncName(f)+"#pairs", pos).Unknown("too many path states while following the fn/vars pair; the rule cannot decide this function")
			return
		}
	}
	for _, l := range gorder {
		g := groups[l]
		o := p.r.Ob(R, ssaFuncName(f)+"#"+l, g.pos)
		switch {
		case len(g.bad) > 0:
			o.Bad("%s", strings.Join(c14Keys(g.bad), "; "))
		case len(g.unknown) > 0:
			o.Unknown("%s", strings.Join(c14Keys(g.unknown), "; "))
		default:
			o.OK("%d pairing(s): %s", len(g.ok), strings.Join(c14Keys(g.ok), "; "))
		}
	}
}

func c14Keys(m map[string]bool) []string {
	var out []string
	for k := range m {
		out = append(out, k)
	}
	sort.Strings(out)
	return out
}
