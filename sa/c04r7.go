package main

// C04 R-7 (added after defects reported on the unmodified tree: the overlapping cuts of emitNodes and the
// rune loop of disassembleText): the bounds engine of R-2 applied to every index and slice expression on a
// string or []byte in the functions of package compiler that are NOT reachable from the lexer goroutine —
// parser, type checker, emitter, disassembler, path helpers. A fault there does not kill the process but
// leaves Build, BuildTemplate or Disassemble with a run-time panic.

import "go/types"

// Sites in range by an invariant established in another component (the lexer's token contents, the
// validity of a path checked by the caller). One symbol, one reason; each was confirmed by reading.
var c04R7Exceptions = []boundsException{
	{"compiler.ParseTemplateSource#$1.txt[2:len($1.txt) - 2]",
		"lexer postcondition: a tokenComment is emitted by lexComment only after the closing '#}' was found, so its text is '{#' … '#}', at least 4 bytes (the lexer side is decided by R-2)"},
	{"compiler.cleanPath#$1[$2 + 1]",
		"precondition checked by the only caller (validatePackagePath calls ValidTemplatePath first): after the leading '../' elements the path satisfies fs.ValidPath, so every '/' is followed by a non-empty element"},
	{"compiler.cleanPath#$1[$2 + 2]",
		"same precondition: read only when b[i+1] == '.', and an element of a valid path is neither \".\" nor empty, so a second byte follows"},
	{"compiler.cleanPath#$1[$2 + 4:]",
		"same precondition: under b[i+1] == '.' && b[i+2] == '.', the element is not \"..\" (fs.ValidPath rejects it), so at least one more byte follows and i+4 ≤ len(b)"},
	{"compiler.(*typechecker).errTypeAssertion#$1[$2]",
		"have is the String() of a method's func type, \"func(T, …) …\": it always contains ')', so strings.IndexAny(have, \" )\") is a valid index (never -1)"},
	{"compiler.complexConst.String#$1[0]",
		"im is the String() of a numeric constant (int64Const, intConst, float64Const, floatConst, ratConst): strconv / math/big formatting never returns the empty string"},
	{"compiler.complexConst.shortString#$1[0]",
		"im is the shortString() of a numeric constant, never empty (a formatted number)"},
	{"compiler.isExported#$1[0]",
		"documented precondition ('It panics if name is empty'): every caller passes an identifier token (the lexer emits identifiers of at least one letter) or the name of a reflect struct field or of a declared package member, never the empty string"},
	{"compiler.parseBasicLiteral#$1[1]",
		"s is the text of a literal token whose form the lexer validated (a rune literal is at least 3 bytes, an imaginary literal at least 2: digits and 'i'), or a native.UntypedNumericConst supplied by the embedder, which is not source bytes (outside C04; 'If the parsed string has not a valid form, the behavior is undefined')"},
	{"compiler.parseBasicLiteral#$1[0]",
		"same: an imaginary literal token is never empty"},
	{"compiler.parseEscapedRune#$1[1]",
		"called on the tail of a rune or interpreted string literal starting at a backslash; lexRuneLiteral / lexInterpretedString (decided by R-2) emit the token only if the escape is complete and the literal closed, so the escape character and all its digits are inside s"},
	{"compiler.parseEscapedRune#$1[$2]",
		"same lexer postcondition: \\x, \\u and \\U are followed by 2, 4 and 8 hexadecimal digits inside the literal"},
	{"compiler.parseEscapedRune#$1[2]",
		"same lexer postcondition: an octal escape has three digits inside the literal"},
	{"compiler.parseEscapedRune#$1[3]",
		"same lexer postcondition: an octal escape has three digits inside the literal"},
	{"compiler.parseNumericConst#$1[0]",
		"s is a native.UntypedNumericConst supplied by the embedder in a package declaration, not source bytes (outside C04's quantification); the empty constant is an invalid declaration"},
	{"compiler.specialWindowsName#$1[$2:$2 + 3]",
		"arithmetic on constants: reserved is \"CON PRN AUX NUL\" (15 bytes) or \"COM LPT\" (7 bytes), i runs over multiples of 4 below len(reserved), and both lengths are ≡ 3 mod 4, so i+3 ≤ len(reserved)"},
	{"compiler.unquoteString#$1[0]",
		"s is the text of a string literal token (or of a rune literal's tail): lexInterpretedString / lexRawString emit it only after the closing quote, so it has at least 2 bytes; the len(s) == 2 and len(s) == 3 cases returned before"},
	{"compiler.unquoteString#$1[1:len($1) - 1]",
		"same: a string literal token has at least its two quotes"},
}

func init() {
	p := registry["C04"]
	if p == nil {
		return
	}
	run := p.run
	p.run = func(r *Run) { run(r); c04R7(r) }
	p.explain += " R-7: the same bounds rule as R-2 on the string and []byte index/slice expressions of the rest of package compiler (parser, checker, emitter, disassembler, path helpers)."
}

func c04R7(r *Run) {
	const R = "R-7"
	var nonTest []*FuncInfo
	for _, f := range r.P.Funcs("internal/compiler") {
		if !r.P.isTestFile(f.File) {
			nonTest = append(nonTest, f)
		}
	}
	entry := c04GoroutineEntry(r, nonTest)
	if entry == nil {
		return
	}
	inLexer := map[*types.Func]bool{}
	for _, f := range funcsReachableInPkg(r.P, nonTest, entry) {
		inLexer[f.Obj] = true
	}
	var rest []*FuncInfo
	for _, f := range nonTest {
		if !inLexer[f.Obj] {
			rest = append(rest, f)
		}
	}
	runBounds(r, boundsConfig{rule: R, funcs: rest, allFuncs: nonTest, exceptions: c04R7Exceptions})
	r.Require(R, 40)
}
