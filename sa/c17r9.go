package main

// C17 R-9 (added after seeded change C17-5): the emitter opens a scope for every statement the type checker
// gives a scope to, and binds the statement's own variables inside it.
//
// The type checker resolves an identifier by lexical scope; the emitter resolves it again BY NAME, looking at
// the scopes of the function builder before the non-local variables. The two agree only if a name bound while
// emitting a statement that has its own scope (if, for, for range, switch, type switch, select, block) is
// bound in a builder scope that the handler of that statement opens and closes. A loop or case variable bound
// in the enclosing scope stays bound after the statement: a later reference, in the same function, to a
// template global with the same name is emitted as a read/write of the stale register instead of
// GetVar/SetVar - it does not see the value given to Run and its assignments never reach the variable.
//
// For every node type T whose clause in the type checker's statement walk enters a scope, in the emitter's
// handler of T (the clause of the statement walk, or the method with a *ast.T parameter it calls):
//
//	(a) every call that binds a source-level name (functionBuilder.bindVarReg, unless the name is a constant
//	    beginning with '$', which no identifier can spell) and every call that emits statements which may
//	    declare variables (a parameter of type []ast.Node, *ast.Assignment or *ast.Var) is executed at builder
//	    scope depth >= 1 relative to the handler's entry (enterScope +1, exitScope -1, along every path);
//	(b) the depth is back to 0 at every exit of the handler.

import (
	"fmt"
	"go/ast"
	"go/token"
	"go/types"
	"sort"

	"golang.org/x/tools/go/cfg"
)

func init() {
	p := registry["C17"]
	if p == nil {
		return
	}
	run := p.run
	p.run = func(r *Run) { run(r); c17EmitterScopes(r) }
	p.explain += " R-9: for every ast node type whose clause in the type checker's statement walk enters a scope (scopes.Enter, directly or through a helper), the emitter's handler of that node type executes every binding of a source-level name (functionBuilder.bindVarReg) and every emission of statements that may declare variables at builder scope depth >= 1 (enterScope/exitScope counted along every path from the handler's entry), and is back at depth 0 at every exit."
}

func c17EmitterScopes(r *Run) {
	const R = "R-9"
	r.Require(R, 6)
	nodeT := r.P.Named("ast", "Node")
	scopesT := r.P.Named("internal/compiler", "scopes")
	fbT := r.P.Named("internal/compiler", "functionBuilder")
	tcT := r.P.Named("internal/compiler", "typechecker")
	emT := r.P.Named("internal/compiler", "emitter")
	if !r.Anchor(R, "ast.Node, compiler.scopes, functionBuilder, typechecker, emitter", nodeT != nil && scopesT != nil && fbT != nil && tcT != nil && emT != nil) {
		return
	}
	recvIs := func(f *types.Func, t *types.Named) bool {
		if f == nil {
			return false
		}
		sig, _ := f.Type().(*types.Signature)
		if sig == nil || sig.Recv() == nil {
			return false
		}
		rt := sig.Recv().Type()
		if p, ok := rt.(*types.Pointer); ok {
			rt = p.Elem()
		}
		return types.Identical(rt, t)
	}
	var fns []*FuncInfo
	byObj := map[*types.Func]*FuncInfo{}
	for _, fi := range r.P.Funcs("internal/compiler") {
		if fi.Obj != nil && !r.P.isTestFile(fi.File) {
			fns = append(fns, fi)
			byObj[fi.Obj] = fi
		}
	}
	sort.Slice(fns, func(i, j int) bool { return c17less(fns[i], fns[j]) })
	var enterTC, enterFB, exitFB, bind *types.Func
	for _, fi := range fns {
		switch {
		case recvIs(fi.Obj, scopesT) && fi.Obj.Name() == "Enter":
			enterTC = fi.Obj
		case recvIs(fi.Obj, fbT) && fi.Obj.Name() == "enterScope":
			enterFB = fi.Obj
		case recvIs(fi.Obj, fbT) && fi.Obj.Name() == "exitScope":
			exitFB = fi.Obj
		case recvIs(fi.Obj, fbT) && fi.Obj.Name() == "bindVarReg":
			bind = fi.Obj
		}
	}
	if !r.Anchor(R, "scopes.Enter, functionBuilder.enterScope/exitScope/bindVarReg", enterTC != nil && enterFB != nil && exitFB != nil && bind != nil) {
		return
	}
	// functions of the checker that enter a scope themselves (one hop)
	entersScope := map[*types.Func]bool{enterTC: true}
	for _, fi := range fns {
		if !recvIs(fi.Obj, tcT) {
			continue
		}
		hasNodes := false
		sig := fi.Obj.Type().(*types.Signature)
		for i := 0; i < sig.Params().Len(); i++ {
			if c17isNodeSlice(sig.Params().At(i).Type(), nodeT) {
				hasNodes = true
			}
		}
		if !hasNodes || len(c17typeSwitches(fi.Decl.Body)) > 0 {
			continue // the walk itself is analysed clause by clause
		}
		for _, call := range calls(fi.Decl.Body, false) {
			if callee(fi.Pkg.TypesInfo, call) == enterTC {
				entersScope[fi.Obj] = true
			}
		}
	}
	isStmtWalk := func(fi *FuncInfo, recv *types.Named) bool {
		if !recvIs(fi.Obj, recv) {
			return false
		}
		sig := fi.Obj.Type().(*types.Signature)
		for i := 0; i < sig.Params().Len(); i++ {
			if c17isNodeSlice(sig.Params().At(i).Type(), nodeT) {
				return true
			}
		}
		return false
	}
	astType := func(info *types.Info, e ast.Expr) *types.Named {
		t := info.TypeOf(e)
		if t == nil {
			return nil
		}
		p, ok := t.(*types.Pointer)
		if !ok {
			return nil
		}
		n, ok := p.Elem().(*types.Named)
		if !ok || n.Obj().Pkg() == nil || relOf(n.Obj().Pkg()) != "ast" {
			return nil
		}
		return n
	}
	// (1) node types with a scope in the checker
	scoped := map[*types.Named]bool{}
	for _, fi := range fns {
		if !isStmtWalk(fi, tcT) {
			continue
		}
		info := fi.Pkg.TypesInfo
		for _, ts := range c17typeSwitches(fi.Decl.Body) {
			for _, st := range ts.Body.List {
				cc := st.(*ast.CaseClause)
				enters := false
				for _, s := range cc.Body {
					for _, call := range calls(s, false) {
						if entersScope[callee(info, call)] {
							enters = true
						}
					}
				}
				if !enters {
					continue
				}
				for _, e := range cc.List {
					if t := astType(info, e); t != nil {
						scoped[t] = true
					}
				}
			}
		}
	}
	if !r.Anchor(R, "clauses of the type checker's statement walk that enter a scope", len(scoped) >= 3) {
		return
	}
	var scopedList []*types.Named
	for t := range scoped {
		scopedList = append(scopedList, t)
	}
	sort.Slice(scopedList, func(i, j int) bool { return scopedList[i].Obj().Name() < scopedList[j].Obj().Name() })

	// (2) the emitter's handlers
	isDeclaringParam := func(t types.Type) bool {
		if c17isNodeSlice(t, nodeT) {
			return true
		}
		if p, ok := t.(*types.Pointer); ok {
			if n, ok := p.Elem().(*types.Named); ok && n.Obj().Pkg() != nil && relOf(n.Obj().Pkg()) == "ast" {
				return n.Obj().Name() == "Assignment" || n.Obj().Name() == "Var"
			}
		}
		return false
	}
	emitsStatements := func(f *types.Func) bool {
		if f == nil || f.Pkg() == nil || relOf(f.Pkg()) != "compiler" {
			return false
		}
		sig := f.Type().(*types.Signature)
		for i := 0; i < sig.Params().Len(); i++ {
			if isDeclaringParam(sig.Params().At(i).Type()) {
				return true
			}
		}
		return false
	}
	nhandlers := 0
	for _, fi := range fns {
		if !isStmtWalk(fi, emT) {
			continue
		}
		info := fi.Pkg.TypesInfo
		for _, ts := range c17typeSwitches(fi.Decl.Body) {
			for _, st := range ts.Body.List {
				cc := st.(*ast.CaseClause)
				for _, e := range cc.List {
					t := astType(info, e)
					if t == nil || !scoped[t] {
						continue
					}
					nhandlers++
					// the method with a *ast.T parameter called from the clause, if any
					var h *FuncInfo
					for _, s := range cc.Body {
						for _, call := range calls(s, false) {
							g := byObj[callee(info, call)]
							if g == nil || !recvIs(g.Obj, emT) {
								continue
							}
							sig := g.Obj.Type().(*types.Signature)
							for i := 0; i < sig.Params().Len(); i++ {
								if pt, ok := sig.Params().At(i).Type().(*types.Pointer); ok && types.Identical(pt.Elem(), t) {
									h = g
								}
							}
						}
					}
					var c *CFGInfo
					var blk *cfg.Block
					idx := 0
					var lo, hi token.Pos
					var key string
					var hinfo *types.Info
					if h != nil {
						c = r.P.CFGOf(h)
						blk = c.G.Blocks[0]
						lo, hi = h.Decl.Body.Pos(), h.Decl.Body.End()
						key = funcKey(h.Obj)
						hinfo = h.Pkg.TypesInfo
					} else {
						c = r.P.CFGOf(fi)
						lo, hi = cc.Colon, cc.End()
						if len(cc.Body) == 0 {
							r.Ob(R, funcKey(fi.Obj)+"#"+t.Obj().Name()+":bindings-inside-own-scope", cc.Pos()).Bad("the emitter's clause for %s is empty although the type checker gives the statement a scope", t.Obj().Name())
							continue
						}
						rng := &c17span{cc.Body[0].Pos(), cc.End()}
						blk, idx = cgxFirstNodeIn(c, rng)
						key = funcKey(fi.Obj) + "#" + t.Obj().Name()
						hinfo = info
					}
					o := r.Ob(R, key+":bindings-inside-own-scope", lo)
					if blk == nil {
						o.Unknown("the handler is not in the control-flow graph")
						continue
					}
					res := c17scopeDepths(c, hinfo, blk, idx, lo, hi, enterFB, exitFB, func(call *ast.CallExpr) string {
						f := callee(hinfo, call)
						if f == bind {
							if len(call.Args) > 0 {
								if s, ok := stringValue(hinfo, call.Args[0]); ok && len(s) > 0 && s[0] == '$' {
									return ""
								}
							}
							return "binds the name " + c17str(c17arg(call, 0))
						}
						if emitsStatements(f) {
							return "emits statements that may declare variables (" + exprStr(call.Fun) + ")"
						}
						return ""
					})
					switch {
					case res.unknown != "":
						o.Unknown("%s", res.unknown)
					case res.bad != "":
						o.Bad("the handler of %s %s at %s outside any builder scope opened by the handler, while the type checker gives the statement its own scope: the name stays bound in the enclosing scope after the statement, and since the emitter resolves identifiers by name, looking at the builder's scopes before the non-local variables, a later reference in the same function to a template global with that name is emitted as an access to the stale register - it does not see the value given to Run and its assignments are lost", t.Obj().Name(), res.bad, r.P.Pos(res.badPos))
					case res.unbalanced != "":
						o.Bad("the handler of %s %s: the scopes of the builder no longer match the scopes of the type checker for the statements that follow", t.Obj().Name(), res.unbalanced)
					default:
						o.OK("the %d binding/statement-emitting calls of the handler of %s are all at builder scope depth >= 1 and the depth is 0 at every exit", res.n, t.Obj().Name())
					}
				}
			}
		}
	}
	if nhandlers == 0 {
		r.Ob(R, "anchor:emitter-statement-walk", token.NoPos).Unknown("no clause of the emitter's statement walk handles a node type the checker gives a scope to")
	}
}

type c17span struct{ lo, hi token.Pos }

func (s *c17span) Pos() token.Pos { return s.lo }
func (s *c17span) End() token.Pos { return s.hi }

func c17arg(call *ast.CallExpr, i int) ast.Expr {
	if i < len(call.Args) {
		return call.Args[i]
	}
	return nil
}

func c17isNodeSlice(t types.Type, nodeT *types.Named) bool {
	s, ok := t.(*types.Slice)
	return ok && types.Identical(s.Elem(), nodeT)
}

// c17typeSwitches lists the outermost type switch statements of a body (function literals excluded).
func c17typeSwitches(body ast.Node) []*ast.TypeSwitchStmt {
	var out []*ast.TypeSwitchStmt
	ast.Inspect(body, func(n ast.Node) bool {
		switch s := n.(type) {
		case *ast.FuncLit:
			return false
		case *ast.TypeSwitchStmt:
			out = append(out, s)
			return false // a type switch nested in a clause dispatches on a part of the node, not on the statement
		}
		return true
	})
	return out
}

type c17depthResult struct {
	n          int
	bad        string
	badPos     token.Pos
	unbalanced string
	unknown    string
}

// c17scopeDepths walks the graph from (blk, idx) inside [lo, hi], counting enterScope / exitScope, and checks that
// every call for which what() is non-empty runs at depth >= 1 and that the depth is 0 where the region is left.
func c17scopeDepths(c *CFGInfo, info *types.Info, blk *cfg.Block, idx int, lo, hi token.Pos, enter, exit *types.Func, what func(*ast.CallExpr) string) c17depthResult {
	var res c17depthResult
	counted := map[*ast.CallExpr]bool{}
	type state struct{ depth, pending int } // pending: scopes a deferred exitScope will close when the handler returns
	stateAt := map[*cfg.Block]state{}
	inRegion := func(n ast.Node) bool { return lo <= n.Pos() && n.End() <= hi }
	leave := func(st state, n ast.Node) {
		if d := st.depth - st.pending; d != 0 && res.unbalanced == "" {
			res.unbalanced = fmt.Sprintf("is left at %s with builder scope depth %+d", c.P.Pos(n.Pos()), d)
		}
	}
	var visit func(b *cfg.Block, from int, st state)
	visit = func(b *cfg.Block, from int, st state) {
		for i := from; i < len(b.Nodes); i++ {
			n := b.Nodes[i]
			if _, ok := n.(*ast.ReturnStmt); ok {
				leave(st, n)
				return
			}
			if !inRegion(n) {
				leave(st, n)
				return
			}
			switch d := n.(type) {
			case *ast.RangeStmt, *ast.ForStmt, *ast.IfStmt, *ast.SwitchStmt, *ast.TypeSwitchStmt, *ast.SelectStmt, *ast.BlockStmt, *ast.LabeledStmt, *ast.CaseClause, *ast.CommClause:
				continue
			case *ast.DeferStmt:
				// defer fb.exitScope(): the scope is closed when the handler returns
				if callee(info, d.Call) == exit {
					st.pending++
					continue
				}
			}
			ast.Inspect(n, func(m ast.Node) bool {
				switch x := m.(type) {
				case *ast.FuncLit:
					return false
				case *ast.CallExpr:
					f := callee(info, x)
					switch {
					case f == enter:
						st.depth++
					case f == exit:
						st.depth--
						if st.depth < 0 && res.unbalanced == "" {
							res.unbalanced = fmt.Sprintf("closes at %s a scope it has not opened", c.P.Pos(x.Pos()))
						}
					default:
						if w := what(x); w != "" {
							if !counted[x] {
								counted[x] = true
								res.n++
							}
							if st.depth < 1 && res.bad == "" {
								res.bad, res.badPos = w, x.Pos()
							}
						}
					}
				}
				return true
			})
		}
		for _, s := range b.Succs {
			if d, seen := stateAt[s]; seen {
				if d != st && res.unknown == "" {
					res.unknown = fmt.Sprintf("two paths reach the same point with builder scope depths %d and %d", d.depth, st.depth)
				}
				continue
			}
			stateAt[s] = st
			visit(s, 0, st)
		}
	}
	visit(blk, idx, state{})
	return res
}
