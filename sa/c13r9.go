package main

// C13 R-9 (added after seeded change C13-4): panics are dropped from the VM's panic chain only down to the
// number of frames that are still panicking in the WHOLE call stack.
//
// The chain VM.panic holds one record per panic in flight; the run driver returns its head when the code
// ends, and the entry point turns an output-error head into the writer's error E. When a deferred call
// that recovered a panic returns, the records of the panics that are over are popped. A record may be
// popped only if no frame is unwinding because of it any more, wherever that frame is in the stack: the
// output-error panic of a failed write sits at the bottom of the chain while a deferred function of the
// template raises and recovers a panic of its own. So, for every pop of the chain (a store into VM.panic
// of a value reached through the link field of the record):
//
//	(a) the pop is inside a loop that goes on while a length is greater than a bound, and the bound is a
//	    count of frames of the call stack (a variable set to 0 and incremented inside loops over the stack);
//	(b) every such counting loop visits the call stack from its bottom (index 0) to its top: the stack
//	    itself, or a slice of it without a low bound; an index loop from 0 to len or from len-1 to 0;
//	(c) in the loop body every frame whose status is `panicked` is counted (finite-domain evaluation of the
//	    body for that status value: the end of the body is not reached without the increment).
//
// If (b) or (c) fails there is a call stack (a panicking frame in the part that is skipped, e.g. below the
// recovered call) for which a pending panic — the failed write — is dropped: the remaining deferred calls
// do not see it and Run returns nil instead of E.
//
// Not decided here: that the other side of the comparison is the length of the chain and that it is
// decremented once per pop (number of pops).

import (
	"go/ast"
	"go/token"
	"go/types"
	"strings"

	"golang.org/x/tools/go/cfg"
)

func init() {
	p := registry["C13"]
	if p == nil {
		return
	}
	run := p.run
	p.run = func(r *Run) { run(r); c13ChainPops(r) }
	p.explain += " R-9: every pop of the VM's panic chain is inside a loop bounded by a count of call-stack frames; the counting loops range over the call stack from index 0 to the top and count every frame whose status is `panicked`."
	p.notCov = append(p.notCov, "the number of pops of the panic chain (that the compared length is the length of the chain and is decremented once per pop)")
}

// stackRange describes the range operand of a counting loop.
//
//	verdict "" : e is not an expression over the call stack
//	"full"     : the whole stack
//	"low"      : a slice of the stack with a low bound that is not the constant 0
//	"high"     : a slice with a high bound that is not len(stack)
func (m *c13Frames) stackRange(e ast.Expr) (verdict string, bound ast.Expr) {
	e = ast.Unparen(e)
	if m.isStack(e) {
		return "full", nil
	}
	switch v := e.(type) {
	case *ast.Ident:
		if o := c11ObjOf(m.info, v); o != nil {
			if d := m.singleDef(o); d != nil {
				return m.stackRange(d)
			}
		}
	case *ast.SliceExpr:
		in, b := m.stackRange(v.X)
		if in == "" {
			return "", nil
		}
		if in != "full" {
			return in, b
		}
		if v.Low != nil {
			if k, ok := intValue(m.info, v.Low); !ok || k != 0 {
				return "low", v.Low
			}
		}
		if v.High != nil && !m.isLenOfStack(v.High) {
			return "high", v.High
		}
		return "full", nil
	case *ast.CallExpr: // range len(stack)
		if m.isLenOfStack(v) {
			return "full", nil
		}
	}
	return "", nil
}

func (m *c13Frames) isFullStack(e ast.Expr) bool {
	v, _ := m.stackRange(e)
	return v == "full"
}

func (m *c13Frames) isLenOfStack(e ast.Expr) bool {
	c, ok := ast.Unparen(e).(*ast.CallExpr)
	if !ok || !isBuiltinCall(m.info, c, "len") || len(c.Args) != 1 {
		return false
	}
	v, _ := m.stackRange(c.Args[0])
	return v == "full"
}

func c13ChainPops(r *Run) {
	const R = "R-9"
	a := c11Resolve(r.P)
	if !r.Anchor(R, "VM type and its panic chain field", a != nil && len(a.missing) == 0 && a.vmT != nil && a.fPanic != nil) {
		return
	}
	m0 := c13ResolveFrames(a)
	if !r.Anchor(R, "call stack of the VM (slice of frames with a status field of an enumeration type)", m0 != nil) {
		return
	}
	panicked, ok := m0.byName["panicked"]
	if !r.Anchor(R, "constant panicked of "+m0.statusT.Obj().Name(), ok) {
		return
	}
	info := a.info
	panicT := c11NamedOf(a.fPanic.Type())
	fNext := c11UniqueField(panicT, func(w *types.Var) bool { return types.Identical(w.Type(), a.fPanic.Type()) })
	if !r.Anchor(R, "link field of the panic record", fNext != nil) {
		return
	}

	npops := 0
	for _, fi := range r.P.Funcs(c11RT) {
		if r.P.isTestFile(fi.File) || fi.Obj == nil {
			continue
		}
		m := m0.in(fi.Decl.Body)
		throughNext := func(e ast.Expr) bool {
			has := func(x ast.Expr) bool {
				found := false
				ast.Inspect(x, func(n ast.Node) bool {
					if se, ok := n.(*ast.SelectorExpr); ok && c11FieldOf(info, se) == fNext {
						found = true
					}
					return !found
				})
				return found
			}
			if has(e) {
				return true
			}
			if o := c11ObjOf(info, e); o != nil {
				if _, isVar := o.(*types.Var); isVar {
					rhs, _ := c11Defs(info, fi.Decl.Body, o)
					for _, d := range rhs {
						if has(d) {
							return true
						}
					}
				}
			}
			return false
		}
		var pops []*ast.AssignStmt
		ast.Inspect(fi.Decl.Body, func(n ast.Node) bool {
			as, ok := n.(*ast.AssignStmt)
			if !ok || len(as.Lhs) != len(as.Rhs) {
				return true
			}
			for i, l := range as.Lhs {
				if c11FieldOf(info, l) == a.fPanic && throughNext(as.Rhs[i]) {
					pops = append(pops, as)
				}
			}
			return true
		})
		if len(pops) == 0 {
			continue
		}
		par := r.P.Parents(fi.File)
		c := r.P.CFGOf(fi)
		for _, pop := range pops {
			npops++
			key := fi.Name() + "#panic-chain-pop"
			oa := r.Ob(R, key+":bounded-by-frame-count", pop.Pos())
			// (a) the enclosing loop and its bound
			var loop *ast.ForStmt
			for p := par[pop]; p != nil; p = par[p] {
				if fs, ok := p.(*ast.ForStmt); ok {
					loop = fs
					break
				}
				if _, ok := p.(*ast.FuncLit); ok {
					break
				}
				if _, ok := p.(*ast.RangeStmt); ok {
					break
				}
			}
			if loop == nil || loop.Cond == nil {
				oa.Unknown("the pop is not inside a `for` statement with a condition: how many records are dropped is not understood")
				continue
			}
			cmp, isCmp := ast.Unparen(loop.Cond).(*ast.BinaryExpr)
			if !isCmp {
				oa.Unknown("the condition %s of the loop holding the pop is not a comparison", exprStr(loop.Cond))
				continue
			}
			// the counting sites of a local: its increments, provided every other assignment is `= 0`
			countSites := func(e ast.Expr) ([]*ast.IncDecStmt, bool) {
				o := c11ObjOf(info, e)
				vr, isVar := o.(*types.Var)
				if !isVar || vr.IsField() || (vr.Pkg() != nil && vr.Parent() == vr.Pkg().Scope()) {
					return nil, false
				}
				var incs []*ast.IncDecStmt
				clean := true
				ast.Inspect(fi.Decl.Body, func(n ast.Node) bool {
					switch s := n.(type) {
					case *ast.IncDecStmt:
						if c11ObjOf(info, s.X) == o {
							if s.Tok == token.INC {
								incs = append(incs, s)
							} else {
								clean = false
							}
						}
					case *ast.AssignStmt:
						for i, l := range s.Lhs {
							if c11ObjOf(info, l) != o {
								continue
							}
							if len(s.Lhs) != len(s.Rhs) || (s.Tok != token.ASSIGN && s.Tok != token.DEFINE) {
								clean = false
							} else if k, ok := intValue(info, s.Rhs[i]); !ok || k != 0 {
								clean = false
							}
						}
					case *ast.ValueSpec:
						for i, id := range s.Names {
							if info.Defs[id] == o && len(s.Values) == len(s.Names) {
								if k, ok := intValue(info, s.Values[i]); !ok || k != 0 {
									clean = false
								}
							}
						}
					case *ast.UnaryExpr:
						if s.Op == token.AND && c11ObjOf(info, s.X) == o {
							clean = false
						}
					case *ast.RangeStmt:
						if c11ObjOf(info, s.Key) == o || (s.Value != nil && c11ObjOf(info, s.Value) == o) {
							clean = false
						}
					}
					return true
				})
				return incs, clean && len(incs) > 0
			}
			// counting loop of an increment: the innermost loop enclosing it, when it is a loop over the call stack
			type cloop struct {
				stmt    ast.Stmt
				body    *ast.BlockStmt
				ids     map[types.Object]bool
				verdict string // "full", "low", "high", "?" (not understood)
				detail  string
			}
			loopOf := func(inc ast.Node) *cloop {
				for p := par[inc]; p != nil; p = par[p] {
					switch s := p.(type) {
					case *ast.FuncLit:
						return nil
					case *ast.RangeStmt:
						v, bound := m.stackRange(s.X)
						if v == "" {
							return nil // the innermost loop is not over the call stack
						}
						cl := &cloop{stmt: s, body: s.Body, ids: map[types.Object]bool{}, verdict: v}
						if bound != nil {
							cl.detail = exprStr(bound)
						}
						if o := c11ObjOf(info, s.Key); o != nil && s.Key != nil {
							cl.ids[o] = true
						}
						if s.Value != nil {
							if o := c11ObjOf(info, s.Value); o != nil {
								cl.ids[o] = true
							}
						}
						return cl
					case *ast.ForStmt:
						// an index loop: the variable of the post statement indexes the stack in the body
						post, ok := s.Post.(*ast.IncDecStmt)
						if !ok {
							return nil
						}
						j := c11ObjOf(info, post.X)
						if j == nil {
							return nil
						}
						uses := false
						ast.Inspect(s.Body, func(n ast.Node) bool {
							if ix, ok := n.(*ast.IndexExpr); ok && m.isFullStack(ix.X) && c11ObjOf(info, ix.Index) == j {
								uses = true
							}
							return true
						})
						if !uses {
							return nil
						}
						cl := &cloop{stmt: s, body: s.Body, ids: map[types.Object]bool{j: true}, verdict: "?"}
						var initRhs ast.Expr
						if as, ok := s.Init.(*ast.AssignStmt); ok && len(as.Lhs) == 1 && len(as.Rhs) == 1 && c11ObjOf(info, as.Lhs[0]) == j {
							initRhs = as.Rhs[0]
						}
						cond, _ := ast.Unparen(s.Cond).(*ast.BinaryExpr)
						if initRhs == nil || cond == nil {
							cl.detail = "the init or the condition of the index loop is not understood"
							return cl
						}
						// normalise the condition to `j op X`
						op, rhs := cond.Op, cond.Y
						if c11ObjOf(info, cond.X) != j {
							if c11ObjOf(info, cond.Y) != j {
								cl.detail = "the condition of the index loop does not test " + j.Name()
								return cl
							}
							rhs = cond.X
							switch op {
							case token.LSS:
								op = token.GTR
							case token.GTR:
								op = token.LSS
							case token.LEQ:
								op = token.GEQ
							case token.GEQ:
								op = token.LEQ
							}
						}
						if post.Tok == token.INC {
							if !(op == token.LSS && m.isLenOfStack(rhs)) {
								cl.detail = "the ascending index loop does not run up to len(" + m.fCalls.Name() + ")"
								if op == token.LSS || op == token.LEQ {
									cl.verdict, cl.detail = "high", exprStr(rhs)
								}
								return cl
							}
							if k, ok := intValue(info, initRhs); ok && k == 0 {
								cl.verdict = "full"
							} else {
								cl.verdict, cl.detail = "low", exprStr(initRhs)
							}
							return cl
						}
						// descending: from len-1 down to 0
						top := false
						if be, ok := ast.Unparen(initRhs).(*ast.BinaryExpr); ok && be.Op == token.SUB && m.isLenOfStack(be.X) {
							if k, ok := intValue(info, be.Y); ok && k == 1 {
								top = true
							}
						}
						if !top {
							cl.detail = "the descending index loop does not start at len(" + m.fCalls.Name() + ")-1"
							return cl
						}
						k, isK := intValue(info, rhs)
						switch {
						case isK && ((op == token.GEQ && k == 0) || (op == token.GTR && k == -1)):
							cl.verdict = "full"
						case op == token.GEQ || op == token.GTR:
							cl.verdict, cl.detail = "low", exprStr(rhs)
						default:
							cl.detail = "the condition of the descending index loop is not understood"
						}
						return cl
					}
				}
				return nil
			}
			var kept ast.Expr
			var incs []*ast.IncDecStmt
			for _, side := range []ast.Expr{cmp.Y, cmp.X} {
				is, ok := countSites(side)
				if !ok {
					continue
				}
				all := true
				for _, inc := range is {
					if loopOf(inc) == nil {
						all = false
					}
				}
				if all {
					kept, incs = side, is
					break
				}
			}
			if kept == nil {
				oa.Unknown("neither side of the condition %s of the loop holding the pop is a variable counting frames of the call stack (set to 0, incremented inside loops over %s)", exprStr(loop.Cond), m.fCalls.Name())
				continue
			}
			// direction: the loop goes on while the other side exceeds the count
			goesOn := (kept == cmp.Y && cmp.Op == token.GTR) || (kept == cmp.X && cmp.Op == token.LSS) || cmp.Op == token.NEQ
			if !goesOn {
				oa.Unknown("the condition %s does not have the form `length > %s`", exprStr(loop.Cond), exprStr(kept))
				continue
			}
			oa.OK("the pop is inside a loop that goes on while %s; %s counts frames of %s (%d increment site(s))", exprStr(loop.Cond), exprStr(kept), m.fCalls.Name(), len(incs))

			for _, inc := range incs {
				cl := loopOf(inc)
				ob := r.Ob(R, key+":count-covers-the-stack", cl.stmt.Pos())
				switch cl.verdict {
				case "full":
					ob.OK("the counting loop visits %s from index 0 to the top", m.fCalls.Name())
				case "low":
					ob.Bad("the count of the frames still panicking starts at %s instead of the bottom of the call stack: a frame below it that is still panicked is not counted, its panic record — the output error of a failed write, when a deferred function raised and recovered a panic of its own while the write failure was unwinding — is popped with the recovered one, and Run returns nil instead of the writer's error", cl.detail)
				case "high":
					ob.Unknown("the count of the frames still panicking stops at %s: whether every panicked frame is below it is not decided", cl.detail)
				default:
					ob.Unknown("the loop counting the frames is not understood: %s", cl.detail)
				}
				oc := r.Ob(R, key+":counts-every-panicked-frame", inc.Pos())
				// (c) with the status of the visited frame == panicked the end of the body is not reached
				// without the increment
				var start *cfg.Block
				for _, b := range c.G.Blocks {
					if (b.Kind == cfg.KindRangeBody || b.Kind == cfg.KindForBody) && b.Stmt == cl.stmt {
						start = b
					}
				}
				if start == nil {
					oc.Unknown("the body of the counting loop was not located in the graph")
					continue
				}
				escaped := ""
				seen := map[*cfg.Block]bool{start: true}
				var walk func(b *cfg.Block)
				walk = func(b *cfg.Block) {
					if b != start && b.Stmt == cl.stmt {
						switch b.Kind {
						case cfg.KindRangeLoop, cfg.KindForLoop, cfg.KindForPost:
							escaped = "the next iteration"
							return
						case cfg.KindRangeDone, cfg.KindForDone:
							escaped = "the end of the loop"
							return
						}
					}
					for _, n := range b.Nodes {
						if n == ast.Node(inc) || containsNode(n, inc) {
							return
						}
						if _, ok := n.(*ast.ReturnStmt); ok {
							escaped = "a return"
							return
						}
						if m.assignsVar(n, cl.ids) {
							escaped = "an assignment of the loop variable"
							return
						}
					}
					for k, s := range b.Succs {
						if !m.feasible(c, b, k, cl.ids, panicked) {
							continue
						}
						if !seen[s] {
							seen[s] = true
							walk(s)
						}
					}
				}
				walk(start)
				if escaped != "" {
					oc.Bad("in the loop counting the frames still panicking, a frame whose status is panicked can reach %s without being counted: its panic record is popped with the recovered one (for the output error of a failed write Run returns nil instead of the writer's error)", escaped)
				} else {
					oc.OK("every frame whose status is panicked is counted (the body, evaluated with that status, does not end without the increment)")
				}
			}
		}
	}
	if npops == 0 {
		r.Ob(R, "runtime#panic-chain-pops", token.NoPos).Unknown("no pop of the panic chain (a store into %s.%s of a value reached through %s) was found in package runtime: how recovered panics are removed is not understood", a.vmT.Obj().Name(), a.fPanic.Name(), strings.TrimSpace(fNext.Name()))
	}
	r.Require(R, 3)
}
