package main

// Engine E6 (with E4d): bounded index-guard analysis.
//
// For every index x[e] and slice x[a:b] expression on a []byte/string inside a chosen set of
// functions, the facts that hold at the site on EVERY path must imply that the access is in range.
// Facts are linear inequalities  Σ coef·term + c ≤ 0  over integer variables, len(path) terms and
// integer field paths; they come from branch conditions, assignments, loop headers, index-search
// results and short-circuit operators, flow forward through the go/cfg graph (must-analysis: join is
// intersection), are shifted by v = v ± k, and are killed by other assignments and by calls in the
// computed mod-set. A goal is proved by one fact or the sum of up to three facts.
//
// An unproved goal whose terms are parameters / receiver fields is lifted to a precondition and becomes
// an obligation at every static call site (depth ≤ 3). Anything else is undecided unless it is listed
// in the caller's exception table (symbol + reason).

import (
	"fmt"
	"go/ast"
	"go/constant"
	"go/token"
	"go/types"
	"os"
	"sort"
	"strconv"
	"strings"

	"golang.org/x/tools/go/cfg"
)

// ---------------------------------------------------------------------------
// linear forms

type lin struct {
	t map[string]int64 // term name -> coefficient (no zero entries)
	c int64
}

func newLin() lin { return lin{t: map[string]int64{}} }

func (a lin) clone() lin {
	b := lin{t: make(map[string]int64, len(a.t)), c: a.c}
	for k, v := range a.t {
		b.t[k] = v
	}
	return b
}

func (a lin) add(b lin, k int64) lin {
	r := a.clone()
	for n, v := range b.t {
		r.t[n] += k * v
		if r.t[n] == 0 {
			delete(r.t, n)
		}
	}
	r.c += k * b.c
	return r
}

func (a lin) key() string {
	if len(a.t) == 1 {
		for n, v := range a.t {
			if v == 1 {
				return "+1*" + n
			}
			if v == -1 {
				return "-1*" + n
			}
		}
	}
	ks := make([]string, 0, len(a.t))
	for n, v := range a.t {
		switch v {
		case 1:
			ks = append(ks, "+1*"+n)
		case -1:
			ks = append(ks, "-1*"+n)
		default:
			ks = append(ks, fmt.Sprintf("%+d*%s", v, n))
		}
	}
	sort.Strings(ks)
	return strings.Join(ks, " ")
}

func (a lin) String() string { return fmt.Sprintf("%s %+d", a.key(), a.c) }

func (a lin) mentions(name string) bool { _, ok := a.t[name]; return ok }

// term naming: variables by object identity, len(path), field paths.
func objKey(o types.Object) string { return fmt.Sprintf("%s@%d", o.Name(), o.Pos()) }

// ---------------------------------------------------------------------------
// state

type bstate struct {
	le map[string]lin        // key(L) -> L with the strongest c known (L + c ≤ 0; larger c is stronger)
	ne map[string]lin        // key(L)+c -> L + c ≠ 0
	bv map[string]*boolFacts // "v:"+key of a boolean variable -> the facts its value stands for
}

// boolFacts are the ≤-facts implied by a boolean variable being true (t) or false (f), recorded when
// it was assigned from a condition; dropped as soon as a term they mention changes.
type boolFacts struct{ t, f []lin }

func newState() *bstate {
	return &bstate{le: map[string]lin{}, ne: map[string]lin{}, bv: map[string]*boolFacts{}}
}

func (s *bstate) clone() *bstate {
	n := newState()
	for k, v := range s.bv {
		n.bv[k] = v
	}
	for k, v := range s.le {
		n.le[k] = v
	}
	for k, v := range s.ne {
		n.ne[k] = v
	}
	return n
}

func (s *bstate) addLE(l lin) {
	if len(l.t) == 0 {
		return
	}
	k := l.key()
	if old, ok := s.le[k]; !ok || l.c > old.c {
		s.le[k] = l
	}
	s.derive(k)
}

// derive: L + c ≤ 0 and L + c ≠ 0  ⇒  L + c + 1 ≤ 0  (integers).
func (s *bstate) derive(k string) {
	for {
		f, ok := s.le[k]
		if !ok {
			return
		}
		nk := fmt.Sprintf("%s|%d", k, f.c)
		if _, has := s.ne[nk]; has {
			f2 := f.clone()
			f2.c++
			s.le[k] = f2
			continue
		}
		return
	}
}

func (s *bstate) addNE(l lin) {
	if len(l.t) == 0 {
		return
	}
	// store both orientations so that it matches either ≤ fact
	for _, m := range []lin{l, newLin().add(l, -1)} {
		k := m.key()
		s.ne[fmt.Sprintf("%s|%d", k, m.c)] = m
		// the ≤ fact may be entailed rather than stored: make it explicit so that derive can use it
		if _, stored := s.le[k]; !stored {
			if cb, ok, _ := s.bound(m, 2); ok && cb >= m.c {
				s.le[k] = lin{t: m.t, c: cb}
			}
		}
		s.derive(k)
	}
}

func (s *bstate) addEQ(l lin) {
	s.addLE(l)
	s.addLE(newLin().add(l, -1))
}

// kill removes every fact mentioning a term for which pred is true.
func (s *bstate) kill(pred func(term string) bool) {
	for k, b := range s.bv {
		kk := k
		if strings.HasPrefix(k, "nil:") {
			kk = "v:" + k[4:]
		}
		drop := pred(kk)
		for _, l := range append(append([]lin{}, b.t...), b.f...) {
			for n := range l.t {
				if pred(n) {
					drop = true
				}
			}
		}
		if drop {
			delete(s.bv, k)
		}
	}
	for k, f := range s.le {
		for n := range f.t {
			if pred(n) {
				delete(s.le, k)
				break
			}
		}
	}
	for k, f := range s.ne {
		for n := range f.t {
			if pred(n) {
				delete(s.ne, k)
				break
			}
		}
	}
}

// subst replaces term by the linear form repl in every fact.
func (s *bstate) subst(term string, repl lin) {
	for k, b := range s.bv {
		nb := &boolFacts{}
		for i, src := range [][]lin{b.t, b.f} {
			for _, f := range src {
				g := f
				if co, ok := f.t[term]; ok {
					g = f.clone()
					delete(g.t, term)
					g = g.add(repl, co)
				}
				if i == 0 {
					nb.t = append(nb.t, g)
				} else {
					nb.f = append(nb.f, g)
				}
			}
		}
		s.bv[k] = nb
	}
	le, ne := s.le, s.ne
	s.le, s.ne = map[string]lin{}, map[string]lin{}
	for _, f := range le {
		if co, ok := f.t[term]; ok {
			g := f.clone()
			delete(g.t, term)
			g = g.add(repl, co)
			s.addLE(g)
		} else {
			s.addLE(f)
		}
	}
	for _, f := range ne {
		if co, ok := f.t[term]; ok {
			g := f.clone()
			delete(g.t, term)
			g = g.add(repl, co)
			s.ne[fmt.Sprintf("%s|%d", g.key(), g.c)] = g
		} else {
			s.ne[fmt.Sprintf("%s|%d", f.key(), f.c)] = f
		}
	}
	for k := range s.le {
		s.derive(k)
	}
}

// meet = intersection (must facts): keep L present in both with the weaker constant.
func meetOld(a, b *bstate) *bstate {
	r := newState()
	for k, fa := range a.le {
		if fb, ok := b.le[k]; ok {
			if fb.c < fa.c {
				r.le[k] = fb
			} else {
				r.le[k] = fa
			}
		}
	}
	for k, fa := range a.ne {
		if _, ok := b.ne[k]; ok {
			r.ne[k] = fa
		}
	}
	return r
}

func (a *bstate) equal(b *bstate) bool {
	if len(a.le) != len(b.le) || len(a.ne) != len(b.ne) || len(a.bv) != len(b.bv) {
		return false
	}
	for k, x := range a.bv {
		if y, ok := b.bv[k]; !ok || !x.same(y) {
			return false
		}
	}
	for k, f := range a.le {
		if g, ok := b.le[k]; !ok || g.c != f.c {
			return false
		}
	}
	for k := range a.ne {
		if _, ok := b.ne[k]; !ok {
			return false
		}
	}
	return true
}

// proves reports whether the facts imply goal (goal.L + goal.c ≤ 0): sum of up to three facts,
// using len(x) ≥ 0 for every len term of the goal as implicit facts.
func (s *bstate) provesOld(goal lin) (bool, string) {
	if len(goal.t) == 0 {
		return goal.c <= 0, "constant"
	}
	var facts []lin
	for _, f := range s.le {
		facts = append(facts, f)
	}
	for n := range goal.t {
		if strings.HasPrefix(n, "len(") {
			l := newLin()
			l.t[n] = -1
			facts = append(facts, l) // -len(x) ≤ 0
		}
	}
	for _, f := range s.le {
		for n := range f.t {
			if strings.HasPrefix(n, "len(") {
				l := newLin()
				l.t[n] = -1
				facts = append(facts, l)
			}
		}
	}
	sort.Slice(facts, func(i, j int) bool { return facts[i].String() < facts[j].String() })
	gk := goal.key()
	ok := func(sum lin) bool { return sum.key() == gk && sum.c >= goal.c }
	for i := range facts {
		if ok(facts[i]) {
			return true, facts[i].String() + " ≤ 0"
		}
	}
	for i := range facts {
		for j := i; j < len(facts); j++ {
			s2 := facts[i].add(facts[j], 1)
			if ok(s2) {
				return true, facts[i].String() + " ≤ 0 ∧ " + facts[j].String() + " ≤ 0"
			}
		}
	}
	if len(facts) <= 60 {
		for i := range facts {
			for j := i; j < len(facts); j++ {
				s2 := facts[i].add(facts[j], 1)
				for k := j; k < len(facts); k++ {
					if ok(s2.add(facts[k], 1)) {
						return true, facts[i].String() + " ≤ 0 ∧ " + facts[j].String() + " ≤ 0 ∧ " + facts[k].String() + " ≤ 0"
					}
				}
			}
		}
	}
	return false, ""
}

// ---------------------------------------------------------------------------
// the analysis of one function

type boundsFunc struct {
	ba   *boundsAnalysis
	fi   *FuncInfo
	info *types.Info
	cfg  *CFGInfo
	in   map[*cfg.Block]*bstate
	recv *types.Var
	pre  []lin // assumed preconditions (from the lifting)

	negCache map[types.Object]bool // variables that may go negative (see needsLowerBound)
}

type boundsSite struct {
	Fn     *FuncInfo
	Node   ast.Expr
	Desc   string // stable description: base[index]
	Goals  []lin
	GoalDs []string
	Proved []bool
	Facts  []string
	TwoSym bool // slice with two symbolic bounds
	state  *bstate
}

type boundsAnalysis struct {
	p         *Prog
	funcs     map[*types.Func]*FuncInfo
	modField  map[*types.Func]map[string]bool // function -> receiver/param-rooted field names it may assign (".src")
	shift     map[*types.Func]map[string]int  // summarised per slice field: len(recv.f) decreases by parameter #i (when ≥ 0)
	results   map[*types.Func]*boundsFunc
	elemOK    func(t types.Type) bool
	nilCache  map[string]*nilSummary
	trueCache map[*types.Func][]lin
	posCache  map[*types.Func][]posSummary
	valCache  map[*types.Func]*valueSummary
}

func newBoundsAnalysis(p *Prog, fns []*FuncInfo) *boundsAnalysis {
	ba := &boundsAnalysis{p: p, funcs: map[*types.Func]*FuncInfo{}, modField: map[*types.Func]map[string]bool{}, shift: map[*types.Func]map[string]int{}, results: map[*types.Func]*boundsFunc{}}
	for _, f := range fns {
		ba.funcs[f.Obj] = f
	}
	ba.computeModSets()
	return ba
}

// computeModSets: which receiver-rooted slice fields each method may re-assign, transitively.
func (ba *boundsAnalysis) computeModSets() {
	direct := map[*types.Func]map[string]bool{}
	callsOf := map[*types.Func][]*types.Func{}
	for fn, fi := range ba.funcs {
		direct[fn] = map[string]bool{}
		info := fi.Pkg.TypesInfo
		ast.Inspect(fi.Decl.Body, func(n ast.Node) bool {
			switch s := n.(type) {
			case *ast.AssignStmt:
				for _, l := range s.Lhs {
					if sel, ok := ast.Unparen(l).(*ast.SelectorExpr); ok {
						if _, isSlice := underSliceOrString(info.TypeOf(sel)); isSlice {
							direct[fn]["."+sel.Sel.Name] = true
						}
					}
				}
			case *ast.CallExpr:
				if c := callee(info, s); c != nil {
					callsOf[fn] = append(callsOf[fn], c)
				}
			}
			return true
		})
	}
	// transitive closure
	for fn := range ba.funcs {
		seen := map[*types.Func]bool{}
		acc := map[string]bool{}
		var walk func(f *types.Func)
		walk = func(f *types.Func) {
			if seen[f] {
				return
			}
			seen[f] = true
			for k := range direct[f] {
				acc[k] = true
			}
			for _, c := range callsOf[f] {
				if _, in := ba.funcs[c]; in {
					walk(c)
				}
			}
		}
		walk(fn)
		ba.modField[fn] = acc
	}
	// shift summaries: the only assignments to a slice field are `r.f = r.f[P:]` with P a parameter,
	// or the body's only modifying action is a call to a summarised function passing an own parameter.
	for round := 0; round < 4; round++ {
		for fn, fi := range ba.funcs {
			if len(ba.modField[fn]) == 0 {
				continue
			}
			ba.shift[fn] = ba.shiftSummary(fi)
		}
	}
}

func underSliceOrString(t types.Type) (types.Type, bool) {
	if t == nil {
		return nil, false
	}
	switch u := t.Underlying().(type) {
	case *types.Slice:
		return u, true
	case *types.Basic:
		if u.Info()&types.IsString != 0 {
			return u, true
		}
	}
	return nil, false
}

func (ba *boundsAnalysis) shiftSummary(fi *FuncInfo) map[string]int {
	info := fi.Pkg.TypesInfo
	sig := fi.Obj.Type().(*types.Signature)
	paramIdx := func(e ast.Expr) int {
		id, ok := ast.Unparen(e).(*ast.Ident)
		if !ok {
			return -1
		}
		for i := 0; i < sig.Params().Len(); i++ {
			if info.Uses[id] == sig.Params().At(i) {
				return i
			}
		}
		return -1
	}
	found := map[string]int{}
	bad := map[string]bool{}
	note := func(field string, pi int) {
		if pi < 0 {
			bad[field] = true
			return
		}
		if old, ok := found[field]; ok && old != pi {
			bad[field] = true
			return
		}
		found[field] = pi
	}
	// a parameter that is itself assigned in the body is not the entry value any more
	assignedParams := map[int]bool{}
	ast.Inspect(fi.Decl.Body, func(n ast.Node) bool {
		switch s := n.(type) {
		case *ast.AssignStmt:
			for i, l := range s.Lhs {
				if pi := paramIdx(l); pi >= 0 {
					assignedParams[pi] = true
				}
				sel, ok := ast.Unparen(l).(*ast.SelectorExpr)
				if !ok {
					continue
				}
				if _, isSlice := underSliceOrString(info.TypeOf(sel)); !isSlice {
					continue
				}
				field := "." + sel.Sel.Name
				if len(s.Rhs) != len(s.Lhs) {
					bad[field] = true
					continue
				}
				se, ok := ast.Unparen(s.Rhs[i]).(*ast.SliceExpr)
				if !ok || se.High != nil || se.Low == nil || exprStr(se.X) != exprStr(sel) {
					bad[field] = true
					continue
				}
				note(field, paramIdx(se.Low))
			}
		case *ast.IncDecStmt:
			if pi := paramIdx(s.X); pi >= 0 {
				assignedParams[pi] = true
			}
		case *ast.CallExpr:
			c := callee(info, s)
			if c == nil {
				return true
			}
			if _, in := ba.funcs[c]; !in {
				return true
			}
			for f := range ba.modField[c] {
				ci, has := ba.shift[c][f]
				if !has || ci >= len(s.Args) {
					bad[f] = true
					continue
				}
				note(f, paramIdx(s.Args[ci]))
			}
		}
		return true
	})
	out := map[string]int{}
	for f, pi := range found {
		if !bad[f] && !assignedParams[pi] {
			out[f] = pi
		}
	}
	return out
}

// linOf converts an integer expression to a linear form.
func (bf *boundsFunc) linOf(e ast.Expr) (lin, bool) {
	info := bf.info
	e = ast.Unparen(e)
	if tv, ok := info.Types[e]; ok && tv.Value != nil {
		v := constant.ToInt(tv.Value)
		if v.Kind() == constant.Int {
			if i, exact := constant.Int64Val(v); exact {
				l := newLin()
				l.c = i
				return l, true
			}
		}
		return lin{}, false
	}
	switch x := e.(type) {
	case *ast.UnaryExpr:
		if x.Op == token.SUB {
			if a, ok := bf.linOf(x.X); ok {
				return newLin().add(a, -1), true
			}
		}
	case *ast.BasicLit:
		// synthetic literal (the 1 of p++ / p--)
		if x.Kind == token.INT {
			if v, err := strconv.ParseInt(x.Value, 0, 64); err == nil {
				l := newLin()
				l.c = v
				return l, true
			}
		}
	case *ast.Ident:
		if v, ok := info.Uses[x].(*types.Var); ok && isIntType(v.Type()) {
			l := newLin()
			l.t["v:"+objKey(v)] = 1
			return l, true
		}
		if v, ok := info.Defs[x].(*types.Var); ok && isIntType(v.Type()) {
			l := newLin()
			l.t["v:"+objKey(v)] = 1
			return l, true
		}
	case *ast.SelectorExpr:
		if isIntType(info.TypeOf(x)) {
			if pk, ok := bf.pathKey(x); ok {
				l := newLin()
				l.t["f:"+pk] = 1
				return l, true
			}
		}
	case *ast.CallExpr:
		if isBuiltinCall(info, x, "len") && len(x.Args) == 1 {
			return bf.lenOf(x.Args[0])
		}
		// conversion int(x) of an integer expression that cannot wrap for in-range values
		if tv, ok := info.Types[x.Fun]; ok && tv.IsType() && len(x.Args) == 1 && isIntType(tv.Type) {
			if b, ok := tv.Type.Underlying().(*types.Basic); ok && (b.Kind() == types.Int || b.Kind() == types.Int64) {
				if at := info.TypeOf(x.Args[0]); at != nil && isIntType(at) {
					if ab, ok := at.Underlying().(*types.Basic); ok {
						// value-preserving: signed source, or an unsigned source narrower than the target
						switch {
						case ab.Info()&types.IsUnsigned == 0:
							return bf.linOf(x.Args[0])
						case ab.Kind() == types.Uint8 || ab.Kind() == types.Uint16 || (ab.Kind() == types.Uint32 && b.Kind() == types.Int64):
							return bf.linOf(x.Args[0])
						}
					}
				}
			}
		}
	case *ast.BinaryExpr:
		switch x.Op {
		case token.ADD, token.SUB:
			a, ok1 := bf.linOf(x.X)
			b, ok2 := bf.linOf(x.Y)
			if ok1 && ok2 {
				k := int64(1)
				if x.Op == token.SUB {
					k = -1
				}
				return a.add(b, k), true
			}
		case token.MUL:
			a, ok1 := bf.linOf(x.X)
			b, ok2 := bf.linOf(x.Y)
			if ok1 && ok2 {
				if len(a.t) == 0 {
					return newLin().add(b, a.c), true
				}
				if len(b.t) == 0 {
					return newLin().add(a, b.c), true
				}
			}
		}
	}
	return lin{}, false
}

func isIntType(t types.Type) bool {
	if t == nil {
		return false
	}
	b, ok := t.Underlying().(*types.Basic)
	return ok && b.Info()&types.IsInteger != 0
}

// pathKey names an addressable path rooted at a local variable / parameter / receiver: l.src, s, l.tag.index.
func (bf *boundsFunc) pathKey(e ast.Expr) (string, bool) {
	e = ast.Unparen(e)
	switch x := e.(type) {
	case *ast.Ident:
		if v, ok := bf.info.Uses[x].(*types.Var); ok {
			return objKey(v), true
		}
		if v, ok := bf.info.Defs[x].(*types.Var); ok {
			return objKey(v), true
		}
	case *ast.SelectorExpr:
		if _, isField := bf.info.Selections[x]; isField {
			if base, ok := bf.pathKey(x.X); ok {
				return base + "." + x.Sel.Name, true
			}
		}
	case *ast.StarExpr:
		return bf.pathKey(x.X)
	}
	return "", false
}

// lenOf returns the linear form of len(e): a len term for a path, or derived for slice expressions / conversions / literals.
func (bf *boundsFunc) lenOf(e ast.Expr) (lin, bool) {
	e = ast.Unparen(e)
	if s, ok := stringValue(bf.info, e); ok {
		l := newLin()
		l.c = int64(len(s))
		return l, true
	}
	if id, ok := e.(*ast.Ident); ok {
		// a package-level []byte("lit") variable never assigned: constant length
		if v, ok := bf.info.Uses[id].(*types.Var); ok && v.Pkg() != nil && v.Parent() == v.Pkg().Scope() {
			if n, ok := bf.constLen(id); ok {
				l := newLin()
				l.c = n
				return l, true
			}
		}
	}
	switch x := e.(type) {
	case *ast.SliceExpr:
		if x.Slice3 {
			return lin{}, false
		}
		var hi lin
		var ok bool
		if x.High != nil {
			hi, ok = bf.linOf(x.High)
		} else {
			hi, ok = bf.lenOf(x.X)
		}
		if !ok {
			return lin{}, false
		}
		if x.Low == nil {
			return hi, true
		}
		lo, ok := bf.linOf(x.Low)
		if !ok {
			return lin{}, false
		}
		return hi.add(lo, -1), true
	case *ast.CallExpr:
		// make([]T, n): length n
		if isBuiltinCall(bf.info, x, "make") && len(x.Args) >= 2 {
			if _, isSlice := bf.info.TypeOf(x).Underlying().(*types.Slice); isSlice {
				return bf.linOf(x.Args[1])
			}
		}
		// string(b) / []byte(s): same length
		if tv, ok := bf.info.Types[x.Fun]; ok && tv.IsType() && len(x.Args) == 1 {
			if _, ok := underSliceOrString(tv.Type); ok {
				if at := bf.info.TypeOf(x.Args[0]); at != nil {
					if _, ok := underSliceOrString(at); ok {
						return bf.lenOf(x.Args[0])
					}
				}
			}
		}
	}
	if pk, ok := bf.pathKey(e); ok {
		l := newLin()
		l.t["len("+pk+")"] = 1
		return l, true
	}
	// package-level []byte("...") / string variables that are never assigned elsewhere are not tracked
	return lin{}, false
}

// factsOfLit turns a branch literal into facts added to s.
func (bf *boundsFunc) factsOfLit(s *bstate, l Lit) {
	if l.Tag != nil {
		if l.Truth {
			// switch f(args) { case c: }: the callee's "unless default" facts
			bf.valueCompareFacts(s, l.Tag, l.Expr)
		}
		// switch tag == value: only integer tags
		a, ok1 := bf.linOf(l.Tag)
		b, ok2 := bf.linOf(l.Expr)
		if ok1 && ok2 && isIntType(bf.info.TypeOf(l.Tag)) {
			d := a.add(b, -1)
			if l.Truth {
				s.addEQ(d)
			} else {
				s.addNE(d)
			}
		}
		return
	}
	e := ast.Unparen(l.Expr)
	switch x := e.(type) {
	case *ast.Ident:
		if pk, ok := bf.pathKey(x); ok {
			if b := s.bv["v:"+pk]; b != nil {
				fs := b.t
				if !l.Truth {
					fs = b.f
				}
				for _, f := range fs {
					s.addLE(f)
				}
			}
		}
	case *ast.BinaryExpr:
		op := x.Op
		if (op == token.LOR && l.Truth) || (op == token.LAND && !l.Truth) {
			bf.disjunction(s, x, l.Truth)
			return
		}
		if !l.Truth {
			switch op {
			case token.EQL:
				op = token.NEQ
			case token.NEQ:
				op = token.EQL
			case token.LSS:
				op = token.GEQ
			case token.LEQ:
				op = token.GTR
			case token.GTR:
				op = token.LEQ
			case token.GEQ:
				op = token.LSS
			default:
				return
			}
		}
		// f(args) == c with c not a default result of f: the facts under which f returns anything else
		if op == token.EQL {
			bf.valueCompareFacts(s, x.X, x.Y)
			bf.valueCompareFacts(s, x.Y, x.X)
		}
		// err == nil / err != nil for an error assigned from a summarised call
		if tv, ok := bf.info.Types[x.Y]; ok && tv.IsNil() && (op == token.EQL || op == token.NEQ) {
			if op == token.NEQ {
				bf.nonNilSliceFacts(s, x.X)
			}
			if pk, ok := bf.pathKey(x.X); ok {
				if b := s.bv["nil:"+pk]; b != nil && op == token.EQL {
					for _, f := range b.t {
						s.addLE(f)
					}
				}
			}
			return
		}
		// string comparisons with "": s != "" / s == ""
		if lt := bf.info.TypeOf(x.X); lt != nil {
			if _, isS := underSliceOrString(lt); isS {
				if sv, ok := stringValue(bf.info, x.Y); ok && sv == "" {
					if ln, ok := bf.lenOf(x.X); ok {
						switch op {
						case token.NEQ:
							s.addNE(ln)
						case token.EQL:
							s.addEQ(ln)
						}
					}
				}
				return
			}
		}
		a, ok1 := bf.linOf(x.X)
		b, ok2 := bf.linOf(x.Y)
		if !ok1 || !ok2 {
			return
		}
		d := a.add(b, -1) // a - b
		switch op {
		case token.LSS: // a - b + 1 ≤ 0
			d.c++
			s.addLE(d)
		case token.LEQ:
			s.addLE(d)
		case token.GTR: // b - a + 1 ≤ 0
			d = newLin().add(d, -1)
			d.c++
			s.addLE(d)
		case token.GEQ:
			s.addLE(newLin().add(d, -1))
		case token.EQL:
			s.addEQ(d)
		case token.NEQ:
			s.addNE(d)
		}
	case *ast.CallExpr:
		if !l.Truth {
			return
		}
		fn := callee(bf.info, x)
		if fn == nil || fn.Pkg() == nil {
			return
		}
		if _, in := bf.ba.funcs[fn]; in {
			bf.predicateFacts(s, x, fn)
			return
		}
		pk := fn.Pkg().Path()
		if pk == "path" && fn.Name() == "IsAbs" && len(x.Args) == 1 {
			// path.IsAbs(p) is len(p) > 0 && p[0] == '/'
			if ln, ok := bf.lenOf(x.Args[0]); ok {
				g := newLin().add(ln, -1)
				g.c++
				s.addLE(g)
			}
		}
		if (pk == "bytes" || pk == "strings") && len(x.Args) == 2 {
			switch fn.Name() {
			case "HasPrefix", "HasSuffix", "Contains":
				ln, ok := bf.lenOf(x.Args[0])
				n, ok2 := bf.constLen(x.Args[1])
				if ok && ok2 && n > 0 {
					// len(arg0) ≥ n  ⇒  n - len ≤ 0
					g := newLin().add(ln, -1)
					g.c += n
					s.addLE(g)
				} else if ok && !ok2 {
					// a non-constant prefix / suffix / substring: len(arg1) ≤ len(arg0)
					if ln1, ok := bf.lenOf(x.Args[1]); ok {
						s.addLE(ln1.add(ln, -1))
					}
				}
			}
		}
	}
}

// constLen returns the length of a constant string or of a package-level []byte("lit") variable.
func (bf *boundsFunc) constLen(e ast.Expr) (int64, bool) {
	if s, ok := stringValue(bf.info, e); ok {
		return int64(len(s)), true
	}
	e = ast.Unparen(e)
	if c, ok := e.(*ast.CallExpr); ok && len(c.Args) == 1 {
		if tv, ok := bf.info.Types[c.Fun]; ok && tv.IsType() {
			return bf.constLen(c.Args[0])
		}
	}
	if id, ok := e.(*ast.Ident); ok {
		if v, ok := bf.info.Uses[id].(*types.Var); ok && v.Pkg() != nil && v.Parent() == v.Pkg().Scope() {
			rel := strings.TrimPrefix(strings.TrimPrefix(v.Pkg().Path(), modulePath), "/")
			if init, _, pk := bf.ba.p.pkgVarInit(rel, v.Name()); init != nil && !bf.ba.pkgVarAssigned(pk.Types, v) {
				if c, ok := init.(*ast.CallExpr); ok && len(c.Args) == 1 {
					if s, ok := stringValue(pk.TypesInfo, c.Args[0]); ok {
						return int64(len(s)), true
					}
				}
			}
		}
	}
	return 0, false
}

var pkgVarAssignedCache = map[*types.Var]bool{}

// pkgVarAssigned reports whether a package-level variable is assigned anywhere outside its declaration.
func (ba *boundsAnalysis) pkgVarAssigned(pk *types.Package, v *types.Var) bool {
	if r, ok := pkgVarAssignedCache[v]; ok {
		return r
	}
	res := false
	for _, p := range ba.p.Pkgs {
		if p.Types != pk {
			continue
		}
		for _, f := range p.Syntax {
			ast.Inspect(f, func(n ast.Node) bool {
				switch s := n.(type) {
				case *ast.AssignStmt:
					for _, l := range s.Lhs {
						if id, ok := ast.Unparen(l).(*ast.Ident); ok && p.TypesInfo.Uses[id] == v {
							res = true
						}
					}
				case *ast.UnaryExpr:
					if s.Op == token.AND {
						if id, ok := ast.Unparen(s.X).(*ast.Ident); ok && p.TypesInfo.Uses[id] == v {
							res = true
						}
					}
				}
				return true
			})
		}
	}
	pkgVarAssignedCache[v] = res
	return res
}

// killVar removes facts about a variable (and len of it, and paths rooted at it).
func killPath(s *bstate, pk string) {
	s.kill(func(t string) bool {
		return t == "v:"+pk || t == "len("+pk+")" || t == "f:"+pk ||
			strings.HasPrefix(t, "len("+pk+".") || strings.HasPrefix(t, "f:"+pk+".") ||
			strings.HasPrefix(t, "v:"+pk+".")
	})
}

// transfer applies the effect of one CFG node.
func (bf *boundsFunc) transfer(s *bstate, n ast.Node) {
	// accesses that were survived, then calls (arguments are evaluated before the assignment takes place)
	bf.accessFacts(s, n)
	bf.applyCalls(s, n)
	switch x := n.(type) {
	case *ast.AssignStmt:
		bf.assign(s, x.Lhs, x.Rhs, x.Tok)
	case *ast.IncDecStmt:
		one := &ast.BasicLit{Kind: token.INT, Value: "1"}
		tok := token.ADD_ASSIGN
		if x.Tok == token.DEC {
			tok = token.SUB_ASSIGN
		}
		bf.assignOp(s, x.X, one, tok, true)
	case *ast.ValueSpec:
		if len(x.Values) == len(x.Names) {
			var lhs []ast.Expr
			for _, id := range x.Names {
				lhs = append(lhs, id)
			}
			bf.assign(s, lhs, x.Values, token.DEFINE)
		} else {
			for _, id := range x.Names {
				if pk, ok := bf.pathKey(id); ok {
					killPath(s, pk)
					if len(x.Values) == 0 && isIntType(bf.info.TypeOf(id)) {
						l := newLin()
						l.t["v:"+pk] = 1
						s.addEQ(l) // zero value
					}
				}
			}
		}
	case *ast.RangeStmt:
		// handled at the loop head (see rangeFacts)
	case *ast.ExprStmt, *ast.ReturnStmt, *ast.DeferStmt, *ast.GoStmt, *ast.SendStmt:
	case ast.Expr:
		// condition expressions: `c := ...` cannot appear; nothing to do
	}
}

func (bf *boundsFunc) assign(s *bstate, lhs, rhs []ast.Expr, tok token.Token) {
	if tok != token.ASSIGN && tok != token.DEFINE {
		if len(lhs) == 1 && len(rhs) == 1 {
			bf.assignOp(s, lhs[0], rhs[0], tok, false)
		}
		return
	}
	if len(lhs) != len(rhs) {
		// multi-value call: kill all, then add result facts
		for _, l := range lhs {
			if pk, ok := bf.pathKey(l); ok {
				killPath(s, pk)
			}
		}
		if len(rhs) == 1 {
			bf.callResultFacts(s, lhs, rhs[0])
			bf.errResultFacts(s, lhs[len(lhs)-1], rhs[0])
		}
		return
	}
	if len(lhs) > 1 {
		// parallel assignment: evaluate all right sides on the old state
		type pend struct {
			pk string
			v  lin
			ok bool
			l  ast.Expr
			r  ast.Expr
		}
		var ps []pend
		for i := range lhs {
			pk, okp := bf.pathKey(lhs[i])
			v, okv := bf.linOf(rhs[i])
			ps = append(ps, pend{pk, v, okp && okv && isIntType(bf.info.TypeOf(lhs[i])), lhs[i], rhs[i]})
		}
		for _, p := range ps {
			if p.pk != "" {
				killPath(s, p.pk)
			}
		}
		for _, p := range ps {
			if p.ok {
				self := "v:" + p.pk
				mentionsAny := false
				for _, q := range ps {
					if p.v.mentions("v:" + q.pk) {
						mentionsAny = true
					}
				}
				if !mentionsAny {
					l := newLin()
					l.t[self] = 1
					s.addEQ(l.add(p.v, -1))
				}
			}
		}
		return
	}
	bf.assign1(s, lhs[0], rhs[0])
}

func (bf *boundsFunc) assign1(s *bstate, l, r ast.Expr) {
	if id, ok := l.(*ast.Ident); ok && id.Name == "_" {
		return
	}
	pk, ok := bf.pathKey(l)
	if !ok {
		// store through an index or unknown path: no tracked term changes (element stores do not change lengths)
		return
	}
	lt := bf.info.TypeOf(l)
	if isIntType(lt) {
		name := "v:" + pk
		if _, isSel := ast.Unparen(l).(*ast.SelectorExpr); isSel {
			name = "f:" + pk
		}
		v, okv := bf.linOf(r)
		if okv {
			if co, self := v.t[name]; self && co == 1 {
				// v = v + d : substitute v := v' - d
				d := v.clone()
				delete(d.t, name)
				repl := newLin()
				repl.t[name] = 1
				repl = repl.add(d, -1)
				s.subst(name, repl)
				return
			} else if self && co == -1 {
				// v = d - v : substitute v := d - v'
				d := v.clone()
				delete(d.t, name)
				repl := newLin()
				repl.t[name] = -1
				s.subst(name, repl.add(d, 1))
				return
			} else if !self {
				killPath(s, pk)
				lf := newLin()
				lf.t[name] = 1
				s.addEQ(lf.add(v, -1))
				return
			}
		}
		before := s.clone() // the arguments are evaluated before the assignment
		killPath(s, pk)
		bf.callResultFacts(s, []ast.Expr{l}, r)
		bf.positionResultFacts(before, s, []ast.Expr{l}, r)
		return
	}
	if _, isS := underSliceOrString(lt); isS {
		name := "len(" + pk + ")"
		// x = x[E:]  ⇒  len(x) := len(x') + E
		if se, ok := ast.Unparen(r).(*ast.SliceExpr); ok && !se.Slice3 {
			if bk, ok := bf.pathKey(se.X); ok && bk == pk && se.High == nil && se.Low != nil {
				if e, ok := bf.linOf(se.Low); ok && !e.mentions(name) {
					repl := newLin()
					repl.t[name] = 1
					s.subst(name, repl.add(e, 1))
					return
				}
			}
		}
		ln, okl := bf.lenOf(r)
		killPath(s, pk)
		if okl && !ln.mentions(name) {
			lf := newLin()
			lf.t[name] = 1
			s.addEQ(lf.add(ln, -1))
		}
		return
	}
	killPath(s, pk)
	bf.errResultFacts(s, l, r)
	if b, ok := lt.Underlying().(*types.Basic); ok && b.Info()&types.IsBoolean != 0 {
		if _, isIdent := ast.Unparen(l).(*ast.Ident); isIdent {
			bf.boolAssign(s, pk, r)
		}
	}
}

func (bf *boundsFunc) assignOp(s *bstate, l, r ast.Expr, tok token.Token, _ bool) {
	pk, ok := bf.pathKey(l)
	if !ok {
		return
	}
	if !isIntType(bf.info.TypeOf(l)) {
		killPath(s, pk)
		return
	}
	name := "v:" + pk
	if _, isSel := ast.Unparen(l).(*ast.SelectorExpr); isSel {
		name = "f:" + pk
	}
	d, okd := bf.linOf(r)
	if !okd || d.mentions(name) || (tok != token.ADD_ASSIGN && tok != token.SUB_ASSIGN) {
		killPath(s, pk)
		return
	}
	repl := newLin()
	repl.t[name] = 1
	if tok == token.ADD_ASSIGN {
		repl = repl.add(d, -1) // v = v' - d
	} else {
		repl = repl.add(d, 1)
	}
	s.subst(name, repl)
}

// callResultFacts adds facts about the results of well-known search functions.
func (bf *boundsFunc) callResultFacts(s *bstate, lhs []ast.Expr, r ast.Expr) {
	c, ok := ast.Unparen(r).(*ast.CallExpr)
	off := int64(0) // v = call + off
	if !ok {
		// v = bytes.LastIndexByte(x, c) + 1
		if be, isBin := ast.Unparen(r).(*ast.BinaryExpr); isBin && (be.Op == token.ADD || be.Op == token.SUB) && len(lhs) == 1 {
			if k, isK := intValue(bf.info, be.Y); isK {
				if cc, isCall := ast.Unparen(be.X).(*ast.CallExpr); isCall {
					c, ok = cc, true
					off = k
					if be.Op == token.SUB {
						off = -k
					}
				}
			}
		}
		if !ok {
			return
		}
		if fn := callee(bf.info, c); fn == nil || fn.Pkg() == nil || !(fn.Pkg().Path() == "bytes" || fn.Pkg().Path() == "strings") || !strings.Contains(fn.Name(), "Index") {
			return
		}
	}
	fn := callee(bf.info, c)
	if fn == nil || fn.Pkg() == nil {
		return
	}
	pk := fn.Pkg().Path()
	resName := func(i int) (string, bool) {
		if i >= len(lhs) {
			return "", false
		}
		if id, ok := lhs[i].(*ast.Ident); ok && id.Name == "_" {
			return "", false
		}
		k, ok := bf.pathKey(lhs[i])
		if !ok || !isIntType(bf.info.TypeOf(lhs[i])) {
			return "", false
		}
		return "v:" + k, true
	}
	switch {
	case (pk == "bytes" || pk == "strings") && strings.HasPrefix(fn.Name(), "Index") || strings.HasPrefix(fn.Name(), "LastIndex") && (pk == "bytes" || pk == "strings"):
		if len(c.Args) < 2 {
			return
		}
		name, ok := resName(0)
		ln, ok2 := bf.lenOf(c.Args[0])
		if !ok || !ok2 {
			return
		}
		// -1 ≤ i  and  i + w ≤ len(arg) where w = len(sep) for Index/LastIndex with constant sep, else 1
		w := int64(1)
		if fn.Name() == "Index" || fn.Name() == "LastIndex" {
			if n, ok := bf.constLen(c.Args[1]); ok && n > 0 {
				w = n
			} else {
				w = 0
			}
		}
		lo := newLin()
		lo.t[name] = -1
		lo.c = -1 + off
		s.addLE(lo) // -(v - off) - 1 ≤ 0
		up := newLin()
		up.t[name] = 1
		up = up.add(ln, -1)
		up.c += w - off
		s.addLE(up) // (v - off) + w - len ≤ 0
	case (pk == "strings" || pk == "bytes") && (fn.Name() == "CutPrefix" || fn.Name() == "CutSuffix") && len(c.Args) == 2 && len(lhs) == 2:
		// rest, ok := CutPrefix(s, p): when ok, len(rest) + len(p) == len(s); always len(rest) ≤ len(s)
		restK, okr := bf.pathKey(lhs[0])
		okK, okb := bf.pathKey(lhs[1])
		ls, ok1 := bf.lenOf(c.Args[0])
		lp, ok2 := bf.lenOf(c.Args[1])
		if !okr || !ok1 {
			return
		}
		rest := newLin()
		rest.t["len("+restK+")"] = 1
		s.addLE(rest.add(ls, -1)) // len(rest) - len(s) ≤ 0
		if okb && ok2 {
			eq := rest.add(lp, 1).add(ls, -1) // len(rest) + len(p) - len(s)
			s.bv["v:"+okK] = &boolFacts{t: []lin{eq, newLin().add(eq, -1)}}
		}
	case pk == "unicode/utf8" && (fn.Name() == "DecodeRune" || fn.Name() == "DecodeRuneInString" || fn.Name() == "DecodeLastRune" || fn.Name() == "DecodeLastRuneInString"):
		if len(c.Args) != 1 {
			return
		}
		name, ok := resName(1)
		ln, ok2 := bf.lenOf(c.Args[0])
		if !ok || !ok2 {
			return
		}
		lo := newLin()
		lo.t[name] = -1
		s.addLE(lo) // -size ≤ 0
		up := newLin()
		up.t[name] = 1
		s.addLE(up.add(ln, -1)) // size - len ≤ 0
	}
}

// applyCalls kills / shifts facts for calls to functions that may re-assign a tracked slice field.
func (bf *boundsFunc) applyCalls(s *bstate, n ast.Node) {
	ast.Inspect(n, func(m ast.Node) bool {
		if _, ok := m.(*ast.FuncLit); ok {
			return false
		}
		c, ok := m.(*ast.CallExpr)
		if !ok {
			return true
		}
		if tv, ok := bf.info.Types[c.Fun]; ok && (tv.IsType() || tv.IsBuiltin()) {
			return true
		}
		fn := callee(bf.info, c)
		if fn == nil {
			// dynamic call: may do anything to fields reachable from the receiver
			s.kill(func(t string) bool {
				return strings.Contains(t, ".") && (strings.HasPrefix(t, "len(") || strings.HasPrefix(t, "f:"))
			})
			return true
		}
		mod := bf.ba.modField[fn]
		if _, in := bf.ba.funcs[fn]; !in {
			// functions outside the analysed set: standard library and helpers. They cannot re-assign a
			// slice held in a local or in a field unless given its address; methods of the same receiver
			// type that are outside the set are treated as modifying every field.
			if sel, ok := c.Fun.(*ast.SelectorExpr); ok {
				if rk, ok := bf.pathKey(sel.X); ok && fn.Pkg() != nil && strings.HasPrefix(fn.Pkg().Path(), modulePath) {
					s.kill(func(t string) bool { return strings.HasPrefix(t, "len("+rk+".") || strings.HasPrefix(t, "f:"+rk+".") })
				}
			}
			for _, a := range c.Args {
				if u, ok := ast.Unparen(a).(*ast.UnaryExpr); ok && u.Op == token.AND {
					if pk, ok := bf.pathKey(u.X); ok {
						killPath(s, pk)
					}
				}
			}
			return true
		}
		// receiver or pointer arguments through which fields can be assigned
		var roots []string
		if sel, ok := c.Fun.(*ast.SelectorExpr); ok {
			if rk, ok := bf.pathKey(sel.X); ok {
				roots = append(roots, rk)
			}
		}
		for _, a := range c.Args {
			if at := bf.info.TypeOf(a); at != nil {
				if _, isPtr := at.Underlying().(*types.Pointer); isPtr {
					if rk, ok := bf.pathKey(a); ok {
						roots = append(roots, rk)
					}
				}
			}
		}
		handled := map[string]bool{}
		if len(roots) > 0 {
			for f, pi := range bf.ba.shift[fn] {
				if pi >= len(c.Args) || c.Ellipsis.IsValid() {
					continue
				}
				arg, ok := bf.linOf(c.Args[pi])
				if !ok {
					continue
				}
				if nonneg, _ := s.proves(newLin().add(arg, -1)); !nonneg {
					continue
				}
				name := "len(" + roots[0] + f + ")"
				if arg.mentions(name) {
					continue
				}
				repl := newLin()
				repl.t[name] = 1
				s.subst(name, repl.add(arg, 1))
				handled[f] = true
			}
		}
		for _, rk := range roots {
			for f := range mod {
				if handled[f] && rk == roots[0] {
					continue
				}
				killPath(s, rk+f)
			}
			s.kill(func(t string) bool { return strings.HasPrefix(t, "f:"+rk+".") })
		}
		return true
	})
}

// run performs the forward must-analysis to a fixpoint.
func (bf *boundsFunc) run() {
	g := bf.cfg.G
	bf.in = map[*cfg.Block]*bstate{}
	entry := newState()
	for _, p := range bf.pre {
		entry.addLE(p)
	}
	bf.in[g.Blocks[0]] = entry
	prevInterest := meetInterest
	meetInterest = bf.interest()
	defer func() { meetInterest = prevInterest }()
	visits := map[*cfg.Block]int{}
	edgeOut := map[*cfg.Block]map[*cfg.Block]*bstate{}
	work := []*cfg.Block{g.Blocks[0]}
	for len(work) > 0 {
		b := work[0]
		work = work[1:]
		st := bf.in[b].clone()
		for _, n := range b.Nodes {
			bf.transfer(st, n)
		}
		for i, succ := range b.Succs {
			out := st.clone()
			for _, l := range bf.cfg.edgeLits(b, i) {
				bf.factsOfLit(out, l)
			}
			bf.rangeFacts(out, b, i)
			bf.rangeEntry(out, b, succ)
			if n, key, entry := bf.constRange(succ); n >= 1 && b != entry {
				// back edge into a `for i := range N` head with constant N: remember the state; the exit
				// is taken only after the iteration i == N-1 completed (see below)
				if edgeOut[succ] == nil {
					edgeOut[succ] = map[*cfg.Block]*bstate{}
				}
				if prev := edgeOut[succ][b]; prev == nil || !prev.equal(out) {
					edgeOut[succ][b] = out.clone()
					if _, seen := bf.in[succ]; seen {
						work = append(work, succ)
					}
				}
				_ = key
			}
			if n, key, _ := bf.constRange(b); n >= 1 && i == 1 {
				// exit edge of a constant-count range loop: meet of the back-edge states with key == N-1
				var ex *bstate
				for _, bs := range edgeOut[b] {
					c := bs.clone()
					l := newLin()
					l.t["v:"+key] = 1
					l.c = -(n - 1)
					c.addEQ(l)
					if ex == nil {
						ex = c
					} else {
						ex = meet(ex, c)
					}
				}
				if ex == nil {
					continue // no completed iteration reaches the head yet
				}
				out = ex
			}
			old, seen := bf.in[succ]
			var nw *bstate
			if !seen {
				nw = out
			} else {
				nw = meet(old, out)
				if visits[succ] > 6 && (succ.Kind == cfg.KindForLoop || succ.Kind == cfg.KindRangeLoop || succ.Kind == cfg.KindLabel || visits[succ] > 40) {
					// widening: drop facts whose constant keeps changing
					for k, f := range nw.le {
						if o, ok := old.le[k]; ok && o.c != f.c {
							delete(nw.le, k)
						}
					}
				}
			}
			if !seen || !nw.equal(old) {
				bf.in[succ] = nw
				visits[succ]++
				work = append(work, succ)
			}
		}
	}
}

// rangeFacts: on the edge into a range body, 0 ≤ key < len(X) (or < n for range-over-int).
func (bf *boundsFunc) rangeFacts(s *bstate, b *cfg.Block, i int) {
	if b.Kind != cfg.KindRangeLoop || i != 0 {
		return
	}
	rs, ok := b.Stmt.(*ast.RangeStmt)
	if !ok {
		return
	}
	// the key/value variables are re-assigned on each iteration
	if rs.Value != nil {
		if pk, ok := bf.pathKey(rs.Value); ok {
			killPath(s, pk)
		}
	}
	if rs.Key == nil {
		return
	}
	kk, ok := bf.pathKey(rs.Key)
	if !ok {
		return
	}
	if !isIntType(bf.info.TypeOf(rs.Key)) {
		killPath(s, kk)
		return
	}
	if bf.rangeKeyCounts(rs) {
		// the key counts the iterations: new key = previous key + 1 (it is -1 on the entry edge)
		name := "v:" + kk
		repl := newLin()
		repl.t[name] = 1
		repl.c = -1
		s.subst(name, repl)
	} else {
		killPath(s, kk)
	}
	var upper lin
	xt := bf.info.TypeOf(rs.X)
	if isIntType(xt) {
		upper, ok = bf.linOf(rs.X)
	} else if _, isS := underSliceOrString(xt); isS {
		upper, ok = bf.lenOf(rs.X)
	} else {
		ok = false
	}
	name := "v:" + kk
	lo := newLin()
	lo.t[name] = -1
	s.addLE(lo)
	if ok && !upper.mentions(name) {
		up := newLin()
		up.t[name] = 1
		up = up.add(upper, -1)
		up.c++
		s.addLE(up)
	}
}

// stateAt computes the facts holding just before CFG node index idx of block b, plus short-circuit literals of site.
func (bf *boundsFunc) stateAt(site ast.Node) *bstate {
	b, idx := bf.cfg.Locate(site)
	if b == nil || bf.in[b] == nil {
		return nil // unreachable code
	}
	st := bf.in[b].clone()
	for i := 0; i < idx; i++ {
		bf.transfer(st, b.Nodes[i])
	}
	// within the node: calls evaluated before the site in the same statement may kill facts;
	// conservatively apply the calls of the node that end before the site.
	node := b.Nodes[idx]
	ast.Inspect(node, func(m ast.Node) bool {
		if c, ok := m.(*ast.CallExpr); ok && c.End() <= site.Pos() {
			bf.applyCalls(st, c)
		}
		return true
	})
	for _, l := range bf.cfg.within(site) {
		bf.factsOfLit(st, l)
	}
	return st
}

// sites enumerates the index/slice expressions on []byte / string values in the function and their goals.
func (bf *boundsFunc) sites() []*boundsSite {
	var out []*boundsSite
	var walk func(n ast.Node)
	walk = func(n ast.Node) {
		ast.Inspect(n, func(m ast.Node) bool {
			switch x := m.(type) {
			case *ast.FuncLit:
				return false
			case *ast.IndexExpr:
				if !isByteSeq(bf.info.TypeOf(x.X)) {
					return true
				}
				if tv, ok := bf.info.Types[x.X]; ok && tv.Value != nil {
					return true // constant string indexed: checked by the compiler when the index is constant
				}
				st := &boundsSite{Fn: bf.fi, Node: x, Desc: exprStr(x)}
				ln, ok1 := bf.lenOf(x.X)
				e, ok2 := bf.linOf(x.Index)
				if ok1 && ok2 {
					g := e.add(ln, -1)
					g.c++
					st.Goals = append(st.Goals, g)
					st.GoalDs = append(st.GoalDs, exprStr(x.Index)+" < len("+exprStr(x.X)+")")
					if bf.needsLowerBound(e, x.Index) {
						st.Goals = append(st.Goals, newLin().add(e, -1))
						st.GoalDs = append(st.GoalDs, "0 <= "+exprStr(x.Index))
					}
				} else {
					st.Goals = nil
					st.GoalDs = []string{"not linear: " + exprStr(x)}
				}
				out = append(out, st)
			case *ast.SliceExpr:
				if !isByteSeq(bf.info.TypeOf(x.X)) || x.Slice3 {
					return true
				}
				if x.Low == nil && x.High == nil {
					return true
				}
				st := &boundsSite{Fn: bf.fi, Node: x, Desc: exprStr(x)}
				ln, ok := bf.lenOf(x.X)
				bad := !ok
				var lo, hi lin
				if x.Low != nil {
					var ok bool
					if lo, ok = bf.linOf(x.Low); !ok {
						bad = true
					}
				}
				if x.High != nil {
					var ok bool
					if hi, ok = bf.linOf(x.High); !ok {
						bad = true
					}
				}
				if bad {
					st.GoalDs = []string{"not linear: " + exprStr(x)}
					out = append(out, st)
					return true
				}
				_, isStr := bf.info.TypeOf(x.X).Underlying().(*types.Basic)
				_ = isStr
				if x.High != nil {
					st.Goals = append(st.Goals, hi.add(ln, -1))
					st.GoalDs = append(st.GoalDs, exprStr(x.High)+" <= len("+exprStr(x.X)+")")
					if x.Low != nil {
						st.Goals = append(st.Goals, lo.add(hi, -1))
						st.GoalDs = append(st.GoalDs, exprStr(x.Low)+" <= "+exprStr(x.High))
						st.TwoSym = len(lo.t) > 0 && len(hi.t) > 0
					}
				} else {
					st.Goals = append(st.Goals, lo.add(ln, -1))
					st.GoalDs = append(st.GoalDs, exprStr(x.Low)+" <= len("+exprStr(x.X)+")")
				}
				if x.Low != nil && bf.needsLowerBound(lo, x.Low) {
					st.Goals = append(st.Goals, newLin().add(lo, -1))
					st.GoalDs = append(st.GoalDs, "0 <= "+exprStr(x.Low))
				}
				out = append(out, st)
			}
			return true
		})
	}
	walk(bf.fi.Decl.Body)
	return out
}

// needsLowerBound reports whether 0 <= e has to be proved: not when the expression has an unsigned type,
// nor when it is a non-negative combination of lengths and a non-negative constant.
func (bf *boundsFunc) needsLowerBound(l lin, e ast.Expr) bool {
	if t := bf.info.TypeOf(e); t != nil {
		if b, ok := t.Underlying().(*types.Basic); ok && b.Info()&types.IsUnsigned != 0 {
			return false
		}
	}
	if l.c < 0 {
		return true
	}
	for _, v := range l.t {
		if v < 0 {
			return true
		}
	}
	// a variable of the index that is somewhere in the function assigned a difference, decremented, or
	// given the result of a search that can be -1 may be negative: the lower bound is then an obligation.
	// (Stated assumption otherwise: integer parameters and counters only ever incremented are not
	// negative when used as an index.)
	neg := false
	ast.Inspect(e, func(m ast.Node) bool {
		id, ok := m.(*ast.Ident)
		if !ok {
			return true
		}
		obj := bf.info.Uses[id]
		if obj == nil {
			return true
		}
		if bf.mayGoNegative(obj) {
			neg = true
		}
		return true
	})
	return neg
}

func (bf *boundsFunc) mayGoNegative(obj types.Object) bool {
	if bf.negCache == nil {
		bf.negCache = map[types.Object]bool{}
	}
	if v, ok := bf.negCache[obj]; ok {
		return v
	}
	bf.negCache[obj] = false
	res := false
	subtracts := func(e ast.Expr) bool {
		found := false
		ast.Inspect(e, func(m ast.Node) bool {
			switch x := m.(type) {
			case *ast.BinaryExpr:
				if x.Op == token.SUB {
					found = true
				}
			case *ast.UnaryExpr:
				if x.Op == token.SUB {
					found = true
				}
			case *ast.CallExpr:
				if f := callee(bf.info, x); f != nil && f.Pkg() != nil && (f.Pkg().Path() == "bytes" || f.Pkg().Path() == "strings") && strings.Contains(f.Name(), "Index") {
					found = true
				}
				return false // other calls: their arguments do not make the result negative
			}
			return true
		})
		return found
	}
	ast.Inspect(bf.fi.Decl.Body, func(m ast.Node) bool {
		switch s := m.(type) {
		case *ast.AssignStmt:
			for i, l := range s.Lhs {
				if objOfIdent(bf.info, l) != obj {
					continue
				}
				if s.Tok == token.SUB_ASSIGN {
					res = true
				}
				if len(s.Lhs) == len(s.Rhs) && subtracts(s.Rhs[i]) {
					res = true
				}
			}
		case *ast.IncDecStmt:
			if s.Tok == token.DEC && objOfIdent(bf.info, s.X) == obj {
				res = true
			}
		}
		return true
	})
	bf.negCache[obj] = res
	return res
}

func hasNegative(l lin) bool {
	if l.c < 0 {
		return true
	}
	for _, v := range l.t {
		if v < 0 {
			return true
		}
	}
	return false
}

// analyse runs the dataflow for fi under the given preconditions and evaluates every site.
func (ba *boundsAnalysis) analyse(fi *FuncInfo, pre []lin) []*boundsSite {
	bf := &boundsFunc{ba: ba, fi: fi, info: fi.Pkg.TypesInfo, cfg: ba.p.CFGOf(fi), pre: pre}
	bf.run()
	ba.results[fi.Obj] = bf
	if os.Getenv("BOUNDS_DEBUG") == fi.Decl.Name.Name {
		for _, b := range bf.cfg.G.Blocks {
			if !b.Live {
				continue
			}
			fmt.Fprintf(os.Stderr, "block %d %s L%d succs=%v\n  in: %s\n", b.Index, b.Kind, ba.p.Fset.Position(blockPos(b)).Line, succIdx(b), factList(bf.in[b]))
			for _, n := range b.Nodes {
				fmt.Fprintf(os.Stderr, "    node L%d %T\n", ba.p.Fset.Position(n.Pos()).Line, n)
			}
		}
	}
	sites := bf.sites()
	for _, st := range sites {
		s := bf.stateAt(st.Node)
		st.state = s
		st.Proved = make([]bool, len(st.Goals))
		st.Facts = make([]string, len(st.Goals))
		if s == nil {
			for i := range st.Goals {
				st.Proved[i] = true
				st.Facts[i] = "unreachable code"
			}
			continue
		}
		for i, g := range st.Goals {
			st.Proved[i], st.Facts[i] = s.proves(g)
		}
	}
	return sites
}

// liftable reports whether every term of goal is rooted at a parameter or the receiver of fi; it returns
// the goal unchanged (term names are object-based so they are meaningful only inside fi) plus a
// translation function for call sites.
func (bf *boundsFunc) paramRoots() map[string]int {
	roots := map[string]int{} // objKey -> parameter index (receiver = -1)
	sig := bf.fi.Obj.Type().(*types.Signature)
	if r := sig.Recv(); r != nil {
		roots[objKey(r)] = -1
	}
	for i := 0; i < sig.Params().Len(); i++ {
		roots[objKey(sig.Params().At(i))] = i
	}
	return roots
}

// termRoot splits a term name into (kind, rootKey, rest).
func termRoot(t string) (kind, root, rest string) {
	switch {
	case strings.HasPrefix(t, "v:"):
		kind, t = "v", t[2:]
	case strings.HasPrefix(t, "f:"):
		kind, t = "f", t[2:]
	case strings.HasPrefix(t, "len("):
		kind, t = "len", t[4:len(t)-1]
	}
	if i := strings.IndexByte(t, '.'); i >= 0 {
		return kind, t[:i], t[i:]
	}
	return kind, t, ""
}

// paramsAssigned reports whether any parameter appearing in the goal is assigned in the function
// before the site on some path — then the goal at the site is not a statement about the entry values.
func (bf *boundsFunc) rootsUnmodified(goal lin) bool {
	roots := bf.paramRoots()
	for t := range goal.t {
		_, root, rest := termRoot(t)
		if _, ok := roots[root]; !ok {
			return false
		}
		_ = rest
	}
	return true
}
