package main

// C07 — escaped values decode back to the exact original text.
//
// R-1 escape tables (E9): every entry of the CSS and JS/JSON string escape tables, every
//     `case c: esc = lit` of the HTML/attribute/URL escapers and the percent triple of the URL
//     escapers decodes, with the context's standard decoder, to exactly the byte it replaces.
// R-2 terminator class (E2): the byte class after which the CSS escaper inserts a space contains
//     every byte a CSS hex escape would swallow (hex digits and CSS white space); the look-ahead
//     class that lets "%XX" through in the path escaper is exactly the hex digits.
// R-3 pass-through classes (E2): the set of bytes each escaper may copy unescaped, computed from the
//     syntax by a tiny path walker over the loop body (one variable, finite domain), stays inside /
//     outside the frozen classes of the target language.
//
// Nothing of /repo is executed: the walker interprets comparisons of ONE byte/rune variable with
// constants, look-ups in literal tables read from the source, assignments of constant strings to
// locals, if/switch/continue. html.UnescapeString of the Go standard library is applied to string
// literals read from the source.

import (
	"fmt"
	"go/ast"
	"go/constant"
	"go/token"
	"go/types"
	"html"
	"sort"
	"strings"
)

// ---------------------------------------------------------------------------
// values

type c07Val struct {
	k int // 0 unknown, 1 int, 2 bool, 3 string
	i int64
	b bool
	s string
}

var c07Unknown = c07Val{}

func c07Int(i int64) c07Val  { return c07Val{k: 1, i: i} }
func c07Bool(b bool) c07Val  { return c07Val{k: 2, b: b} }
func c07Str(s string) c07Val { return c07Val{k: 3, s: s} }
func (v c07Val) known() bool { return v.k != 0 }
func (v c07Val) String() string {
	switch v.k {
	case 1:
		return fmt.Sprint(v.i)
	case 2:
		return fmt.Sprint(v.b)
	case 3:
		return fmt.Sprintf("%q", v.s)
	}
	return "?"
}

func c07FromConst(cv constant.Value) c07Val {
	switch cv.Kind() {
	case constant.Bool:
		return c07Bool(constant.BoolVal(cv))
	case constant.String:
		return c07Str(constant.StringVal(cv))
	case constant.Int:
		if i, ok := constant.Int64Val(cv); ok {
			return c07Int(i)
		}
	case constant.Float:
		if iv := constant.ToInt(cv); iv.Kind() == constant.Int {
			if i, ok := constant.Int64Val(iv); ok {
				return c07Int(i)
			}
		}
	}
	return c07Unknown
}

// c07Wrap applies the wrap-around of a sized integer type.
func c07Wrap(t types.Type, v int64) int64 {
	if t == nil {
		return v
	}
	b, ok := t.Underlying().(*types.Basic)
	if !ok {
		return v
	}
	switch b.Kind() {
	case types.Uint8:
		return int64(uint8(v))
	case types.Uint16:
		return int64(uint16(v))
	case types.Uint32:
		return int64(uint32(v))
	case types.Int8:
		return int64(int8(v))
	case types.Int16:
		return int64(int16(v))
	case types.Int32:
		return int64(int32(v))
	}
	return v
}

// c07Table is a package-level []string / [N]string variable initialised by a keyed literal.
type c07Table struct {
	obj   *types.Var
	name  string
	elems map[int64]string // constant string elements
	pos   map[int64]token.Pos
	n     int64 // length
	ok    bool  // every element is a constant string and the variable is never assigned
	why   string
}

// ---------------------------------------------------------------------------
// walker

type c07Walker struct {
	p      *Prog
	info   *types.Info
	rel    string
	tables map[*types.Var]*c07Table
	// the current byte
	subj     *types.Var // the string being escaped
	idx      types.Object
	cur      int64
	curVars  map[types.Object]bool // locals holding the current byte (c := s[i]; range value)
	undec    string                // first construct the walker did not understand
	paths    int
	depth    int
	predMemo map[*types.Func]map[int64]c07Val
}

type c07Effect struct {
	node    ast.Node
	kind    string // call | store | store-verbatim | assign | incdec
	obj     types.Object
	idxVars []types.Object
}

type c07State struct {
	env map[types.Object]c07Val
	eff []c07Effect
}

func (s *c07State) clone() *c07State {
	n := &c07State{env: make(map[types.Object]c07Val, len(s.env)+2), eff: append([]c07Effect(nil), s.eff...)}
	for k, v := range s.env {
		n.env[k] = v
	}
	return n
}

const (
	c07Normal = iota
	c07Continue
	c07Break
	c07Return
	c07Fallthrough
)

type c07Out struct {
	st  *c07State
	how int
	ret *ast.ReturnStmt
	val []c07Val
}

func (w *c07Walker) fail(format string, a ...any) {
	if w.undec == "" {
		w.undec = fmt.Sprintf(format, a...)
	}
}

func (w *c07Walker) objOf(id *ast.Ident) types.Object {
	if o := w.info.Uses[id]; o != nil {
		return o
	}
	return w.info.Defs[id]
}

// isCur reports whether e denotes the current byte syntactically: subj[idx].
func (w *c07Walker) isCur(e ast.Expr) bool {
	ix, ok := ast.Unparen(e).(*ast.IndexExpr)
	if !ok || w.subj == nil || w.idx == nil {
		return false
	}
	x, ok1 := ast.Unparen(ix.X).(*ast.Ident)
	i, ok2 := ast.Unparen(ix.Index).(*ast.Ident)
	return ok1 && ok2 && w.objOf(x) == w.subj && w.objOf(i) == w.idx
}

func (w *c07Walker) tableOf(e ast.Expr) *c07Table {
	id, ok := ast.Unparen(e).(*ast.Ident)
	if !ok {
		return nil
	}
	v, ok := w.objOf(id).(*types.Var)
	if !ok {
		return nil
	}
	if t, ok := w.tables[v]; ok {
		return t
	}
	t := c07LoadTable(w.p, v)
	w.tables[v] = t
	return t
}

// c07LoadTable reads a package-level string table from its declaration.
func c07LoadTable(p *Prog, v *types.Var) *c07Table {
	if v == nil || v.Pkg() == nil || v.Parent() != v.Pkg().Scope() {
		return nil
	}
	var elem types.Type
	switch u := v.Type().Underlying().(type) {
	case *types.Slice:
		elem = u.Elem()
	case *types.Array:
		elem = u.Elem()
	default:
		return nil
	}
	if b, ok := elem.Underlying().(*types.Basic); !ok || b.Kind() != types.String {
		return nil
	}
	rel := strings.TrimPrefix(strings.TrimPrefix(v.Pkg().Path(), modulePath), "/")
	init, vv, pk := p.pkgVarInit(rel, v.Name())
	if pk == nil || vv != v {
		return nil
	}
	t := &c07Table{obj: v, name: relOf(v.Pkg()) + "." + v.Name(), elems: map[int64]string{}, pos: map[int64]token.Pos{}, ok: true}
	lit, ok := init.(*ast.CompositeLit)
	if !ok {
		t.ok, t.why = false, "not initialised by a composite literal"
		return t
	}
	elts, ok := keyedElems(pk.TypesInfo, lit)
	if !ok {
		t.ok, t.why = false, "non-constant key"
		return t
	}
	for k, e := range elts {
		s, ok := stringValue(pk.TypesInfo, e)
		if !ok {
			t.ok, t.why = false, fmt.Sprintf("element %d is not a constant string", k)
			continue
		}
		t.elems[k] = s
		t.pos[k] = e.Pos()
		if k+1 > t.n {
			t.n = k + 1
		}
	}
	if a, ok := v.Type().Underlying().(*types.Array); ok {
		t.n = a.Len()
	}
	// the variable must never be assigned, indexed-assigned or address-taken in its package
	for _, f := range pk.Syntax {
		ast.Inspect(f, func(n ast.Node) bool {
			mark := func(e ast.Expr) {
				for {
					switch x := ast.Unparen(e).(type) {
					case *ast.IndexExpr:
						e = x.X
						continue
					case *ast.SliceExpr:
						e = x.X
						continue
					case *ast.Ident:
						if pk.TypesInfo.Uses[x] == v {
							t.ok, t.why = false, "the table is written at "+p.Pos(x.Pos())
						}
					}
					return
				}
			}
			switch x := n.(type) {
			case *ast.AssignStmt:
				for _, l := range x.Lhs {
					mark(l)
				}
			case *ast.IncDecStmt:
				mark(x.X)
			case *ast.UnaryExpr:
				if x.Op == token.AND {
					mark(x.X)
				}
			}
			return true
		})
	}
	return t
}

// pure reports whether evaluating e has no effect and calls nothing but conversions, len and
// module byte predicates.
func (w *c07Walker) pure(e ast.Expr) bool {
	ok := true
	ast.Inspect(e, func(n ast.Node) bool {
		switch x := n.(type) {
		case *ast.FuncLit:
			ok = false
		case *ast.UnaryExpr:
			if x.Op == token.ARROW {
				ok = false
			}
		case *ast.CallExpr:
			if tv, has := w.info.Types[x.Fun]; has && tv.IsType() {
				return true
			}
			if isBuiltinCall(w.info, x, "len") {
				return true
			}
			if c07IsBytePred(callee(w.info, x)) {
				return true
			}
			ok = false
		}
		return ok
	})
	return ok
}

// c07IsBytePred: a module function func(byte|rune) bool.
func c07IsBytePred(fn *types.Func) bool {
	if fn == nil || fn.Pkg() == nil || !strings.HasPrefix(fn.Pkg().Path(), modulePath) {
		return false
	}
	sig := fn.Type().(*types.Signature)
	if sig.Recv() != nil || sig.Params().Len() != 1 || sig.Results().Len() != 1 {
		return false
	}
	pb, ok1 := sig.Params().At(0).Type().Underlying().(*types.Basic)
	rb, ok2 := sig.Results().At(0).Type().Underlying().(*types.Basic)
	return ok1 && ok2 && (pb.Kind() == types.Uint8 || pb.Kind() == types.Int32) && rb.Kind() == types.Bool
}

func (w *c07Walker) eval(e ast.Expr, st *c07State) c07Val {
	if tv, ok := w.info.Types[e]; ok && tv.Value != nil {
		return c07FromConst(tv.Value)
	}
	switch x := e.(type) {
	case *ast.ParenExpr:
		return w.eval(x.X, st)
	case *ast.Ident:
		if o := w.objOf(x); o != nil {
			if v, ok := st.env[o]; ok {
				return v
			}
		}
		return c07Unknown
	case *ast.IndexExpr:
		if w.isCur(x) {
			return c07Int(w.cur)
		}
		iv := w.eval(x.Index, st)
		if tv, ok := w.info.Types[x.X]; ok && tv.Value != nil && tv.Value.Kind() == constant.String {
			s := constant.StringVal(tv.Value)
			if iv.k == 1 && iv.i >= 0 && iv.i < int64(len(s)) {
				return c07Int(int64(s[iv.i]))
			}
			return c07Unknown
		}
		if t := w.tableOf(x.X); t != nil {
			if !t.ok {
				w.fail("table %s: %s", t.name, t.why)
				return c07Unknown
			}
			if iv.k == 1 && iv.i >= 0 && iv.i < t.n {
				return c07Str(t.elems[iv.i])
			}
		}
		return c07Unknown
	case *ast.CallExpr:
		if tv, ok := w.info.Types[x.Fun]; ok && tv.IsType() && len(x.Args) == 1 {
			v := w.eval(x.Args[0], st)
			if v.k == 1 {
				if b, ok := tv.Type.Underlying().(*types.Basic); ok && b.Info()&types.IsInteger != 0 {
					return c07Int(c07Wrap(tv.Type, v.i))
				}
			}
			return c07Unknown
		}
		if isBuiltinCall(w.info, x, "len") && len(x.Args) == 1 {
			if t := w.tableOf(x.Args[0]); t != nil {
				if !t.ok {
					w.fail("table %s: %s", t.name, t.why)
					return c07Unknown
				}
				return c07Int(t.n)
			}
			return c07Unknown
		}
		if fn := callee(w.info, x); c07IsBytePred(fn) && len(x.Args) == 1 {
			if a := w.eval(x.Args[0], st); a.k == 1 {
				return w.predValue(fn, a.i)
			}
		}
		return c07Unknown
	case *ast.UnaryExpr:
		v := w.eval(x.X, st)
		switch {
		case x.Op == token.NOT && v.k == 2:
			return c07Bool(!v.b)
		case x.Op == token.SUB && v.k == 1:
			return c07Int(c07Wrap(w.info.TypeOf(e), -v.i))
		case x.Op == token.ADD && v.k == 1:
			return v
		}
		return c07Unknown
	case *ast.BinaryExpr:
		l := w.eval(x.X, st)
		if x.Op == token.LAND || x.Op == token.LOR {
			if l.k == 2 && l.b == (x.Op == token.LOR) {
				return l
			}
			r := w.eval(x.Y, st)
			if r.k == 2 && r.b == (x.Op == token.LOR) {
				return r // the other operand cannot change the result (both are pure, checked by callers)
			}
			if l.k == 2 && r.k == 2 {
				return r
			}
			return c07Unknown
		}
		r := w.eval(x.Y, st)
		if l.k == 3 && r.k == 3 {
			switch x.Op {
			case token.EQL:
				return c07Bool(l.s == r.s)
			case token.NEQ:
				return c07Bool(l.s != r.s)
			case token.ADD:
				return c07Str(l.s + r.s)
			}
			return c07Unknown
		}
		if l.k == 2 && r.k == 2 {
			switch x.Op {
			case token.EQL:
				return c07Bool(l.b == r.b)
			case token.NEQ:
				return c07Bool(l.b != r.b)
			}
			return c07Unknown
		}
		if l.k != 1 || r.k != 1 {
			return c07Unknown
		}
		a, b := l.i, r.i
		switch x.Op {
		case token.EQL:
			return c07Bool(a == b)
		case token.NEQ:
			return c07Bool(a != b)
		case token.LSS:
			return c07Bool(a < b)
		case token.LEQ:
			return c07Bool(a <= b)
		case token.GTR:
			return c07Bool(a > b)
		case token.GEQ:
			return c07Bool(a >= b)
		}
		var res int64
		switch x.Op {
		case token.ADD:
			res = a + b
		case token.SUB:
			res = a - b
		case token.MUL:
			res = a * b
		case token.QUO:
			if b == 0 {
				return c07Unknown
			}
			res = a / b
		case token.REM:
			if b == 0 {
				return c07Unknown
			}
			res = a % b
		case token.AND:
			res = a & b
		case token.OR:
			res = a | b
		case token.XOR:
			res = a ^ b
		case token.AND_NOT:
			res = a &^ b
		case token.SHL:
			if b < 0 || b > 62 {
				return c07Unknown
			}
			res = a << uint(b)
		case token.SHR:
			if b < 0 || b > 63 {
				return c07Unknown
			}
			res = a >> uint(b)
		default:
			return c07Unknown
		}
		return c07Int(c07Wrap(w.info.TypeOf(e), res))
	}
	return c07Unknown
}

// ---------------------------------------------------------------------------
// statements

const c07MaxPaths = 4096

func (w *c07Walker) block(list []ast.Stmt, st *c07State) []c07Out {
	cur := []*c07State{st}
	var outs []c07Out
	for _, s := range list {
		var next []*c07State
		for _, c := range cur {
			for _, o := range w.stmt(s, c) {
				if o.how == c07Normal {
					next = append(next, o.st)
				} else {
					outs = append(outs, o)
				}
			}
		}
		cur = next
		if w.paths += len(cur); w.paths > c07MaxPaths {
			w.fail("more than %d paths", c07MaxPaths)
			return nil
		}
		if len(cur) == 0 || w.undec != "" {
			break
		}
	}
	for _, c := range cur {
		outs = append(outs, c07Out{st: c, how: c07Normal})
	}
	return outs
}

func (w *c07Walker) zero(t types.Type) c07Val {
	if b, ok := t.Underlying().(*types.Basic); ok {
		switch {
		case b.Info()&types.IsString != 0:
			return c07Str("")
		case b.Info()&types.IsInteger != 0:
			return c07Int(0)
		case b.Info()&types.IsBoolean != 0:
			return c07Bool(false)
		}
	}
	return c07Unknown
}

// tracked: a local whose value is part of the walker's state and whose assignment is not an output effect
// (strings, bytes, runes, booleans).
func c07Tracked(o types.Object) bool {
	v, ok := o.(*types.Var)
	if !ok || v.IsField() || (v.Pkg() != nil && v.Parent() == v.Pkg().Scope()) {
		return false
	}
	b, ok := v.Type().Underlying().(*types.Basic)
	if !ok {
		return false
	}
	switch b.Kind() {
	case types.String, types.Uint8, types.Int32, types.Bool:
		return true
	}
	return false
}

func (w *c07Walker) identsIn(e ast.Expr) []types.Object {
	var out []types.Object
	ast.Inspect(e, func(n ast.Node) bool {
		if id, ok := n.(*ast.Ident); ok {
			if o, ok := w.objOf(id).(*types.Var); ok {
				out = append(out, o)
			}
		}
		return true
	})
	return out
}

func (w *c07Walker) isCurExpr(e ast.Expr) bool {
	e = ast.Unparen(e)
	if w.isCur(e) {
		return true
	}
	if id, ok := e.(*ast.Ident); ok {
		return w.curVars[w.objOf(id)]
	}
	return false
}

func (w *c07Walker) assign(s *ast.AssignStmt, st *c07State) {
	if len(s.Lhs) != len(s.Rhs) {
		for _, l := range s.Lhs {
			if id, ok := l.(*ast.Ident); ok && id.Name != "_" {
				if o := w.objOf(id); o != nil {
					st.env[o] = c07Unknown
				}
			}
		}
		st.eff = append(st.eff, c07Effect{node: s, kind: "call"})
		return
	}
	vals := make([]c07Val, len(s.Rhs))
	pures := make([]bool, len(s.Rhs))
	for i, r := range s.Rhs {
		pures[i] = w.pure(r)
		if pures[i] {
			vals[i] = w.eval(r, st)
		}
	}
	for i, l := range s.Lhs {
		l = ast.Unparen(l)
		if !pures[i] {
			st.eff = append(st.eff, c07Effect{node: s, kind: "call"})
		}
		switch x := l.(type) {
		case *ast.Ident:
			if x.Name == "_" {
				continue
			}
			o := w.objOf(x)
			if o == nil {
				w.fail("unresolved identifier %s", x.Name)
				return
			}
			v := vals[i]
			if s.Tok != token.ASSIGN && s.Tok != token.DEFINE {
				v = c07Unknown // op-assignment: the new value is not tracked
			}
			if (s.Tok == token.ASSIGN || s.Tok == token.DEFINE) && pures[i] && w.isCurExpr(s.Rhs[i]) {
				w.curVars[o] = true
			} else if w.curVars[o] {
				w.fail("the byte variable %s is re-assigned", x.Name)
				return
			}
			st.env[o] = v
			if !(c07Tracked(o) && pures[i] && (s.Tok == token.ASSIGN || s.Tok == token.DEFINE)) && pures[i] {
				st.eff = append(st.eff, c07Effect{node: s, kind: "assign", obj: o})
			}
		case *ast.IndexExpr:
			kind := "store"
			if pures[i] && s.Tok == token.ASSIGN && w.isCurExpr(s.Rhs[i]) {
				kind = "store-verbatim"
			}
			st.eff = append(st.eff, c07Effect{node: s, kind: kind, idxVars: w.identsIn(x.Index)})
		default:
			st.eff = append(st.eff, c07Effect{node: s, kind: "assign"})
		}
	}
}

func (w *c07Walker) stmt(s ast.Stmt, st *c07State) []c07Out {
	if w.undec != "" {
		return nil
	}
	one := func(how int) []c07Out { return []c07Out{{st: st, how: how}} }
	switch x := s.(type) {
	case *ast.EmptyStmt:
		return one(c07Normal)
	case *ast.BlockStmt:
		return w.block(x.List, st)
	case *ast.DeclStmt:
		gd, ok := x.Decl.(*ast.GenDecl)
		if !ok || (gd.Tok != token.VAR && gd.Tok != token.CONST) {
			w.fail("unsupported declaration at %s", w.p.Pos(s.Pos()))
			return nil
		}
		if gd.Tok == token.CONST {
			return one(c07Normal)
		}
		for _, sp := range gd.Specs {
			vs := sp.(*ast.ValueSpec)
			for i, id := range vs.Names {
				o := w.info.Defs[id]
				if o == nil {
					continue
				}
				switch {
				case len(vs.Values) == 0:
					st.env[o] = w.zero(o.Type())
				case len(vs.Values) == len(vs.Names) && w.pure(vs.Values[i]):
					st.env[o] = w.eval(vs.Values[i], st)
				default:
					st.env[o] = c07Unknown
					st.eff = append(st.eff, c07Effect{node: s, kind: "call"})
				}
			}
		}
		return one(c07Normal)
	case *ast.AssignStmt:
		w.assign(x, st)
		return one(c07Normal)
	case *ast.IncDecStmt:
		if id, ok := ast.Unparen(x.X).(*ast.Ident); ok {
			o := w.objOf(id)
			if w.curVars[o] {
				w.fail("the byte variable %s is modified", id.Name)
				return nil
			}
			st.env[o] = c07Unknown
			st.eff = append(st.eff, c07Effect{node: s, kind: "incdec", obj: o})
		} else {
			st.eff = append(st.eff, c07Effect{node: s, kind: "store"})
		}
		return one(c07Normal)
	case *ast.ExprStmt:
		st.eff = append(st.eff, c07Effect{node: s, kind: "call"})
		return one(c07Normal)
	case *ast.BranchStmt:
		if x.Label != nil {
			w.fail("labelled branch at %s", w.p.Pos(s.Pos()))
			return nil
		}
		switch x.Tok {
		case token.CONTINUE:
			return one(c07Continue)
		case token.BREAK:
			return one(c07Break)
		case token.FALLTHROUGH:
			return one(c07Fallthrough)
		}
		w.fail("goto at %s", w.p.Pos(s.Pos()))
		return nil
	case *ast.ReturnStmt:
		o := c07Out{st: st, how: c07Return, ret: x}
		for _, r := range x.Results {
			if w.pure(r) {
				o.val = append(o.val, w.eval(r, st))
			} else {
				o.val = append(o.val, c07Unknown)
			}
		}
		return []c07Out{o}
	case *ast.IfStmt:
		var outs []c07Out
		starts := []*c07State{st}
		if x.Init != nil {
			starts = nil
			for _, o := range w.stmt(x.Init, st) {
				if o.how == c07Normal {
					starts = append(starts, o.st)
				}
			}
		}
		for _, s0 := range starts {
			cv := c07Unknown
			if w.pure(x.Cond) {
				cv = w.eval(x.Cond, s0)
			} else {
				s0.eff = append(s0.eff, c07Effect{node: x.Cond, kind: "call"})
			}
			takeThen, takeElse := true, true
			if cv.k == 2 {
				takeThen, takeElse = cv.b, !cv.b
			}
			if takeThen {
				s1 := s0
				if takeElse {
					s1 = s0.clone()
				}
				outs = append(outs, w.block(x.Body.List, s1)...)
			}
			if takeElse {
				if x.Else == nil {
					outs = append(outs, c07Out{st: s0, how: c07Normal})
				} else {
					outs = append(outs, w.stmt(x.Else, s0)...)
				}
			}
		}
		return outs
	case *ast.SwitchStmt:
		return w.switchStmt(x, st)
	}
	w.fail("unsupported statement %T at %s", s, w.p.Pos(s.Pos()))
	return nil
}

func (w *c07Walker) switchStmt(x *ast.SwitchStmt, st *c07State) []c07Out {
	starts := []*c07State{st}
	if x.Init != nil {
		starts = nil
		for _, o := range w.stmt(x.Init, st) {
			if o.how == c07Normal {
				starts = append(starts, o.st)
			}
		}
	}
	var clauses []*ast.CaseClause
	deflt := -1
	for i, c := range x.Body.List {
		cc := c.(*ast.CaseClause)
		clauses = append(clauses, cc)
		if cc.List == nil {
			deflt = i
		}
	}
	var outs []c07Out
	// run executes clause i (and the following ones on fallthrough)
	var run func(i int, s0 *c07State)
	run = func(i int, s0 *c07State) {
		for _, o := range w.block(clauses[i].Body, s0) {
			switch o.how {
			case c07Break:
				o.how = c07Normal
				outs = append(outs, o)
			case c07Fallthrough:
				if i+1 < len(clauses) {
					run(i+1, o.st)
				}
			default:
				outs = append(outs, o)
			}
		}
	}
	for _, s0 := range starts {
		var tag c07Val
		if x.Tag != nil {
			if !w.pure(x.Tag) {
				w.fail("switch tag with a call at %s", w.p.Pos(x.Pos()))
				return nil
			}
			tag = w.eval(x.Tag, s0)
			if !tag.known() {
				w.fail("switch on a value the walker cannot evaluate at %s", w.p.Pos(x.Pos()))
				return nil
			}
		}
		live := s0 // state in which no earlier case matched
		matched := false
		for i, cc := range clauses {
			if cc.List == nil || matched {
				continue
			}
			for _, e := range cc.List {
				if !w.pure(e) {
					w.fail("case expression with a call at %s", w.p.Pos(e.Pos()))
					return nil
				}
				v := w.eval(e, live)
				var hit c07Val
				if x.Tag != nil {
					if v.k != tag.k || !v.known() {
						w.fail("case value the walker cannot evaluate at %s", w.p.Pos(e.Pos()))
						return nil
					}
					hit = c07Bool(v == tag)
				} else {
					hit = v
					if v.known() && v.k != 2 {
						hit = c07Unknown
					}
				}
				if hit.k == 2 && hit.b {
					run(i, live)
					matched = true
					break
				}
				if hit.k != 2 { // may or may not match: fork
					run(i, live.clone())
				}
			}
		}
		if !matched {
			if deflt >= 0 {
				run(deflt, live)
			} else {
				outs = append(outs, c07Out{st: live, how: c07Normal})
			}
		}
	}
	return outs
}

// predValue evaluates a module byte predicate on one value by walking its body.
func (w *c07Walker) predValue(fn *types.Func, val int64) c07Val {
	if m := w.predMemo[fn]; m != nil {
		if v, ok := m[val]; ok {
			return v
		}
	}
	res := c07Unknown
	rel := strings.TrimPrefix(strings.TrimPrefix(fn.Pkg().Path(), modulePath), "/")
	var fi *FuncInfo
	for _, f := range w.p.Funcs(rel) {
		if f.Obj == fn {
			fi = f
		}
	}
	if fi != nil && w.depth < 4 {
		sub := &c07Walker{p: w.p, info: fi.Pkg.TypesInfo, rel: rel, tables: w.tables, curVars: map[types.Object]bool{}, depth: w.depth + 1, predMemo: w.predMemo}
		st := &c07State{env: map[types.Object]c07Val{}}
		par := fn.Type().(*types.Signature).Params().At(0)
		st.env[par] = c07Int(val)
		outs := sub.block(fi.Decl.Body.List, st)
		if sub.undec == "" && len(outs) > 0 {
			res = c07Val{k: 2}
			for i, o := range outs {
				if o.how != c07Return || len(o.val) != 1 || o.val[0].k != 2 || len(o.st.eff) > 0 || (i > 0 && o.val[0].b != res.b) {
					res = c07Unknown
					break
				}
				res.b = o.val[0].b
			}
		}
	}
	if w.predMemo[fn] == nil {
		w.predMemo[fn] = map[int64]c07Val{}
	}
	w.predMemo[fn][val] = res
	return res
}

func c07NewWalker(p *Prog, fi *FuncInfo) *c07Walker {
	rel := strings.TrimPrefix(strings.TrimPrefix(fi.Pkg.PkgPath, modulePath), "/")
	return &c07Walker{p: p, info: fi.Pkg.TypesInfo, rel: rel, tables: map[*types.Var]*c07Table{}, curVars: map[types.Object]bool{}, predMemo: map[*types.Func]map[int64]c07Val{}}
}

// c07PredClass returns the class {v in [0,hi] : fn(v)} of a module byte predicate, from its syntax.
func c07PredClass(p *Prog, fi *FuncInfo, hi int64) (map[int64]bool, string) {
	w := c07NewWalker(p, fi)
	out := map[int64]bool{}
	for v := int64(0); v <= hi; v++ {
		r := w.predValue(fi.Obj, v)
		if r.k != 2 {
			return nil, fmt.Sprintf("the body of %s is not a comparison predicate over its parameter (value %d undecided)", fi.Name(), v)
		}
		if r.b {
			out[v] = true
		}
	}
	return out, ""
}

// ---------------------------------------------------------------------------
// loops over the escaped string and pass-through sets

type c07Loop struct {
	node  ast.Stmt
	body  *ast.BlockStmt
	idx   types.Object
	val   types.Object // range value variable (rune domain), nil for byte loops
	runes bool
}

// c07StrParam returns the only string parameter of fi.
func c07StrParam(fi *FuncInfo) *types.Var {
	var out *types.Var
	ps := fi.Obj.Type().(*types.Signature).Params()
	for i := 0; i < ps.Len(); i++ {
		if b, ok := ps.At(i).Type().Underlying().(*types.Basic); ok && b.Kind() == types.String {
			if out != nil {
				return nil
			}
			out = ps.At(i)
		}
	}
	return out
}

// c07Loops finds the outermost loops of fi that visit subj byte by byte or rune by rune.
func c07Loops(fi *FuncInfo, subj *types.Var) []*c07Loop {
	info := fi.Pkg.TypesInfo
	var out []*c07Loop
	ast.Inspect(fi.Decl.Body, func(n ast.Node) bool {
		switch x := n.(type) {
		case *ast.FuncLit:
			return false
		case *ast.RangeStmt:
			rx, overBytes := ast.Unparen(x.X), false
			if c, ok := rx.(*ast.CallExpr); ok && len(c.Args) == 1 {
				if tv, ok := info.Types[c.Fun]; ok && tv.IsType() {
					if sl, ok := tv.Type.Underlying().(*types.Slice); ok {
						if b, ok := sl.Elem().Underlying().(*types.Basic); ok && b.Kind() == types.Uint8 {
							rx, overBytes = ast.Unparen(c.Args[0]), true // range []byte(s): byte by byte
						}
					}
				}
			}
			if id, ok := rx.(*ast.Ident); ok && info.Uses[id] == subj {
				l := &c07Loop{node: x, body: x.Body, runes: !overBytes}
				if k, ok := x.Key.(*ast.Ident); ok {
					l.idx = info.Defs[k]
				}
				if v, ok := x.Value.(*ast.Ident); ok {
					l.val = info.Defs[v]
				}
				out = append(out, l)
				return false
			}
		case *ast.ForStmt:
			as, ok := x.Init.(*ast.AssignStmt)
			if !ok || len(as.Lhs) != 1 {
				return true
			}
			id, ok := as.Lhs[0].(*ast.Ident)
			if !ok {
				return true
			}
			iv := info.Defs[id]
			if iv == nil {
				iv = info.Uses[id]
			}
			uses := false
			ast.Inspect(x.Body, func(m ast.Node) bool {
				if ix, ok := m.(*ast.IndexExpr); ok {
					a, ok1 := ast.Unparen(ix.X).(*ast.Ident)
					b, ok2 := ast.Unparen(ix.Index).(*ast.Ident)
					if ok1 && ok2 && info.Uses[a] == subj && info.Uses[b] == iv {
						uses = true
					}
				}
				return !uses
			})
			if uses {
				out = append(out, &c07Loop{node: x, body: x.Body, idx: iv})
				return false
			}
		}
		return true
	})
	return out
}

type c07PassResult struct {
	pass  map[int64]bool
	undec string
	esc   map[int64]map[string]bool // strings assigned to tracked string locals on escaping paths (diagnostics)
}

// c07LoopPass computes the set of values of [lo,hi] for which some path through the loop body ends
// (continue or end of body) having done nothing but copy the byte verbatim.
func c07LoopPass(p *Prog, fi *FuncInfo, subj *types.Var, l *c07Loop, bind map[types.Object]c07Val, dom []int64) c07PassResult {
	w := c07NewWalker(p, fi)
	w.subj, w.idx = subj, l.idx
	res := c07PassResult{pass: map[int64]bool{}}
	for _, v := range dom {
		w.cur, w.paths = v, 0
		w.curVars = map[types.Object]bool{}
		st := &c07State{env: map[types.Object]c07Val{}}
		for k, b := range bind {
			st.env[k] = b
		}
		if l.val != nil {
			st.env[l.val] = c07Int(v)
			w.curVars[l.val] = true
		}
		outs := w.block(l.body.List, st)
		if w.undec != "" {
			res.undec = w.undec
			return res
		}
		for _, o := range outs {
			if o.how != c07Normal && o.how != c07Continue {
				continue
			}
			if c07VerbatimOnly(o.st.eff) {
				res.pass[v] = true
			}
		}
	}
	return res
}

// c07VerbatimOnly: the path did nothing except copy the current byte (and advance the copy index).
func c07VerbatimOnly(eff []c07Effect) bool {
	idx := map[types.Object]bool{}
	for _, e := range eff {
		if e.kind == "store-verbatim" {
			for _, o := range e.idxVars {
				idx[o] = true
			}
		}
	}
	for _, e := range eff {
		switch e.kind {
		case "store-verbatim":
		case "incdec", "assign":
			if e.obj == nil || !idx[e.obj] {
				return false
			}
		default:
			return false
		}
	}
	return true
}

func c07ByteDomain() []int64 {
	d := make([]int64, 256)
	for i := range d {
		d[i] = int64(i)
	}
	return d
}

// c07RuneDomain: every code point up to one past the largest integer constant of the function, plus
// the last code point. Above the largest constant every comparison of the rune with a constant keeps
// its value, so the sample is exhaustive for comparison predicates.
func c07RuneDomain(fi *FuncInfo) []int64 {
	max := int64(0x2100)
	ast.Inspect(fi.Decl.Body, func(n ast.Node) bool {
		if e, ok := n.(ast.Expr); ok {
			if v, ok := intValue(fi.Pkg.TypesInfo, e); ok && v > max && v <= 0x10FFFF {
				max = v
			}
		}
		return true
	})
	var d []int64
	for v := int64(0); v <= max+1 && v <= 0x10FFFF; v++ {
		if v >= 0xD800 && v <= 0xDFFF {
			continue
		}
		d = append(d, v)
	}
	return append(d, 0x10FFFF)
}

type c07Binding struct {
	name string
	env  map[types.Object]c07Val
	vals map[string]bool
}

// c07Bindings enumerates the assignments of the boolean parameters of fi.
func c07Bindings(fi *FuncInfo) []c07Binding {
	var bools []*types.Var
	ps := fi.Obj.Type().(*types.Signature).Params()
	for i := 0; i < ps.Len(); i++ {
		if b, ok := ps.At(i).Type().Underlying().(*types.Basic); ok && b.Kind() == types.Bool {
			bools = append(bools, ps.At(i))
		}
	}
	var out []c07Binding
	for m := 0; m < 1<<len(bools); m++ {
		b := c07Binding{env: map[types.Object]c07Val{}, vals: map[string]bool{}}
		var parts []string
		for i, v := range bools {
			val := m&(1<<i) != 0
			b.env[v] = c07Bool(val)
			b.vals[v.Name()] = val
			parts = append(parts, fmt.Sprintf("%s=%v", v.Name(), val))
		}
		b.name = strings.Join(parts, ",")
		out = append(out, b)
	}
	return out
}

// c07FuncPass resolves the pass-through set of an escaper under a binding of its boolean parameters:
// its own loop, or the loop of the escaper it delegates to before reaching it.
func c07FuncPass(p *Prog, fi *FuncInfo, bind c07Binding, depth int) (res c07PassResult, via string) {
	subj := c07StrParam(fi)
	if subj == nil {
		return c07PassResult{undec: fi.Name() + " has no single string parameter"}, ""
	}
	loops := c07Loops(fi, subj)
	// walk the top-level statements that precede the first loop
	var pre []ast.Stmt
	var first *c07Loop
	for _, s := range fi.Decl.Body.List {
		for _, l := range loops {
			if l.node == s {
				first = l
			}
		}
		if first != nil {
			break
		}
		pre = append(pre, s)
	}
	w := c07NewWalker(p, fi)
	st := &c07State{env: map[types.Object]c07Val{}}
	for k, b := range bind.env {
		st.env[k] = b
	}
	outs := w.block(pre, st)
	if w.undec != "" {
		return c07PassResult{undec: w.undec}, ""
	}
	var deleg *types.Func
	var delegCall *ast.CallExpr
	reaches := false
	for _, o := range outs {
		switch o.how {
		case c07Normal:
			reaches = true
		case c07Return:
			if len(o.st.eff) == 0 && len(o.ret.Results) == 1 {
				if call, ok := ast.Unparen(o.ret.Results[0]).(*ast.CallExpr); ok {
					if fn := callee(fi.Pkg.TypesInfo, call); fn != nil && fn.Pkg() == fi.Obj.Pkg() {
						if deleg != nil && deleg != fn {
							return c07PassResult{undec: "delegates to several functions under one binding"}, ""
						}
						deleg, delegCall = fn, call
						continue
					}
				}
			}
			// any other early return (empty input, nothing to escape) is bookkeeping, not decided here
		}
	}
	if deleg != nil && !reaches {
		if depth > 3 {
			return c07PassResult{undec: "delegation too deep"}, ""
		}
		var dfi *FuncInfo
		for _, f := range p.Funcs(strings.TrimPrefix(strings.TrimPrefix(fi.Pkg.PkgPath, modulePath), "/")) {
			if f.Obj == deleg {
				dfi = f
			}
		}
		if dfi == nil {
			return c07PassResult{undec: "delegate " + deleg.Name() + " has no body"}, ""
		}
		// the escaped string must be passed on unchanged; boolean arguments are evaluated
		dsig := deleg.Type().(*types.Signature)
		db := c07Binding{env: map[types.Object]c07Val{}, vals: map[string]bool{}}
		passed := false
		for i, a := range delegCall.Args {
			if i >= dsig.Params().Len() {
				break
			}
			par := dsig.Params().At(i)
			if id, ok := ast.Unparen(a).(*ast.Ident); ok && fi.Pkg.TypesInfo.Uses[id] == subj {
				passed = par == c07StrParam(dfi)
			}
			if b, ok := par.Type().Underlying().(*types.Basic); ok && b.Kind() == types.Bool {
				v := w.eval(a, st)
				if v.k != 2 {
					return c07PassResult{undec: "boolean argument of the delegation is not decided by the binding"}, ""
				}
				db.env[par], db.vals[par.Name()] = v, v.b
			}
		}
		if !passed {
			return c07PassResult{undec: "the string is not passed unchanged to " + deleg.Name()}, ""
		}
		r, v := c07FuncPass(p, dfi, db, depth+1)
		if v == "" {
			v = funcKey(deleg)
		}
		return r, v
	}
	if deleg != nil && reaches {
		return c07PassResult{undec: "both delegates and reaches its own loop under one binding"}, ""
	}
	if first == nil {
		return c07PassResult{undec: "no loop over the string parameter"}, ""
	}
	if len(loops) != 1 {
		return c07PassResult{undec: fmt.Sprintf("%d loops over the string parameter", len(loops))}, ""
	}
	dom := c07ByteDomain()
	if first.runes {
		dom = c07RuneDomain(fi)
	}
	return c07LoopPass(p, fi, subj, first, bind.env, dom), ""
}

func c07SetStr(m map[int64]bool) string {
	var ks []int64
	for k := range m {
		ks = append(ks, k)
	}
	sort.Slice(ks, func(i, j int) bool { return ks[i] < ks[j] })
	var parts []string
	for i := 0; i < len(ks); {
		j := i
		for j+1 < len(ks) && ks[j+1] == ks[j]+1 {
			j++
		}
		if j > i+1 {
			parts = append(parts, c07Ch(ks[i])+"-"+c07Ch(ks[j]))
		} else {
			for k := i; k <= j; k++ {
				parts = append(parts, c07Ch(ks[k]))
			}
		}
		i = j + 1
	}
	return "{" + strings.Join(parts, " ") + "}"
}

func c07Ch(v int64) string {
	if v > 0x20 && v < 0x7f {
		return fmt.Sprintf("%c", rune(v))
	}
	if v > 0xff {
		return fmt.Sprintf("U+%04X", v)
	}
	return fmt.Sprintf("0x%02x", v)
}

func c07Set(chars string, ranges ...int64) map[int64]bool {
	m := map[int64]bool{}
	for i := 0; i < len(chars); i++ {
		m[int64(chars[i])] = true
	}
	for i := 0; i+1 < len(ranges); i += 2 {
		for v := ranges[i]; v <= ranges[i+1]; v++ {
			m[v] = true
		}
	}
	return m
}

func c07Inter(a, b map[int64]bool) map[int64]bool {
	m := map[int64]bool{}
	for k := range a {
		if b[k] {
			m[k] = true
		}
	}
	return m
}

func c07Minus(a, b map[int64]bool) map[int64]bool {
	m := map[int64]bool{}
	for k := range a {
		if !b[k] {
			m[k] = true
		}
	}
	return m
}

// ---------------------------------------------------------------------------
// decoders of the target languages, applied to literals read from the source

func c07HexVal(c byte) int {
	switch {
	case '0' <= c && c <= '9':
		return int(c - '0')
	case 'a' <= c && c <= 'f':
		return int(c-'a') + 10
	case 'A' <= c && c <= 'F':
		return int(c-'A') + 10
	}
	return -1
}

// c07CSSDecode decodes one CSS escape (CSS Syntax Level 3 §4.3.7). hex reports a hexadecimal escape,
// which swallows following hex digits and one white space.
func c07CSSDecode(lit string) (cp int64, hex bool, ok bool) {
	if len(lit) < 2 || lit[0] != '\\' {
		return 0, false, false
	}
	rest := lit[1:]
	if c07HexVal(rest[0]) >= 0 {
		if len(rest) > 6 {
			return 0, true, false
		}
		for i := 0; i < len(rest); i++ {
			h := c07HexVal(rest[i])
			if h < 0 {
				return 0, true, false
			}
			cp = cp*16 + int64(h)
		}
		return cp, true, true
	}
	if len(rest) != 1 || rest[0] == '\n' || rest[0] == '\r' || rest[0] == '\f' || rest[0] >= 0x80 {
		return 0, false, false
	}
	return int64(rest[0]), false, true
}

// c07JSONDecode decodes one escape valid in BOTH a JavaScript and a JSON string literal (the table is
// shared by the two contexts): \uXXXX or one of \" \\ \/ \b \f \n \r \t.
func c07JSONDecode(lit string) (int64, bool) {
	if len(lit) == 6 && lit[0] == '\\' && lit[1] == 'u' {
		var cp int64
		for i := 2; i < 6; i++ {
			h := c07HexVal(lit[i])
			if h < 0 {
				return 0, false
			}
			cp = cp*16 + int64(h)
		}
		return cp, true
	}
	if len(lit) == 2 && lit[0] == '\\' {
		switch lit[1] {
		case '"', '\\', '/':
			return int64(lit[1]), true
		case 'b':
			return 8, true
		case 'f':
			return 12, true
		case 'n':
			return 10, true
		case 'r':
			return 13, true
		case 't':
			return 9, true
		}
	}
	return 0, false
}

// c07PercentDecode decodes "%XX".
func c07PercentDecode(lit string) (int64, bool) {
	if len(lit) != 3 || lit[0] != '%' || c07HexVal(lit[1]) < 0 || c07HexVal(lit[2]) < 0 {
		return 0, false
	}
	return int64(c07HexVal(lit[1])*16 + c07HexVal(lit[2])), true
}

// c07EntityDecodes: an HTML (or percent) escape literal decodes to exactly the byte c.
func c07EntityDecodes(lit string, c int64) (bool, string) {
	if strings.HasPrefix(lit, "%") {
		v, ok := c07PercentDecode(lit)
		return ok && v == c, fmt.Sprintf("percent-decoding %q gives %s", lit, c07Ch(v))
	}
	got := html.UnescapeString(lit)
	return got == string(rune(c)) && c < 0x80, fmt.Sprintf("html.UnescapeString(%q) = %q", lit, got)
}

// ---------------------------------------------------------------------------
// percent triple (shared with C25 R-4)

type c07Triple struct {
	found    bool
	undec    string
	bad      string
	fact     string
	alphabet string
	alphaPos token.Pos
	pos      token.Pos
}

// c07PercentTriple finds the stores that build "%XX" in fi and decides whether, for every byte value
// v, the two digits are the hexadecimal digits of v>>4 and v&15 in that order.
func c07PercentTriple(p *Prog, fi *FuncInfo) c07Triple {
	info := fi.Pkg.TypesInfo
	type store struct {
		as    *ast.AssignStmt
		tgt   types.Object
		index ast.Expr
		pct   bool
		alpha string
		aexpr ast.Expr
		dig   ast.Expr
	}
	groups := map[types.Object][]store{}
	var order []types.Object
	ast.Inspect(fi.Decl.Body, func(n ast.Node) bool {
		as, ok := n.(*ast.AssignStmt)
		if !ok || as.Tok != token.ASSIGN || len(as.Lhs) != 1 || len(as.Rhs) != 1 {
			return true
		}
		ix, ok := ast.Unparen(as.Lhs[0]).(*ast.IndexExpr)
		if !ok {
			return true
		}
		id, ok := ast.Unparen(ix.X).(*ast.Ident)
		if !ok {
			return true
		}
		tgt := info.Uses[id]
		st := store{as: as, tgt: tgt, index: ix.Index}
		rhs := ast.Unparen(as.Rhs[0])
		if v, ok := intValue(info, rhs); ok && v == '%' {
			st.pct = true
		} else if rx, ok := rhs.(*ast.IndexExpr); ok {
			if s, ok := stringValue(info, rx.X); ok {
				st.alpha, st.aexpr, st.dig = s, rx.X, rx.Index
			} else {
				return true
			}
		} else {
			return true
		}
		if _, seen := groups[tgt]; !seen {
			order = append(order, tgt)
		}
		groups[tgt] = append(groups[tgt], st)
		return true
	})
	var t c07Triple
	for _, tgt := range order {
		g := groups[tgt]
		hasPct := false
		for _, s := range g {
			hasPct = hasPct || s.pct
		}
		if !hasPct {
			continue
		}
		t.found = true
		t.pos = g[0].as.Pos()
		if len(g) != 3 {
			t.undec = fmt.Sprintf("%d stores of '%%'/hex digits into %s, expected 3", len(g), tgt.Name())
			return t
		}
		// order: constant indices, else source order with the index advanced between stores
		consts := true
		var ks [3]int64
		for i, s := range g {
			k, ok := intValue(info, s.index)
			consts = consts && ok
			ks[i] = k
		}
		if consts {
			sort.SliceStable(g, func(i, j int) bool {
				a, _ := intValue(info, g[i].index)
				b, _ := intValue(info, g[j].index)
				return a < b
			})
			a, _ := intValue(info, g[0].index)
			b, _ := intValue(info, g[1].index)
			c, _ := intValue(info, g[2].index)
			if b != a+1 || c != a+2 {
				t.bad = fmt.Sprintf("the three stores go to indices %d,%d,%d, not consecutive ones", a, b, c)
				return t
			}
		} else if offs, ok := c07OffsetTriple(info, g[0].index, g[1].index, g[2].index); ok {
			// b[j], b[j+1], b[j+2] over one variable: consecutive by construction
			type so struct {
				off int64
				i   int
			}
			order3 := []so{{offs[0], 0}, {offs[1], 1}, {offs[2], 2}}
			sort.SliceStable(order3, func(a, b int) bool { return order3[a].off < order3[b].off })
			if order3[1].off != order3[0].off+1 || order3[2].off != order3[0].off+2 {
				t.bad = fmt.Sprintf("the three stores go to offsets %d,%d,%d of the index, not consecutive ones", order3[0].off, order3[1].off, order3[2].off)
				return t
			}
			g = []store{g[order3[0].i], g[order3[1].i], g[order3[2].i]}
		} else {
			// same index variable, incremented exactly once between consecutive stores, same statement list
			par := p.Parents(fi.File)
			blk, ok := par[g[0].as].(*ast.BlockStmt)
			if !ok || par[g[1].as] != blk || par[g[2].as] != blk {
				t.undec = "the three stores are not in one statement list"
				return t
			}
			iv, ok := ast.Unparen(g[0].index).(*ast.Ident)
			if !ok {
				t.undec = "store index is neither a constant nor a variable"
				return t
			}
			io := info.Uses[iv]
			pos := map[ast.Stmt]int{}
			for i, s := range blk.List {
				pos[s] = i
			}
			for k := 0; k < 3; k++ {
				id, ok := ast.Unparen(g[k].index).(*ast.Ident)
				if !ok || info.Uses[id] != io {
					t.undec = "the three stores use different index expressions"
					return t
				}
			}
			for k := 0; k < 2; k++ {
				incs := 0
				for i := pos[g[k].as] + 1; i < pos[g[k+1].as]; i++ {
					inc, ok := blk.List[i].(*ast.IncDecStmt)
					if ok && inc.Tok == token.INC {
						if id, ok := ast.Unparen(inc.X).(*ast.Ident); ok && info.Uses[id] == io {
							incs++
							continue
						}
					}
					t.undec = "statement other than the index increment between the stores of the triple"
					return t
				}
				if incs != 1 {
					t.bad = fmt.Sprintf("the index advances %d times between store %d and %d of the triple", incs, k+1, k+2)
					return t
				}
			}
		}
		if !g[0].pct || g[1].pct || g[2].pct {
			t.bad = "the first byte of the triple is not '%' followed by two digit look-ups"
			return t
		}
		if g[1].alpha != g[2].alpha {
			t.bad = "the two digits come from different alphabets"
			return t
		}
		t.alphabet, t.alphaPos = g[1].alpha, g[1].aexpr.Pos()
		// evaluate the digit indices for every byte value
		w := c07NewWalker(p, fi)
		bindByte := func(e ast.Expr, st *c07State, v int64) bool {
			n := 0
			ast.Inspect(e, func(m ast.Node) bool {
				switch x := m.(type) {
				case *ast.IndexExpr:
					if a, ok := ast.Unparen(x.X).(*ast.Ident); ok {
						if b, ok := ast.Unparen(x.Index).(*ast.Ident); ok {
							if sv, ok := info.Uses[a].(*types.Var); ok {
								if bt, ok := sv.Type().Underlying().(*types.Basic); ok && bt.Kind() == types.String {
									w.subj, w.idx, w.cur = sv, info.Uses[b], v
									n++
									return false
								}
							}
						}
					}
				case *ast.Ident:
					if o, ok := info.Uses[x].(*types.Var); ok {
						if bt, ok := o.Type().Underlying().(*types.Basic); ok && bt.Kind() == types.Uint8 {
							st.env[o] = c07Int(v)
							n++
						}
					}
				}
				return true
			})
			return n > 0
		}
		for v := int64(0); v < 256; v++ {
			for k, want := range []int64{v >> 4, v & 15} {
				st := &c07State{env: map[types.Object]c07Val{}}
				e := g[k+1].dig
				if !bindByte(e, st, v) {
					t.undec = "digit index does not mention the byte: " + exprStr(e)
					return t
				}
				iv := w.eval(e, st)
				if iv.k != 1 {
					t.undec = "digit index is not an arithmetic expression of the byte: " + exprStr(e)
					return t
				}
				if iv.i < 0 || iv.i >= int64(len(t.alphabet)) {
					t.bad = fmt.Sprintf("for byte 0x%02x digit %d indexes the alphabet at %d, out of range (len %d)", v, k+1, iv.i, len(t.alphabet))
					return t
				}
				if got := int64(c07HexVal(t.alphabet[iv.i])); got != want {
					t.bad = fmt.Sprintf("for byte 0x%02x digit %d is %q (alphabet[%s = %d]) but percent-decoding needs the digit of %d", v, k+1, t.alphabet[iv.i], exprStr(e), iv.i, want)
					return t
				}
			}
		}
		t.fact = fmt.Sprintf("'%%', %s[%s], %s[%s] with alphabet %q: for all 256 byte values the triple percent-decodes to the byte", exprStr(g[1].aexpr), exprStr(g[1].dig), exprStr(g[2].aexpr), exprStr(g[2].dig), t.alphabet)
		return t
	}
	return t
}

// c07Alphabet: the 16 hexadecimal digits in order.
func c07AlphabetOK(a string) bool {
	if len(a) != 16 {
		return false
	}
	for i := 0; i < 16; i++ {
		if c07HexVal(a[i]) != i {
			return false
		}
	}
	return true
}

// ---------------------------------------------------------------------------
// roles

type c07Escaper struct {
	fi       *FuncInfo
	subj     *types.Var
	loops    []*c07Loop
	tables   []*c07Table   // string tables indexed by the current byte/rune
	preds    []*types.Func // byte predicates applied to a byte of the string other than the current one
	has2028  bool
	triple   bool
	entities int // switch clauses assigning an "&…;" literal
}

func c07Scan(p *Prog, rel string) []*c07Escaper {
	var out []*c07Escaper
	for _, fi := range p.Funcs(rel) {
		if p.isTestFile(fi.File) || fi.Obj == nil {
			continue
		}
		subj := c07StrParam(fi)
		if subj == nil {
			continue
		}
		loops := c07Loops(fi, subj)
		if len(loops) == 0 {
			continue
		}
		info := fi.Pkg.TypesInfo
		e := &c07Escaper{fi: fi, subj: subj, loops: loops}
		w := c07NewWalker(p, fi)
		seenT := map[*c07Table]bool{}
		for _, l := range loops {
			w.subj, w.idx = subj, l.idx
			// locals holding the current byte
			curv := map[types.Object]bool{}
			if l.val != nil {
				curv[l.val] = true
			}
			ast.Inspect(l.body, func(n ast.Node) bool {
				if as, ok := n.(*ast.AssignStmt); ok && len(as.Lhs) == 1 && len(as.Rhs) == 1 && w.isCur(as.Rhs[0]) {
					if id, ok := as.Lhs[0].(*ast.Ident); ok {
						curv[w.objOf(id)] = true
					}
				}
				return true
			})
			isCur := func(x ast.Expr) bool {
				x = ast.Unparen(x)
				if c, ok := x.(*ast.CallExpr); ok && len(c.Args) == 1 {
					if tv, ok := info.Types[c.Fun]; ok && tv.IsType() {
						x = ast.Unparen(c.Args[0])
					}
				}
				if w.isCur(x) {
					return true
				}
				id, ok := x.(*ast.Ident)
				return ok && curv[w.objOf(id)]
			}
			ast.Inspect(l.body, func(n ast.Node) bool {
				switch x := n.(type) {
				case *ast.IndexExpr:
					if t := w.tableOf(x.X); t != nil && isCur(x.Index) && !seenT[t] {
						seenT[t] = true
						e.tables = append(e.tables, t)
					}
				case *ast.CallExpr:
					if fn := callee(info, x); c07IsBytePred(fn) && len(x.Args) == 1 && !isCur(x.Args[0]) {
						dup := false
						for _, q := range e.preds {
							dup = dup || q == fn
						}
						if !dup {
							e.preds = append(e.preds, fn)
						}
					}
				case *ast.CaseClause:
					for _, s := range x.Body {
						ast.Inspect(s, func(m ast.Node) bool {
							if as, ok := m.(*ast.AssignStmt); ok && len(as.Rhs) == 1 {
								if lit, ok := stringValue(info, as.Rhs[0]); ok && strings.HasPrefix(lit, "&") {
									e.entities++
								}
							}
							return true
						})
					}
				case ast.Expr:
					if v, ok := intValue(info, x); ok && v == 0x2028 {
						e.has2028 = true
					}
				}
				return true
			})
		}
		e.triple = c07PercentTriple(p, fi).found
		out = append(out, e)
	}
	return out
}

func c07FuncOf(p *Prog, fn *types.Func) *FuncInfo {
	if fn == nil || fn.Pkg() == nil {
		return nil
	}
	rel := strings.TrimPrefix(strings.TrimPrefix(fn.Pkg().Path(), modulePath), "/")
	for _, f := range p.Funcs(rel) {
		if f.Obj == fn {
			return f
		}
	}
	return nil
}

// frozen classes of the target languages
var (
	c07HexDigits  = c07Set("0123456789abcdefABCDEF")
	c07CSSSpace   = c07Set("\t\n\f\r ")                                                     // CSS Syntax 3: whitespace = newline (LF, CR, FF), tab, space
	c07Unreserved = c07Set("-._~", '0', '9', 'a', 'z', 'A', 'Z')                            // RFC 3986 §2.3
	c07URLWide    = c07Set("-._~"+":/?#[]@"+"!$()*+,;="+"% ", '0', '9', 'a', 'z', 'A', 'Z') // unreserved ∪ gen-delims ∪ sub-delims without ' and & ∪ '%' (kept when it starts a valid escape) ∪ ' ' (quoted attribute)
	c07HTMLFour   = c07Set("<>\"'")
	c07HTMLFive   = c07Set("<>\"'&")
	c07AttrBreak  = c07Set("\t\n\f\r >") // end an unquoted attribute value
	c07JSMust     = c07Set("\"'\\<>&", 0, 31, 0x2028, 0x2029)
	c07CSSMust    = c07Set("\"'\\\n\r\f<>&\x00")
)

// c07AmpExceptions: escapers documented to let '&' through (one symbol, one reason).
var c07AmpExceptions = map[string]string{
	"runtime.htmlNoEntitiesEscape":                  "documented: escapes as htmlEscape 'but without escaping the HTML entities' (value is already HTML)",
	"runtime.attributeEscape[escapeEntities=false]": "documented: 'If escapeEntities is true it escapes also the HTML entities'; false is used for values of type native.HTML",
}

// c07OutOfScope: writer+string functions of package runtime that are not escapers of a C07 context.
var c07OutOfScope = map[string]string{
	"runtime.markdownEscape":          "Markdown context: the property lists HTML, JS/JSON, CSS and URL decoders only",
	"runtime.markdownCodeBlockEscape": "Markdown code block: indentation only, nothing is escaped",
}

// c07HasStrWriterParam: a parameter whose method set has WriteString(string) (int, error).
func c07HasStrWriterParam(fi *FuncInfo) bool {
	ps := fi.Obj.Type().(*types.Signature).Params()
	for i := 0; i < ps.Len(); i++ {
		ms := types.NewMethodSet(ps.At(i).Type())
		for j := 0; j < ms.Len(); j++ {
			if ms.At(j).Obj().Name() == "WriteString" {
				return true
			}
		}
	}
	return false
}

func init() {
	register("C07", &ruleSet{
		explain: "Per-character necessary conditions of the escape/decode round trip, all read from the source of internal/runtime/escapers.go: (R-1) every entry of the CSS and JS/JSON escape tables, every `case c: esc = lit` of the HTML, attribute and URL-path escapers and the '%XX' triple of the URL escapers decodes with the context's decoder (CSS escape, JSON/JS string escape, html.UnescapeString, percent-decoding) to exactly the byte it replaces, and the CSS escaper skips the terminator exactly for the non-hexadecimal escapes; (R-2) the class of bytes before which the CSS escaper inserts a space contains every byte a CSS hex escape would swallow (22 hex digits, 5 white-space bytes), and the look-ahead class that lets '%XX' through in the path escaper is exactly the hex digits; (R-3) the set of bytes each escaper may copy unescaped (computed for all 256 bytes / all code points by walking the loop body, for every assignment of the boolean parameters, following delegation) avoids the characters that the context's decoder would not give back. Classes are enumerated exhaustively.",
		notCov:  []string{"loop bookkeeping (last, segment copies, the width added after U+2028/9)", "early returns that are not delegations", "which escaper the renderer picks for a context (C06)", "code points the target language cannot represent (allowed by the property)", "markdown escapers"},
		trusted: []string{"html.UnescapeString of the Go standard library as the HTML entity decoder", "CSS Syntax Level 3 §4.3.7 (escape = up to 6 hex digits + one optional white space), RFC 3986 §2.3 unreserved set, ECMA-404 string escapes — frozen in c07.go"},
		run:     runC07,
	})
}

func runC07(r *Run) {
	const rel = "internal/runtime"
	r.Exhaust = true
	escs := c07Scan(r.P, rel)
	var css, js, html5, pct []*c07Escaper
	for _, e := range escs {
		switch {
		case len(e.tables) > 0 && len(e.preds) > 0:
			css = append(css, e)
		case len(e.tables) > 0 && e.has2028:
			js = append(js, e)
		case e.triple:
			pct = append(pct, e)
		case e.entities > 0:
			html5 = append(html5, e)
		}
	}
	r.Stats["escapers_found"] = len(css) + len(js) + len(html5) + len(pct)
	// fail closed: every function of the package that writes a string to a writer with WriteString must be
	// one of the escapers understood above, a pure delegate, or a reviewed exception
	classified := map[*types.Func]bool{}
	for _, l := range [][]*c07Escaper{css, js, html5, pct} {
		for _, e := range l {
			classified[e.fi.Obj] = true
		}
	}
	for _, fi := range r.P.Funcs(rel) {
		if r.P.isTestFile(fi.File) || fi.Obj == nil || fi.Decl.Recv != nil || c07StrParam(fi) == nil || !c07HasStrWriterParam(fi) || classified[fi.Obj] {
			continue
		}
		if len(fi.Decl.Body.List) == 1 {
			if ret, ok := fi.Decl.Body.List[0].(*ast.ReturnStmt); ok && len(ret.Results) == 1 {
				if call, ok := ast.Unparen(ret.Results[0]).(*ast.CallExpr); ok && classified[callee(fi.Pkg.TypesInfo, call)] {
					continue // pure delegate, checked through the delegation
				}
			}
		}
		o := r.Ob("R-3", funcKey(fi.Obj)+"#escaper-understood", fi.Decl.Pos())
		if why, ok := c07OutOfScope[funcKey(fi.Obj)]; ok {
			o.Trivial("exception: %s", why)
		} else {
			o.Unknown("%s writes a string parameter to a writer but is not recognised as a CSS, JS, HTML or URL escaper (no byte/rune loop over the string, or an unknown shape): its tables and classes are not checked", fi.Name())
		}
	}
	c07CSS(r, css)
	c07JS(r, js, rel)
	c07HTML(r, append(append([]*c07Escaper{}, html5...), pct...))
	c07URL(r, pct)
	r.Require("R-1", 100)
	r.Require("R-2", 2)
	r.Require("R-3", 20)
}

// ---- CSS

func c07CSS(r *Run, css []*c07Escaper) {
	if !r.Anchor("R-1", "CSS string escaper (table-driven escaper of package runtime that calls a byte predicate on the following byte)", len(css) == 1 && len(css[0].tables) == 1 && len(css[0].preds) == 1) {
		return
	}
	e := css[0]
	fi, t := e.fi, e.tables[0]
	info := fi.Pkg.TypesInfo
	if fi.Decl.Name.Name != "cssStringEscape" {
		r.Note("CSS escaper resolved by role to %s", fi.Name())
	}
	if !t.ok {
		r.Ob("R-1", t.name, t.obj.Pos()).Unknown("table not readable: %s", t.why)
		return
	}
	nonHex := map[int64]bool{}
	for _, k := range c07SortedKeys(t.elems) {
		lit := t.elems[k]
		o := r.Ob("R-1", fmt.Sprintf("%s#0x%02x", t.name, k), t.pos[k])
		if lit == "" {
			o.Trivial("empty entry: byte %s is not escaped", c07Ch(k))
			continue
		}
		cp, hex, ok := c07CSSDecode(lit)
		switch {
		case !ok:
			o.Bad("entry for %s is %q, which is not one CSS escape (backslash + 1-6 hex digits, or backslash + one non-hex character)", c07Ch(k), lit)
		case cp != k:
			o.Bad("entry for %s is %q, which CSS decodes to %s (U+%04X), not to %s", c07Ch(k), lit, c07Ch(cp), cp, c07Ch(k))
		default:
			o.OK("CSS decoding of %q is U+%04X == key", lit, cp)
			if !hex {
				nonHex[k] = true
			}
		}
	}
	// terminator exemption: the space is appended unless the escape is not hexadecimal
	pred := c07FuncOf(r.P, e.preds[0])
	var guard *ast.IfStmt
	ast.Inspect(fi.Decl.Body, func(n ast.Node) bool {
		if is, ok := n.(*ast.IfStmt); ok {
			for _, c := range calls(is.Cond, false) {
				if callee(info, c) == e.preds[0] {
					guard = is
				}
			}
		}
		return guard == nil
	})
	o := r.Ob("R-1", funcKey(fi.Obj)+"#terminator-exempt", fi.Decl.Pos())
	if guard == nil {
		o.Unknown("the terminator predicate is not called in an if condition")
	} else {
		o.pos(r, guard.Pos())
		// conjuncts of the guard that speak only about the current byte
		w := c07NewWalker(r.P, fi)
		w.subj, w.idx = e.subj, e.loops[0].idx
		curv := map[types.Object]bool{}
		if e.loops[0].val != nil {
			curv[e.loops[0].val] = true
		}
		ast.Inspect(e.loops[0].body, func(n ast.Node) bool {
			if as, ok := n.(*ast.AssignStmt); ok && len(as.Lhs) == 1 && len(as.Rhs) == 1 && w.isCur(as.Rhs[0]) {
				if id, ok := as.Lhs[0].(*ast.Ident); ok {
					curv[w.objOf(id)] = true
				}
			}
			return true
		})
		exempt := map[int64]bool{}
		undec := ""
		for v := int64(0); v < 256; v++ {
			st := &c07State{env: map[types.Object]c07Val{}}
			for ob := range curv {
				st.env[ob] = c07Int(v)
			}
			w.cur = v
			for _, cj := range splitAnd(guard.Cond) {
				if !w.pure(cj) {
					undec = "guard conjunct with a call: " + exprStr(cj)
					break
				}
				if val := w.eval(cj, st); val.k == 2 && !val.b {
					exempt[v] = true
				}
			}
		}
		switch {
		case undec != "":
			o.Unknown("%s", undec)
		case c07SetStr(exempt) != c07SetStr(nonHex):
			o.Bad("no terminating space is written after the escapes of %s, but the escapes that are not hexadecimal (and so swallow nothing) are those of %s: a hex escape without terminator swallows a following hex digit/space, a space after a non-hex escape is decoded as an extra space", c07SetStr(exempt), c07SetStr(nonHex))
		default:
			o.OK("terminator skipped exactly for %s, the keys whose escape is not hexadecimal", c07SetStr(nonHex))
		}
	}
	// R-2 terminator class
	o2 := r.Ob("R-2", funcKey(fi.Obj)+"#terminator-class", fi.Decl.Pos())
	if pred == nil {
		o2.Unknown("terminator predicate has no body")
	} else {
		o2.pos(r, pred.Decl.Pos())
		cls, why := c07PredClass(r.P, pred, 255)
		need := map[int64]bool{}
		for k := range c07HexDigits {
			need[k] = true
		}
		for k := range c07CSSSpace {
			need[k] = true
		}
		if why != "" {
			o2.Unknown("%s", why)
		} else if miss := c07Minus(need, cls); len(miss) > 0 {
			o2.Bad("%s is true on %s but a CSS hex escape also swallows %s: an escaped character followed by one of these bytes decodes to a different code point (e.g. '<' then 'c' renders \\3cc = U+03CC)", pred.Name(), c07SetStr(cls), c07SetStr(miss))
		} else {
			o2.OK("%s = %s contains the 22 hex digits and the 5 CSS white-space bytes", pred.Name(), c07SetStr(cls))
		}
	}
	// R-3
	for _, b := range c07Bindings(fi) {
		res, via := c07FuncPass(r.P, fi, b, 0)
		c07Excludes(r, fi, b, via, res, "css-string-specials", c07CSSMust, "quote, backslash, newline (LF CR FF), NUL, and < > & (the string may sit in a <style> element or style attribute)")
	}
}

func (o *Obl) pos(r *Run, p token.Pos) { o.Pos = r.P.Pos(p) }

func c07SortedKeys(m map[int64]string) []int64 {
	var ks []int64
	for k := range m {
		ks = append(ks, k)
	}
	sort.Slice(ks, func(i, j int) bool { return ks[i] < ks[j] })
	return ks
}

func c07Key(fi *FuncInfo, b c07Binding) string {
	if b.name == "" {
		return funcKey(fi.Obj)
	}
	return funcKey(fi.Obj) + "[" + b.name + "]"
}

// c07Excludes: the pass-through set avoids must.
func c07Excludes(r *Run, fi *FuncInfo, b c07Binding, via string, res c07PassResult, label string, must map[int64]bool, what string) {
	o := r.Ob("R-3", c07Key(fi, b)+"#excludes:"+label, fi.Decl.Pos())
	v := ""
	if via != "" {
		v = " (through " + via + ")"
	}
	if res.undec != "" {
		o.Unknown("pass-through set not computed%s: %s", v, res.undec)
		return
	}
	if bad := c07Inter(res.pass, must); len(bad) > 0 {
		o.Bad("copies %s unescaped%s; the context requires escaping %s", c07SetStr(bad), v, what)
		return
	}
	o.OK("pass-through set%s has %d values and contains none of %s", v, len(res.pass), c07SetStr(must))
}

// c07Within: the pass-through set stays inside allowed.
func c07Within(r *Run, rule string, fi *FuncInfo, b c07Binding, res c07PassResult, label string, allowed map[int64]bool, what string) {
	o := r.Ob(rule, c07Key(fi, b)+"#within:"+label, fi.Decl.Pos())
	if res.undec != "" {
		o.Unknown("pass-through set not computed: %s", res.undec)
		return
	}
	if bad := c07Minus(res.pass, allowed); len(bad) > 0 {
		o.Bad("copies %s unescaped, outside %s", c07SetStr(bad), what)
		return
	}
	o.OK("pass-through set %s is inside %s", c07SetStr(res.pass), what)
}

// ---- JS / JSON

func c07JS(r *Run, js []*c07Escaper, rel string) {
	if !r.Anchor("R-1", "JS string escaper (table-driven escaper of package runtime that tests U+2028)", len(js) == 1 && len(js[0].tables) == 1) {
		return
	}
	e := js[0]
	fi, t := e.fi, e.tables[0]
	info := fi.Pkg.TypesInfo
	if fi.Decl.Name.Name != "jsStringEscape" {
		r.Note("JS escaper resolved by role to %s", fi.Name())
	}
	if !t.ok {
		r.Ob("R-1", t.name, t.obj.Pos()).Unknown("table not readable: %s", t.why)
		return
	}
	for _, k := range c07SortedKeys(t.elems) {
		lit := t.elems[k]
		o := r.Ob("R-1", fmt.Sprintf("%s#0x%02x", t.name, k), t.pos[k])
		if lit == "" {
			o.Trivial("empty entry: %s is not escaped", c07Ch(k))
			continue
		}
		cp, ok := c07JSONDecode(lit)
		switch {
		case !ok:
			o.Bad("entry for %s is %q, which is not an escape valid in both a JavaScript and a JSON string (\\uXXXX or \\\" \\\\ \\/ \\b \\f \\n \\r \\t); the table serves both contexts", c07Ch(k), lit)
		case cp != k:
			o.Bad("entry for %s is %q, which decodes to U+%04X, not to the key", c07Ch(k), lit, cp)
		default:
			o.OK("JS/JSON decoding of %q is U+%04X == key", lit, cp)
		}
	}
	// clauses `case c == K: esc = lit` outside the table
	loop := e.loops[0]
	n := 0
	ast.Inspect(loop.body, func(nd ast.Node) bool {
		cc, ok := nd.(*ast.CaseClause)
		if !ok {
			return true
		}
		for _, ce := range cc.List {
			be, ok := ast.Unparen(ce).(*ast.BinaryExpr)
			if !ok || be.Op != token.EQL {
				continue
			}
			k, ok := intValue(info, be.Y)
			if !ok {
				k, ok = intValue(info, be.X)
			}
			if !ok {
				continue
			}
			for _, s := range cc.Body {
				as, ok := s.(*ast.AssignStmt)
				if !ok || len(as.Rhs) != 1 {
					continue
				}
				lit, ok := stringValue(info, as.Rhs[0])
				if !ok || lit == "" {
					continue
				}
				n++
				o := r.Ob("R-1", fmt.Sprintf("%s#case:U+%04X", funcKey(fi.Obj), k), as.Pos())
				cp, ok := c07JSONDecode(lit)
				if ok && cp == k {
					o.OK("JS/JSON decoding of %q is U+%04X == case value", lit, cp)
				} else {
					o.Bad("clause for U+%04X writes %q, which decodes to U+%04X (valid escape: %v)", k, lit, cp, ok)
				}
			}
		}
		return true
	})
	// R-3
	for _, b := range c07Bindings(fi) {
		res, via := c07FuncPass(r.P, fi, b, 0)
		c07Excludes(r, fi, b, via, res, "quotes-backslash", c07Set("\"'\\"), "both quotes and the backslash")
		c07Excludes(r, fi, b, via, res, "html-specials", c07Set("<>&"), "< > & (the literal may sit in a <script> element or an event attribute)")
		c07Excludes(r, fi, b, via, res, "C0-controls", c07Set("", 0, 31), "U+0000-U+001F (not allowed raw in a JSON string; line terminators end a JS string)")
		c07Excludes(r, fi, b, via, res, "U+2028-9", c07Set("", 0x2028, 0x2029), "U+2028/U+2029 (line terminators in JavaScript before ES2019)")
	}
	// escapers that only delegate to the JS escaper (the JSON one): same exclusions through the delegation
	for _, f := range r.P.Funcs(rel) {
		if r.P.isTestFile(f.File) || f.Obj == nil || f == fi || c07StrParam(f) == nil || len(c07Loops(f, c07StrParam(f))) > 0 {
			continue
		}
		deleg := false
		for _, c := range calls(f.Decl.Body, false) {
			deleg = deleg || callee(f.Pkg.TypesInfo, c) == fi.Obj
		}
		if !deleg || len(f.Decl.Body.List) != 1 {
			continue
		}
		for _, b := range c07Bindings(f) {
			res, via := c07FuncPass(r.P, f, b, 0)
			c07Excludes(r, f, b, via, res, "json-string-specials", c07JSMust, "quotes, backslash, < > &, C0 controls, U+2028/9")
		}
	}
}

// ---- HTML text / attribute / entity clauses of the URL escapers

// c07EntityClauses checks every `case c: esc = lit` of the byte switches of fi.
func c07EntityClauses(r *Run, e *c07Escaper) {
	fi := e.fi
	info := fi.Pkg.TypesInfo
	w := c07NewWalker(r.P, fi)
	checked := map[*ast.AssignStmt]bool{}
	defer func() {
		n := 0
		for as := range checked {
			if lit, _ := stringValue(info, as.Rhs[0]); strings.HasPrefix(lit, "&") {
				n++
			}
		}
		if n < e.entities {
			r.Ob("R-1", funcKey(fi.Obj)+"#entity-clauses", fi.Decl.Pos()).Unknown("%d assignments of \"&…;\" literals in case clauses, but only %d belong to a switch over the current byte that the rule could read", e.entities, n)
		}
	}()
	for _, l := range e.loops {
		w.subj, w.idx = e.subj, l.idx
		curv := map[types.Object]bool{}
		if l.val != nil {
			curv[l.val] = true
		}
		ast.Inspect(l.body, func(n ast.Node) bool {
			if as, ok := n.(*ast.AssignStmt); ok && len(as.Lhs) == 1 && len(as.Rhs) == 1 && w.isCur(as.Rhs[0]) {
				if id, ok := as.Lhs[0].(*ast.Ident); ok {
					curv[w.objOf(id)] = true
				}
			}
			return true
		})
		ast.Inspect(l.body, func(n ast.Node) bool {
			sw, ok := n.(*ast.SwitchStmt)
			if !ok || sw.Tag == nil {
				return true
			}
			tag := ast.Unparen(sw.Tag)
			isByte := w.isCur(tag)
			if id, ok := tag.(*ast.Ident); ok && curv[w.objOf(id)] {
				isByte = true
			}
			if !isByte {
				return true
			}
			for _, st := range sw.Body.List {
				cc := st.(*ast.CaseClause)
				var lits []*ast.AssignStmt
				for _, s := range cc.Body {
					ast.Inspect(s, func(m ast.Node) bool {
						if _, ok := m.(*ast.FuncLit); ok {
							return false
						}
						if as, ok := m.(*ast.AssignStmt); ok && len(as.Rhs) == 1 && len(as.Lhs) == 1 {
							if lit, ok := stringValue(info, as.Rhs[0]); ok && lit != "" {
								if _, isId := as.Lhs[0].(*ast.Ident); isId {
									lits = append(lits, as)
								}
							}
						}
						return true
					})
				}
				if len(lits) == 0 {
					continue
				}
				if cc.List == nil {
					r.Ob("R-1", funcKey(fi.Obj)+"#case:default", cc.Pos()).Unknown("the default clause writes a constant escape: one literal cannot decode to every remaining byte")
					continue
				}
				for _, ce := range cc.List {
					k, ok := intValue(info, ce)
					if !ok {
						r.Ob("R-1", funcKey(fi.Obj)+"#case:"+exprStr(ce), ce.Pos()).Unknown("non-constant case value")
						continue
					}
					for _, as := range lits {
						lit, _ := stringValue(info, as.Rhs[0])
						checked[as] = true
						o := r.Ob("R-1", fmt.Sprintf("%s#case:0x%02x", funcKey(fi.Obj), k), as.Pos())
						ok, fact := c07EntityDecodes(lit, k)
						if ok {
							o.OK("%s == %q", fact, string(rune(k)))
						} else {
							o.Bad("clause for %s writes %q but %s, not %q", c07Ch(k), lit, fact, string(rune(k)))
						}
					}
				}
			}
			return true
		})
	}
}

func c07HTML(r *Run, hs []*c07Escaper) {
	n := 0
	for _, e := range hs {
		if e.entities > 0 {
			n++
			c07EntityClauses(r, e)
		}
	}
	r.Anchor("R-1", "HTML escapers (functions of package runtime whose byte switch assigns \"&…;\" literals); at least 3 expected", n >= 3)
	for _, e := range hs {
		if e.triple || e.entities == 0 {
			continue
		}
		fi := e.fi
		_, hasQuoted := c07BoolParam(fi, "quoted")
		for _, b := range c07Bindings(fi) {
			res, via := c07FuncPass(r.P, fi, b, 0)
			c07Excludes(r, fi, b, via, res, "html-quotes-angles", c07HTMLFour, "< > \" '")
			// ampersand, with the documented exceptions
			reason := c07AmpExceptions[funcKey(fi.Obj)]
			for k, v := range b.vals {
				if rs, ok := c07AmpExceptions[fmt.Sprintf("%s[%s=%v]", funcKey(fi.Obj), k, v)]; ok {
					reason = rs
				}
			}
			if reason == "" {
				reason = c07InheritedAmp(r, fi, b)
			}
			if reason != "" {
				r.Ob("R-3", c07Key(fi, b)+"#excludes:ampersand", fi.Decl.Pos()).Trivial("exception: %s", reason)
			} else {
				c07Excludes(r, fi, b, via, res, "ampersand", c07Set("&"), "& (an unescaped ampersand followed by a name or # is decoded as a character reference)")
			}
			if hasQuoted && !b.vals["quoted"] {
				c07Excludes(r, fi, b, via, res, "unquoted-attr-terminators", c07AttrBreak, "white space and '>' (they end an unquoted attribute value, so decoding gives a prefix of the original)")
			}
		}
	}
}

func c07BoolParam(fi *FuncInfo, name string) (*types.Var, bool) {
	ps := fi.Obj.Type().(*types.Signature).Params()
	for i := 0; i < ps.Len(); i++ {
		if ps.At(i).Name() == name {
			if b, ok := ps.At(i).Type().Underlying().(*types.Basic); ok && b.Kind() == types.Bool {
				return ps.At(i), true
			}
		}
	}
	return nil, false
}

// ---- URL escapers

func c07URL(r *Run, pct []*c07Escaper) {
	var query *c07Escaper
	for _, e := range pct {
		if strings.Contains(strings.ToLower(e.fi.Decl.Name.Name), "query") {
			if query != nil {
				query = nil
				break
			}
			query = e
		}
	}
	r.Anchor("R-3", "URL query escaper (the percent-escaping function of package runtime named *query*)", query != nil)
	r.Anchor("R-1", "two percent-escaping functions in package runtime (path and query)", len(pct) >= 2)
	for _, e := range pct {
		fi := e.fi
		c07TripleObls(r, "R-1", fi)
		_, hasQuoted := c07BoolParam(fi, "quoted")
		for _, b := range c07Bindings(fi) {
			res, via := c07FuncPass(r.P, fi, b, 0)
			_ = via
			if e == query {
				c07Within(r, "R-3", fi, b, res, "unreserved", c07Unreserved, "the RFC 3986 unreserved set {A-Z a-z 0-9 - . _ ~}")
				continue
			}
			c07Within(r, "R-3", fi, b, res, "url-path-chars", c07URLWide, "RFC 3986 unreserved ∪ gen-delims ∪ sub-delims without ' and & ∪ {%, space}")
			if hasQuoted && !b.vals["quoted"] {
				c07Excludes(r, fi, b, "", res, "unquoted-attr-terminators", c07AttrBreak, "white space and '>' (they end an unquoted attribute value)")
			}
		}
		// look-ahead class that lets an existing %XX through
		for _, pf := range e.preds {
			pfi := c07FuncOf(r.P, pf)
			o := r.Ob("R-2", funcKey(fi.Obj)+"#percent-lookahead-class:"+pf.Name(), fi.Decl.Pos())
			if pfi == nil {
				o.Unknown("predicate %s has no body", pf.Name())
				continue
			}
			o.pos(r, pfi.Decl.Pos())
			cls, why := c07PredClass(r.P, pfi, 255)
			switch {
			case why != "":
				o.Unknown("%s", why)
			case c07SetStr(cls) != c07SetStr(c07HexDigits):
				o.Bad("%s = %s, but '%%' may be copied unescaped only before two hexadecimal digits %s: extra %s, missing %s", pf.Name(), c07SetStr(cls), c07SetStr(c07HexDigits), c07SetStr(c07Minus(cls, c07HexDigits)), c07SetStr(c07Minus(c07HexDigits, cls)))
			default:
				o.OK("%s = %s is exactly the hexadecimal digits", pf.Name(), c07SetStr(cls))
			}
		}
	}
}

// c07TripleObls reports the percent triple and the alphabet of fi.
func c07TripleObls(r *Run, rule string, fi *FuncInfo) {
	t := c07PercentTriple(r.P, fi)
	o := r.Ob(rule, funcKey(fi.Obj)+"#percent-triple", fi.Decl.Pos())
	switch {
	case !t.found:
		o.Unknown("no store of '%%' followed by two alphabet look-ups found")
		return
	case t.undec != "":
		o.pos(r, t.pos)
		o.Unknown("%s", t.undec)
	case t.bad != "":
		o.pos(r, t.pos)
		o.Bad("%s", t.bad)
	default:
		o.pos(r, t.pos)
		o.OK("%s", t.fact)
	}
	if t.alphabet != "" {
		o2 := r.Ob(rule, funcKey(fi.Obj)+"#hex-alphabet", t.alphaPos)
		if c07AlphabetOK(t.alphabet) {
			o2.OK("digit alphabet %q is the 16 hexadecimal digits in order", t.alphabet)
		} else {
			o2.Bad("digit alphabet %q is not the 16 hexadecimal digits in order", t.alphabet)
		}
	}
}

// c07InheritedAmp: an escaper shared by several wrappers (escapeHTML(w, s, entities)) inherits the
// ampersand exception of a documented wrapper for the binding that wrapper fixes, when every call of the
// shared function with those constant boolean arguments is made by a wrapper listed in c07AmpExceptions.
// (Added after a maintenance edit merged htmlEscape and htmlNoEntitiesEscape into one function.)
func c07InheritedAmp(r *Run, fi *FuncInfo, b c07Binding) string {
	if len(b.vals) == 0 {
		return ""
	}
	sig := fi.Obj.Type().(*types.Signature)
	matches := func(info *types.Info, c *ast.CallExpr) bool {
		n := 0
		for i := 0; i < sig.Params().Len() && i < len(c.Args); i++ {
			want, has := b.vals[sig.Params().At(i).Name()]
			if !has {
				continue
			}
			tv, ok := info.Types[c.Args[i]]
			if !ok || tv.Value == nil || tv.Value.String() != map[bool]string{true: "true", false: "false"}[want] {
				return false
			}
			n++
		}
		return n == len(b.vals)
	}
	reason := ""
	for _, caller := range r.P.Funcs("internal/runtime") {
		if r.P.isTestFile(caller.File) || caller.Obj == nil || caller.Obj == fi.Obj {
			continue
		}
		for _, c := range calls(caller.Decl.Body, true) {
			if callee(caller.Pkg.TypesInfo, c) != fi.Obj || !matches(caller.Pkg.TypesInfo, c) {
				continue
			}
			why, ok := c07AmpExceptions[funcKey(caller.Obj)]
			if !ok {
				return "" // reached with this binding from a function that is not a documented exception
			}
			reason = "through its wrapper " + funcKey(caller.Obj) + ", " + why
		}
	}
	return reason
}

// c07OffsetTriple recognises three index expressions v+a, v+b, v+c over one variable v (a missing offset
// is 0) and returns the offsets.
func c07OffsetTriple(info *types.Info, es ...ast.Expr) ([3]int64, bool) {
	var out [3]int64
	var base types.Object
	for i, e := range es {
		e = ast.Unparen(e)
		off := int64(0)
		if be, ok := e.(*ast.BinaryExpr); ok && be.Op == token.ADD {
			if k, ok := intValue(info, be.Y); ok {
				e, off = ast.Unparen(be.X), k
			} else if k, ok := intValue(info, be.X); ok {
				e, off = ast.Unparen(be.Y), k
			}
		}
		id, ok := e.(*ast.Ident)
		if !ok || info.Uses[id] == nil {
			return out, false
		}
		if base == nil {
			base = info.Uses[id]
		} else if info.Uses[id] != base {
			return out, false
		}
		out[i] = off
	}
	if out[0] == out[1] && out[1] == out[2] {
		return out, false // the same expression three times: the incremented-variable form
	}
	return out, true
}
