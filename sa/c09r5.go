package main

// C09 R-5 (added after seeded change C09-8): a clause that matches is a clause that handles.
//
// R-1 counts an interface as handled by a show function as soon as the function's type switch has a
// clause for it. That is only true when the clause converts the value itself. In every function of
// package runtime that dispatches on the dynamic type of a value with a type switch, a clause for an
// interface type the static check accepts (fmt.Stringer, native.EnvStringer, error, the format Stringers)
// never flows into the generic, kind based conversion (toString) of the same, still unconverted, value:
// a value accepted only because it implements the interface has any kind (struct, pointer, ...), and the
// generic conversion answers "cannot show value of type T" for those. Decided on the control-flow graph:
// from the body of the clause no path reaches a toString call whose argument is the switched value (or one
// of the per-clause variables of the same switch) unless the value has been re-assigned a converted
// (string / basic kind) value on the way. Paths are followed with the constant values of local bool flags
// (`handled = true` ... `if !handled`), so the flag idiom is read as well as break / early return.
//
// This file also holds the flow helpers shared with R-6 (c09r6.go).

import (
	"fmt"
	"go/ast"
	"go/constant"
	"go/token"
	"go/types"
	"sort"
	"strings"

	"golang.org/x/tools/go/cfg"
)

func init() {
	p := registry["C09"]
	if p == nil {
		return
	}
	run := p.run
	p.run = func(r *Run) { run(r); c09ClauseHandles(r) }
	p.explain += " R-5: in the runtime's type switches over a shown value (or a map key), no path leads from a clause for a statically accepted interface to the generic kind-based conversion (toString) of the still unconverted value."
}

// c09flow is the context shared by R-5 and R-6.
type c09flow struct {
	r      *Run
	x      *c09
	ts     *FuncInfo      // the generic conversion
	tsFail map[int64]bool // kinds for which it reports "cannot show"
	funcs  map[*types.Func]*FuncInfo
	// interfaces accepted by the static check, per context value, and their union
	accByCtx map[int64][]types.Type
	accAll   []types.Type
	chk      *FuncInfo
}

func c09NewFlow(r *Run, rule string) *c09flow {
	x := &c09{r: r}
	x.kindT = r.P.ExtNamed("reflect", "Kind")
	x.ctxT = r.P.Named("ast", "Context")
	if !r.Anchor(rule, "reflect.Kind", x.kindT != nil) || !r.Anchor(rule, "ast.Context", x.ctxT != nil) {
		return nil
	}
	x.kinds = EnumConsts(x.kindT)
	for _, c := range x.kinds {
		v, _ := intValue64(c)
		if _, dup := kindNames[v]; !dup {
			kindNames[v] = c.Name()
		}
		if v > x.maxKind {
			x.maxKind = v
		}
	}
	f := &c09flow{r: r, x: x, funcs: map[*types.Func]*FuncInfo{}, accByCtx: map[int64][]types.Type{}}
	f.ts = r.NeedFunc(rule, "internal/runtime", "toString")
	if f.ts == nil {
		return nil
	}
	fail, ok := x.toStringFail(f.ts)
	if !r.Anchor(rule, "toString: one switch on reflect.Kind with failing kinds", ok && len(fail) > 0) {
		return nil
	}
	f.tsFail = fail
	for _, fi := range r.P.Funcs("internal/runtime") {
		if !r.P.isTestFile(fi.File) && fi.Obj != nil {
			f.funcs[fi.Obj] = fi
		}
	}
	f.chk = x.findCheckShow()
	if !r.Anchor(rule, "compiler.checkShow", f.chk != nil) {
		return nil
	}
	acc, keys := x.acceptTable(f.chk)
	add := func(dst []types.Type, t types.Type) []types.Type {
		for _, u := range dst {
			if types.Identical(u, t) {
				return dst
			}
		}
		return append(dst, t)
	}
	for v, cls := range acc {
		for _, c := range cls {
			if c.what == "impl" {
				f.accByCtx[v] = add(f.accByCtx[v], c.typ)
				f.accAll = add(f.accAll, c.typ)
			}
		}
	}
	for _, cls := range keys {
		for _, c := range cls {
			if c.what == "impl" {
				f.accAll = add(f.accAll, c.typ)
			}
		}
	}
	if !r.Anchor(rule, "interfaces accepted by checkShow", len(f.accAll) > 0) {
		return nil
	}
	return f
}

// c09covers reports whether a value accepted because it implements `accepted` always matches a clause
// (or assertion) for the interface type `clause`: the accepted interface's method set includes it.
func c09covers(accepted, clause types.Type) bool {
	ci, ok := clause.Underlying().(*types.Interface)
	if !ok || ci.NumMethods() == 0 {
		return false
	}
	return types.Implements(accepted, ci)
}

// c09tsw is one type switch of a function.
type c09tsw struct {
	stmt    *ast.TypeSwitchStmt
	subj    ast.Expr
	subjObj types.Object // the switched variable when the subject is an identifier
	impl    map[types.Object]bool
}

// c09TypeSwitches lists the type switches of a function body (function literals excluded).
func c09TypeSwitches(info *types.Info, body *ast.BlockStmt) []*c09tsw {
	var out []*c09tsw
	ast.Inspect(body, func(n ast.Node) bool {
		if _, ok := n.(*ast.FuncLit); ok {
			return false
		}
		s, ok := n.(*ast.TypeSwitchStmt)
		if !ok {
			return true
		}
		var ta *ast.TypeAssertExpr
		switch a := s.Assign.(type) {
		case *ast.ExprStmt:
			ta, _ = ast.Unparen(a.X).(*ast.TypeAssertExpr)
		case *ast.AssignStmt:
			if len(a.Rhs) == 1 {
				ta, _ = ast.Unparen(a.Rhs[0]).(*ast.TypeAssertExpr)
			}
		}
		if ta == nil {
			return true
		}
		t := &c09tsw{stmt: s, subj: ta.X, impl: map[types.Object]bool{}}
		if id, ok := ast.Unparen(ta.X).(*ast.Ident); ok {
			t.subjObj = info.Uses[id]
		}
		for _, st := range s.Body.List {
			if o := info.Implicits[st]; o != nil {
				t.impl[o] = true
			}
		}
		out = append(out, t)
		return true
	})
	return out
}

// c09Aliases returns the variables that hold the value of `root` unchanged: root itself and the
// per-clause variables of the type switches over it.
func c09Aliases(root types.Object, sws []*c09tsw) map[types.Object]bool {
	a := map[types.Object]bool{root: true}
	for changed := true; changed; {
		changed = false
		for _, s := range sws {
			if s.subjObj != nil && a[s.subjObj] {
				for o := range s.impl {
					if !a[o] {
						a[o], changed = true, true
					}
				}
			}
		}
	}
	return a
}

// c09walk follows the control-flow graph with the constant values of local bool variables.
type c09walk struct {
	c       *CFGInfo
	info    *types.Info
	noTrack map[types.Object]bool // bool variables whose address is taken or that a closure captures
}

func c09NewWalk(p *Prog, fi *FuncInfo) *c09walk {
	w := &c09walk{c: p.CFGOf(fi), info: fi.Pkg.TypesInfo, noTrack: map[types.Object]bool{}}
	ast.Inspect(fi.Decl.Body, func(n ast.Node) bool {
		switch m := n.(type) {
		case *ast.UnaryExpr:
			if m.Op == token.AND {
				if id, ok := ast.Unparen(m.X).(*ast.Ident); ok {
					w.noTrack[w.info.Uses[id]] = true
				}
			}
		case *ast.FuncLit:
			ast.Inspect(m.Body, func(q ast.Node) bool {
				if id, ok := q.(*ast.Ident); ok {
					if o := w.info.Uses[id]; o != nil {
						w.noTrack[o] = true
					}
				}
				return true
			})
			return false
		}
		return true
	})
	return w
}

func (w *c09walk) obj(e ast.Expr) types.Object {
	id, ok := ast.Unparen(e).(*ast.Ident)
	if !ok {
		return nil
	}
	if o := w.info.Defs[id]; o != nil {
		return o
	}
	return w.info.Uses[id]
}

func c09isBoolVar(o types.Object) bool {
	v, ok := o.(*types.Var)
	if !ok {
		return false
	}
	b, ok := v.Type().Underlying().(*types.Basic)
	return ok && b.Kind() == types.Bool
}

// step updates the known bool constants with the effect of one CFG node.
func (w *c09walk) step(n ast.Node, env map[types.Object]bool) {
	set := func(lhs ast.Expr, rhs ast.Expr) {
		o := w.obj(lhs)
		if o == nil || !c09isBoolVar(o) || w.noTrack[o] {
			return
		}
		delete(env, o)
		if rhs == nil {
			return
		}
		if tv, ok := w.info.Types[rhs]; ok && tv.Value != nil && tv.Value.Kind() == constant.Bool {
			env[o] = constant.BoolVal(tv.Value)
		}
	}
	switch s := n.(type) {
	case *ast.AssignStmt:
		for i, l := range s.Lhs {
			var rhs ast.Expr
			if len(s.Rhs) == len(s.Lhs) && (s.Tok == token.ASSIGN || s.Tok == token.DEFINE) {
				rhs = s.Rhs[i]
			}
			set(l, rhs)
		}
	case *ast.DeclStmt:
		gd, ok := s.Decl.(*ast.GenDecl)
		if !ok {
			return
		}
		for _, sp := range gd.Specs {
			vs, ok := sp.(*ast.ValueSpec)
			if !ok {
				continue
			}
			for i, id := range vs.Names {
				o := w.info.Defs[id]
				if o == nil || !c09isBoolVar(o) || w.noTrack[o] {
					continue
				}
				if len(vs.Values) == 0 {
					env[o] = false
				} else if len(vs.Values) == len(vs.Names) {
					set(id, vs.Values[i])
				}
			}
		}
	case *ast.ValueSpec:
		for i, id := range s.Names {
			o := w.info.Defs[id]
			if o == nil || !c09isBoolVar(o) || w.noTrack[o] {
				continue
			}
			if len(s.Values) == 0 {
				env[o] = false
			} else if len(s.Values) == len(s.Names) {
				set(id, s.Values[i])
			}
		}
	}
}

// eval evaluates a boolean condition over the known constants.
func (w *c09walk) eval(e ast.Expr, env map[types.Object]bool) (val, known bool) {
	e = ast.Unparen(e)
	if tv, ok := w.info.Types[e]; ok && tv.Value != nil && tv.Value.Kind() == constant.Bool {
		return constant.BoolVal(tv.Value), true
	}
	switch x := e.(type) {
	case *ast.Ident:
		if o := w.info.Uses[x]; o != nil {
			v, ok := env[o]
			return v, ok
		}
	case *ast.UnaryExpr:
		if x.Op == token.NOT {
			v, ok := w.eval(x.X, env)
			return !v, ok
		}
	case *ast.BinaryExpr:
		if x.Op == token.LAND || x.Op == token.LOR {
			a, ak := w.eval(x.X, env)
			b, bk := w.eval(x.Y, env)
			if x.Op == token.LAND {
				if (ak && !a) || (bk && !b) {
					return false, true
				}
				return a && b, ak && bk
			}
			if (ak && a) || (bk && b) {
				return true, true
			}
			return a || b, ak && bk
		}
	}
	return false, false
}

func c09envKey(b *cfg.Block, env map[types.Object]bool) string {
	var parts []string
	for o, v := range env {
		parts = append(parts, fmt.Sprintf("%d=%v", o.Pos(), v))
	}
	sort.Strings(parts)
	return fmt.Sprintf("%d|%s", b.Index, strings.Join(parts, ","))
}

// reaches reports whether execution started at node `start` of block `from` can reach the CFG node that
// contains `site` without first executing a node for which stop is true. When via is not nil only the
// paths that enter block via count, and stop applies only after via has been entered (from is then the
// function's entry, so that the bool constants set before via are known). env holds the bool constants
// known at the start (may be nil).
func (w *c09walk) reaches(from *cfg.Block, start int, site ast.Node, stop func(ast.Node) bool, env map[types.Object]bool, via *cfg.Block) bool {
	tb, ti := w.c.Locate(site)
	if tb == nil || from == nil {
		return true // cannot be decided: assume reachable (fail closed)
	}
	seen := map[string]bool{}
	var walk func(b *cfg.Block, i0 int, env map[types.Object]bool, passed bool) bool
	walk = func(b *cfg.Block, i0 int, env map[types.Object]bool, passed bool) bool {
		if b == via {
			passed = true
		}
		if i0 == 0 {
			k := c09envKey(b, env)
			if passed {
				k += "|via"
			}
			if seen[k] {
				return false
			}
			seen[k] = true
		}
		for i := i0; i < len(b.Nodes); i++ {
			if passed {
				if b == tb && i == ti {
					return true
				}
				if stop != nil && stop(b.Nodes[i]) {
					return false
				}
			}
			w.step(b.Nodes[i], env)
		}
		succs := b.Succs
		if len(succs) == 2 {
			if cd := w.c.CondOf(b); cd != nil && cd.Tag == nil {
				if v, ok := w.eval(cd.Expr, env); ok {
					if v {
						succs = succs[:1]
					} else {
						succs = succs[1:]
					}
				}
			}
		}
		for _, s := range succs {
			e2 := make(map[types.Object]bool, len(env))
			for k, v := range env {
				e2[k] = v
			}
			if walk(s, 0, e2, passed) {
				return true
			}
		}
		return false
	}
	if env == nil {
		env = map[types.Object]bool{}
	}
	return walk(from, start, env, via == nil)
}

// clauseBlock returns the block where the body of a (type) switch clause starts.
func (w *c09walk) clauseBlock(cc *ast.CaseClause) *cfg.Block {
	for _, b := range w.c.G.Blocks {
		if b.Kind == cfg.KindSwitchCaseBody && b.Stmt == ast.Stmt(cc) {
			return b
		}
	}
	return nil
}

// c09kill reports whether node n re-assigns variable obj a value that the generic conversion accepts
// (a non-interface static type whose kind has a clause in toString).
func (f *c09flow) kills(info *types.Info, n ast.Node, obj types.Object) bool {
	as, ok := n.(*ast.AssignStmt)
	if !ok || obj == nil || as.Tok != token.ASSIGN || len(as.Lhs) != len(as.Rhs) {
		return false
	}
	for i, l := range as.Lhs {
		id, ok := ast.Unparen(l).(*ast.Ident)
		if !ok || info.Uses[id] != obj {
			continue
		}
		t := info.TypeOf(as.Rhs[i])
		if t == nil {
			return false
		}
		if _, isI := t.Underlying().(*types.Interface); isI {
			return false
		}
		if k, known := kindOfType(t); known && !f.tsFail[k] {
			return true
		}
	}
	return false
}

// genericSites lists the calls of the generic conversion in body whose converted argument is one of vars.
func (f *c09flow) genericSites(info *types.Info, body *ast.BlockStmt, vars map[types.Object]bool) []*ast.CallExpr {
	var out []*ast.CallExpr
	for _, c := range calls(body, false) {
		if callee(info, c) != f.ts.Obj || len(c.Args) == 0 {
			continue
		}
		if id, ok := ast.Unparen(c.Args[len(c.Args)-1]).(*ast.Ident); ok && vars[info.Uses[id]] {
			out = append(out, c)
		}
	}
	return out
}

func c09ClauseHandles(r *Run) {
	const R = "R-5"
	f := c09NewFlow(r, R)
	if f == nil {
		return
	}
	n := 0
	var fis []*FuncInfo
	for _, fi := range f.funcs {
		fis = append(fis, fi)
	}
	sort.Slice(fis, func(i, j int) bool { return fis[i].Decl.Pos() < fis[j].Decl.Pos() })
	for _, fi := range fis {
		info := fi.Pkg.TypesInfo
		sws := c09TypeSwitches(info, fi.Decl.Body)
		if len(sws) == 0 {
			continue
		}
		var w *c09walk
		for _, s := range sws {
			vars := map[types.Object]bool{}
			if s.subjObj != nil {
				vars = c09Aliases(s.subjObj, sws)
			} else {
				for o := range s.impl {
					vars[o] = true
				}
			}
			sites := f.genericSites(info, fi.Decl.Body, vars)
			for _, st := range s.stmt.Body.List {
				cc := st.(*ast.CaseClause)
				for _, te := range cc.List {
					t := info.TypeOf(te)
					if t == nil {
						continue
					}
					it, isI := t.Underlying().(*types.Interface)
					if !isI || it.NumMethods() == 0 {
						continue
					}
					accepted := false
					for _, a := range f.accAll {
						if c09covers(a, t) {
							accepted = true
						}
					}
					if !accepted {
						continue // no type is accepted statically because it implements this interface
					}
					n++
					o := r.Ob(R, fi.Name()+"#switch "+exprStr(s.subj)+".(type):case "+typeStr(t), te.Pos())
					if len(sites) == 0 {
						o.OK("%s has no generic conversion of the switched value", fi.Name())
						continue
					}
					if w == nil {
						w = c09NewWalk(r.P, fi)
					}
					blk := w.clauseBlock(cc)
					stop := func(m ast.Node) bool {
						return m == ast.Node(s.stmt.Assign) || f.kills(info, m, s.subjObj)
					}
					bad := ""
					for _, site := range sites {
						if blk == nil || w.reaches(w.c.G.Blocks[0], 0, site, stop, nil, blk) {
							bad = r.P.Pos(site.Pos())
							break
						}
					}
					if bad == "" {
						o.OK("the clause converts the value itself: no path from it reaches the generic conversion of the unconverted value (%d conversion site(s))", len(sites))
					} else {
						o.Bad("a path leads from the clause for %s to the generic conversion %s(…, %s) at %s with the value still unconverted: a value accepted statically because it implements %s (a struct, a pointer, …) matches this clause and then fails with 'cannot show value of type …'", typeStr(t), f.ts.Decl.Name.Name, exprStr(s.subj), bad, typeStr(t))
					}
				}
			}
		}
	}
	r.Require(R, 20)
}
