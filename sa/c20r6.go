package main

// C20 R-6: what the emitter narrows into an operand fits the operand.
//
// Instruction operands are int8. A count, a length or an index that the emitter passes as an operand is
// written int8(v); the VM reads an immediate back by sign extension (intk: int64(r)), so a value above 127
// becomes another, valid looking, operand: a negative length, a wrapped index. Nothing fails at build time;
// a program within every limit (or one that should have been rejected with a limit error) is built into
// wrong code. R-3 audits these conversions in the builder and in the stores; R-6 audits them in every
// other function of package compiler that drives the function builder (the emitter).
//
// The operand of each narrowing conversion must have an upper bound that fits the target type. Bounds:
//
//	(a) everything R-3 knows (constants, comparisons on dominating edges, limited tables, callee results,
//	    arguments of all callers);
//	(b) path-wise: on every path to the conversion, the last thing that happened to the variable is either an
//	    assignment of a fitting value or the passing edge of a comparison with a constant (also through a
//	    bool local that holds the comparison, provided the variable is not assigned in between);
//	(b') the index of a loop over a sequence is at most K-1 when, on every path to the loop, the length of the
//	    sequence (len(s), or n := len(s)) passed the edge of a comparison implying len(s) <= K and s is not assigned
//	    between the comparison and the loop;
//	(c) register pressure: a loop that allocates, in every iteration, a register of a loop-invariant kind
//	    which is not released before the loop ends (not inside an enter/exit pair of the register stack)
//	    cannot complete more iterations than there are registers of one kind: the allocator panics with the
//	    limit error first and the build fails cleanly. Hence the trip count, the loop variable, and the
//	    length of a slice that receives one element per iteration are bounded by the register limit.
//
// Nothing is recognised by name: the register allocator is the function of package compiler whose limit
// panic is guarded by a comparison on an int8 count (as in R-2), the counter is the field that comparison
// reads, "exit" is the builder method that assigns the counter and pops a slice field, "enter" the one that
// pushes on that slice field, wrappers are followed.

import (
	"fmt"
	"go/ast"
	"go/token"
	"go/types"
	"os"
	"sort"
	"strings"

	"golang.org/x/tools/go/cfg"
)

func init() {
	p := registry["C20"]
	if p == nil {
		return
	}
	run := p.run
	p.run = func(r *Run) { run(r); c20EmitterNarrowing(r, "R-6") }
	p.explain += " R-6: in every function of package compiler outside the scope of R-3 that calls methods of the function builder, the operand of every narrowing integer conversion has an upper bound that fits the target type (127 for int8: immediates are sign-extended by the VM); the bound comes from R-3's engine, from a path-wise reaching-definition/guard analysis of the converted local (comparisons with constants, also held in a bool local), from a guard on the length of the sequence a loop ranges over (the index of `for i := range s` / `for i := 0; i < len(s) or n; i++` is at most K-1 when every path to the loop passes an edge on which len(s) <= K — also written on n := len(s) or held in a bool local — with no assignment to s in between), or from register pressure (a loop retaining one register of a loop-invariant kind per iteration completes at most maxRegistersCount iterations, otherwise the allocator raises the limit error)."
	// the narrowing conversions of the emitter are no longer outside the rules
	var nc []string
	for _, n := range p.notCov {
		if !strings.HasPrefix(n, "narrowing conversions in emitter files other than the stores") {
			nc = append(nc, n)
		}
	}
	p.notCov = append(nc,
		"R-6: narrowing conversions in functions of package compiler that neither call the function builder nor return a small integer to a function that does (checker, parser, disassembler)",
		"R-6: the four listed conversions whose bound is established in another function (variadic count of native calls, f(g()) with f variadic)",
		"R-7: wrapping differences and operands computed in wider types and narrowed (R-6 audits those)",
	)
	p.trusted = append(p.trusted,
		"R-6: functions other than the enter/exit functions of the register stack and their straight-line wrappers leave the register stack as they found it (documented contract of enterStack/exitStack)",
		"R-6: methods called to compute the kind of an allocated register (reflect.Type.Kind, Elem) are pure",
	)
}

// listed exceptions: one construct, one reason (the bound exists but is established in another function). An entry
// names the function, what the conversion feeds, and (when the function has several such sites) the module function
// from whose result the operand is computed.
var c20R6Exceptions = []struct{ fn, feeds, from, why string }{
	{"compiler.(*emitter).emitCallNode", "emitCallNative(numVariadic)", "", "the variadic arguments of a native call have been emitted just before by prepareCallParameters (predefined branch), one retained register of the same kind each, so their number is at most maxRegistersCount; the count is recomputed here from the same call"},
	{"compiler.(*emitter).emitCallNode", "emitDefer(numVariadic)", "", "same count as for emitCallNative: one retained register of the same kind for each variadic argument, allocated by prepareCallParameters"},
	{"compiler.(*emitter).prepareCallParameters", "emitMakeSlice(len)", "numOut", "f(g()) with f variadic and declared in Scriggo: the loop that follows retains one int register for each of the len(gOutRegs)-nonVarArgsCount values, and emitCallNode(g) returns as many registers as numOut(g) reports"},
	{"compiler.(*emitter).prepareCallParameters", "emitMakeSlice(cap)", "numOut", "same value as the length operand"},
}

func c20R6Exception(fn, feeds, discr string) (string, bool) {
	for _, e := range c20R6Exceptions {
		if e.fn != fn || e.feeds != feeds {
			continue
		}
		if e.from == "" {
			return e.why, true
		}
		for _, f := range strings.Split(strings.Trim(discr, "[]"), ",") {
			if f == e.from {
				return e.why, true
			}
		}
	}
	return "", false
}

type c20r6 struct {
	x        *c20
	r        *Run
	R        string
	allocs   map[*types.Func]bool // register allocators and their wrappers
	limit    int64                // registers of one kind
	counter  *types.Var           // the field counting allocated registers
	builderT *types.Named
	net      map[*types.Func]int // effect on the register stack depth: +1 enter, -1 exit
	loops    map[*FuncInfo][]*c20Loop
}

type c20Loop struct {
	stmt     ast.Stmt
	body     *ast.BlockStmt
	rangeInt ast.Expr     // for i := range n
	rangeSeq ast.Expr     // for _, v := range s
	key      types.Object // loop variable
	init     ast.Expr     // for i := init; i < bound; i++
	bound    ast.Expr
	retains  bool
	why      string
}

func c20EmitterNarrowing(r *Run, R string) {
	x := c20cur
	if !r.Anchor(R, "the C20 analysis state (tables, limits, call index)", x != nil && x.r == r) {
		return
	}
	q := &c20r6{x: x, r: r, R: R, allocs: map[*types.Func]bool{}, net: map[*types.Func]int{}, loops: map[*FuncInfo][]*c20Loop{}}
	q.findAllocator()
	if !r.Anchor(R, "the register allocator (limit panic guarded by a comparison on an int8 count) and its receiver type", len(q.allocs) > 0 && q.builderT != nil) {
		return
	}
	q.findStackOps()
	enter, exit := 0, 0
	for _, n := range q.net {
		if n > 0 {
			enter++
		} else if n < 0 {
			exit++
		}
	}
	if !r.Anchor(R, "the enter/exit functions of the register stack (push on / pop from a slice field, exit assigning the register counter)", enter > 0 && exit > 0) {
		return
	}
	total := 0
	for _, fi := range q.scope() {
		total += q.auditFunc(fi)
	}
	r.Stats["R-6 conversions audited"] = total
	r.Require(R, 12)
	c20dump(r, R)
}

// c20dump lists the obligations of a rule on stderr when C20_DEBUG is set (development aid).
func c20dump(r *Run, R string) {
	if os.Getenv("C20_DEBUG") == "" {
		return
	}
	for _, o := range r.Obls {
		if o.Rule == R {
			fmt.Fprintf(os.Stderr, "%s %s %s [%s]\n    %s\n", o.Rule, o.Verdict, o.Construct, o.Pos, o.Fact)
		}
	}
}

// ---------------------------------------------------------------------------
// anchors by role

func (q *c20r6) findAllocator() {
	x, r := q.x, q.r
	for _, fi := range r.P.Funcs("internal/compiler") {
		if r.P.isTestFile(fi.File) || fi.Obj == nil {
			continue
		}
		info := fi.Pkg.TypesInfo
		var c *CFGInfo
		ast.Inspect(fi.Decl.Body, func(m ast.Node) bool {
			es, ok := m.(*ast.ExprStmt)
			if !ok || !x.isLimitPanic(info, es) {
				return true
			}
			if c == nil {
				c = r.P.CFGOf(fi)
			}
			var cmp *ast.BinaryExpr
			c.GuardedBy(es, func(l Lit) bool {
				be, ok := ast.Unparen(l.Expr).(*ast.BinaryExpr)
				if ok && l.Tag == nil && l.Truth && cmp == nil {
					switch be.Op {
					case token.EQL, token.GEQ, token.GTR:
						cmp = be
					}
				}
				return false
			})
			if cmp == nil {
				return true
			}
			L, K := cmp.X, cmp.Y
			if _, isK := intValue(info, L); isK {
				L, K = K, L
			}
			k, isK := intValue(info, K)
			lt := info.TypeOf(L)
			if !isK || lt == nil || !c20isInt(lt) || c20bits(lt) != 8 || c20unsigned(lt) {
				return true
			}
			if cmp.Op == token.GTR {
				k++
			}
			// the counter: the field read by the compared expression (directly or through a single-definition local)
			e := ast.Unparen(L)
			if id, ok := e.(*ast.Ident); ok {
				if d := x.singleDef(fi, info.Uses[id]); d != nil {
					e = ast.Unparen(d)
				}
			}
			if ix, ok := e.(*ast.IndexExpr); ok {
				e = ast.Unparen(ix.X)
			}
			se, ok := e.(*ast.SelectorExpr)
			if !ok {
				return true
			}
			sel := info.Selections[se]
			if sel == nil || sel.Kind() != types.FieldVal {
				return true
			}
			f, _ := sel.Obj().(*types.Var)
			sig := fi.Obj.Type().(*types.Signature)
			if f == nil || sig.Recv() == nil {
				return true
			}
			rt := sig.Recv().Type()
			if p, ok := rt.(*types.Pointer); ok {
				rt = p.Elem()
			}
			nt, _ := types.Unalias(rt).(*types.Named)
			if nt == nil {
				return true
			}
			// the function must hand the register out: an int8 result
			if sig.Results().Len() != 1 || !c20isInt(sig.Results().At(0).Type()) || c20bits(sig.Results().At(0).Type()) != 8 {
				return true
			}
			q.allocs[fi.Obj] = true
			q.counter, q.builderT = f, nt
			if q.limit == 0 || k < q.limit {
				q.limit = k
			}
			return true
		})
	}
	// wrappers: functions whose every return expression is (±) a call to an allocator
	for round := 0; round < 2; round++ {
		for _, fi := range r.P.Funcs("internal/compiler") {
			if r.P.isTestFile(fi.File) || fi.Obj == nil || q.allocs[fi.Obj] {
				continue
			}
			info := fi.Pkg.TypesInfo
			rets, all := 0, true
			ast.Inspect(fi.Decl.Body, func(m ast.Node) bool {
				if _, ok := m.(*ast.FuncLit); ok {
					return false
				}
				ret, ok := m.(*ast.ReturnStmt)
				if !ok {
					return true
				}
				rets++
				if len(ret.Results) != 1 {
					all = false
					return true
				}
				e := ast.Unparen(ret.Results[0])
				if u, ok := e.(*ast.UnaryExpr); ok && (u.Op == token.SUB || u.Op == token.ADD) {
					e = ast.Unparen(u.X)
				}
				call, ok := e.(*ast.CallExpr)
				if !ok || !q.allocs[callee(info, call)] {
					all = false
				}
				return true
			})
			if rets > 0 && all && len(fi.Decl.Body.List) == rets {
				q.allocs[fi.Obj] = true
			}
		}
	}
}

func (q *c20r6) recvIs(fn *types.Func, nt *types.Named) bool {
	if fn == nil || nt == nil {
		return false
	}
	sig, _ := fn.Type().(*types.Signature)
	if sig == nil || sig.Recv() == nil {
		return false
	}
	rt := sig.Recv().Type()
	if p, ok := rt.(*types.Pointer); ok {
		rt = p.Elem()
	}
	return types.Identical(types.Unalias(rt), nt)
}

// findStackOps classifies the functions that move the register stack: exit assigns the register counter and
// shortens a slice field of the builder; enter appends to that slice field; straight-line wrappers add up.
func (q *c20r6) findStackOps() {
	r := q.r
	fieldOf := func(info *types.Info, e ast.Expr) *types.Var {
		e = ast.Unparen(e)
		if ix, ok := e.(*ast.IndexExpr); ok {
			e = ast.Unparen(ix.X)
		}
		se, ok := e.(*ast.SelectorExpr)
		if !ok {
			return nil
		}
		if sel := info.Selections[se]; sel != nil && sel.Kind() == types.FieldVal {
			v, _ := sel.Obj().(*types.Var)
			return v
		}
		return nil
	}
	type eff struct {
		setsCounter bool
		pops, pushs map[*types.Var]bool
	}
	effs := map[*types.Func]*eff{}
	for _, fi := range r.P.Funcs("internal/compiler") {
		if r.P.isTestFile(fi.File) || fi.Obj == nil || !q.recvIs(fi.Obj, q.builderT) {
			continue
		}
		info := fi.Pkg.TypesInfo
		e := &eff{pops: map[*types.Var]bool{}, pushs: map[*types.Var]bool{}}
		ast.Inspect(fi.Decl.Body, func(m ast.Node) bool {
			as, ok := m.(*ast.AssignStmt)
			if !ok {
				return true
			}
			for i, l := range as.Lhs {
				f := fieldOf(info, l)
				if f == nil {
					continue
				}
				if f == q.counter {
					e.setsCounter = true
				}
				if _, isSlice := f.Type().Underlying().(*types.Slice); !isSlice || len(as.Rhs) != len(as.Lhs) {
					continue
				}
				switch rhs := ast.Unparen(as.Rhs[i]).(type) {
				case *ast.SliceExpr:
					if fieldOf(info, rhs.X) == f && rhs.High != nil {
						e.pops[f] = true
					}
				case *ast.CallExpr:
					if isBuiltinCall(info, rhs, "append") && len(rhs.Args) >= 2 && fieldOf(info, rhs.Args[0]) == f {
						e.pushs[f] = true
					}
				}
			}
			return true
		})
		effs[fi.Obj] = e
	}
	stack := map[*types.Var]bool{}
	for fn, e := range effs {
		if e.setsCounter && len(e.pops) > 0 && !q.allocs[fn] {
			q.net[fn] = -1
			for f := range e.pops {
				stack[f] = true
			}
		}
	}
	for fn, e := range effs {
		if q.net[fn] != 0 || e.setsCounter {
			continue
		}
		for f := range e.pushs {
			if stack[f] {
				q.net[fn] = +1
			}
		}
	}
	// straight-line wrappers (enterScope/exitScope): the sum of the direct calls
	for round := 0; round < 2; round++ {
		for _, fi := range r.P.Funcs("internal/compiler") {
			if r.P.isTestFile(fi.File) || fi.Obj == nil || q.net[fi.Obj] != 0 {
				continue
			}
			info := fi.Pkg.TypesInfo
			sum := 0
			for _, s := range fi.Decl.Body.List {
				if es, ok := s.(*ast.ExprStmt); ok {
					if call, ok := es.X.(*ast.CallExpr); ok {
						sum += q.net[callee(info, call)]
					}
				}
			}
			if sum != 0 {
				q.net[fi.Obj] = sum
			}
		}
	}
}

// scope: the functions of package compiler outside R-3's files that call methods of the function builder, and the
// functions returning a small integer (an operand) that those call, transitively: a conversion moved into a helper
// stays in scope.
func (q *c20r6) scope() []*FuncInfo {
	x, r := q.x, q.r
	in := map[*types.Func]bool{}
	var out []*FuncInfo
	var cands []*FuncInfo
	for _, fi := range r.P.Funcs("internal/compiler") {
		if r.P.isTestFile(fi.File) || x.inR3Scope(fi.File) || fi.Obj == nil {
			continue
		}
		if q.drivesBuilder(fi) {
			in[fi.Obj] = true
			out = append(out, fi)
		} else {
			cands = append(cands, fi)
		}
	}
	smallResult := func(fn *types.Func) bool {
		res := fn.Type().(*types.Signature).Results()
		for i := 0; i < res.Len(); i++ {
			t := res.At(i).Type()
			if _, _, enum := c20enumMax(t); !enum && c20isInt(t) && c20bits(t) <= 16 {
				return true
			}
		}
		return false
	}
	for changed := true; changed; {
		changed = false
		for _, fi := range cands {
			if in[fi.Obj] || !smallResult(fi.Obj) {
				continue
			}
			for _, s := range x.callSites[fi.Obj] {
				if s.fi.Obj != nil && in[s.fi.Obj] {
					in[fi.Obj] = true
					out = append(out, fi)
					changed = true
					break
				}
			}
		}
	}
	return out
}

// drivesBuilder: the function calls a method of the function builder type.
func (q *c20r6) drivesBuilder(fi *FuncInfo) bool {
	info := fi.Pkg.TypesInfo
	found := false
	ast.Inspect(fi.Decl.Body, func(m ast.Node) bool {
		if call, ok := m.(*ast.CallExpr); ok && !found {
			if q.recvIs(callee(info, call), q.builderT) {
				found = true
			}
		}
		return !found
	})
	return found
}

// ---------------------------------------------------------------------------
// the audit

func (q *c20r6) auditFunc(fi *FuncInfo) int {
	x := q.x
	info := fi.Pkg.TypesInfo
	par := q.r.P.Parents(fi.File)
	n := 0
	narrowing := func(m ast.Node) (*ast.CallExpr, types.Type) {
		call, ok := m.(*ast.CallExpr)
		if !ok || len(call.Args) != 1 {
			return nil, nil
		}
		tv, ok := info.Types[call.Fun]
		if !ok || !tv.IsType() || !c20isInt(tv.Type) {
			return nil, nil
		}
		at := info.Types[call.Args[0]]
		if at.Value != nil || at.Type == nil || !c20isInt(at.Type) {
			return nil, nil
		}
		if c20bits(tv.Type) >= c20bits(at.Type) {
			return nil, nil
		}
		if _, _, isEnum := c20enumMax(at.Type); isEnum {
			return nil, nil // an enumeration value (reflect.Kind, ast.Format …): one of its declared constants
		}
		return call, tv.Type
	}
	// two sites of one function feeding the same thing are told apart by where their operand comes from
	bases := map[string]int{}
	ast.Inspect(fi.Decl.Body, func(m ast.Node) bool {
		if call, _ := narrowing(m); call != nil {
			b, _ := q.siteKey(fi, par, call)
			bases[b]++
		}
		return true
	})
	ast.Inspect(fi.Decl.Body, func(m ast.Node) bool {
		call, to := narrowing(m)
		if call == nil {
			return true
		}
		tv := types.TypeAndValue{Type: to}
		n++
		base, discr := q.siteKey(fi, par, call)
		key := fi.Name() + "#" + base
		if bases[base] > 1 {
			key += discr
		}
		fit := c20typeMax(tv.Type)
		o := q.r.Ob(q.R, key, call.Pos())
		operand := call.Args[0]
		ctx := &c20ctx{fi: fi}
		b := x.ub(ctx, operand)
		if b.max <= fit && len(b.leaves) == 0 {
			o.Trivial("operand %s <= %d fits %s", exprStr(operand), b.max, typeStr(tv.Type))
			return true
		}
		if ok, why := q.fitsAt(fi, operand, call, fit, 0); ok {
			o.OK("operand %s fits %s: %s", exprStr(operand), typeStr(tv.Type), why)
			return true
		}
		if why, ok := c20R6Exception(fi.Name(), base, discr); ok {
			o.OK("listed exception: %s", why)
			return true
		}
		hard := ""
		for _, l := range b.leaves {
			if l.max > fit && l.hard {
				hard = l.desc
				break
			}
		}
		if hard != "" {
			o.Bad("conversion to %s of %s, which is emitted as an instruction operand: %s, no comparison with a constant guards the conversion on every path and no loop retaining a register per unit bounds it — a value above %d wraps silently into another valid operand instead of failing with a limit error", typeStr(tv.Type), exprStr(operand), hard, fit)
		} else {
			o.Unknown("conversion to %s of %s, which is emitted as an instruction operand, cannot be bounded by %d: %s; no comparison with a constant guards it on every path and no loop retaining a register per unit bounds it", typeStr(tv.Type), exprStr(operand), fit, b.why())
		}
		return true
	})
	return n
}

// fitsAt: expression e, evaluated at site in fi, is at most fit.
func (q *c20r6) fitsAt(fi *FuncInfo, e ast.Expr, site ast.Node, fit int64, depth int) (bool, string) {
	x := q.x
	b := x.ub(&c20ctx{fi: fi}, e)
	if b.max <= fit {
		return true, fmt.Sprintf("<= %d: %s", b.max, b.why())
	}
	if ok, why := q.pathFits(fi, e, site, fit); ok {
		return true, fmt.Sprintf("<= %d on every path to its use: %s", fit, why)
	}
	if ok, why := q.pressureFits(fi, q.r.P.Parents(fi.File), e, site, fit); ok {
		return true, fmt.Sprintf("<= %d by register pressure: %s", q.limit, why)
	}
	if ok, why := q.indexFits(fi, e, site, fit); ok {
		return true, why
	}
	// a parameter that is never assigned: every caller passes a fitting value
	if pv := q.localOf(fi, e); pv != nil && depth < 3 && fi.Obj != nil {
		pi := x.paramIndex(fi, pv)
		sites := x.callSites[fi.Obj]
		if pi >= 0 && len(x.defsOf(fi, pv)) == 0 && !x.escapes[fi.Obj] && len(sites) > 0 && c20unexportedOrInternal(fi.Obj) {
			var whys []string
			for _, s := range sites {
				if pi >= len(s.call.Args) || s.call.Ellipsis.IsValid() {
					return false, ""
				}
				ok, why := q.fitsAt(s.fi, s.call.Args[pi], s.call, fit, depth+1)
				if !ok {
					return false, ""
				}
				whys = append(whys, fmt.Sprintf("%s passes %s %s", s.fi.Name(), exprStr(s.call.Args[pi]), why))
			}
			sort.Strings(whys)
			whys = c20uniq(whys)
			if len(whys) > 3 {
				whys = append(whys[:3], "…")
			}
			return true, fmt.Sprintf("parameter %s of %s: %s", pv.Name(), fi.Obj.Name(), strings.Join(whys, "; "))
		}
	}
	return false, ""
}

// indexFits: e is the index variable of a loop over a sequence (for i := range s, for i := 0; i < len(s); i++,
// for i := 0; i < n; i++) that contains site, the variable is not assigned in the body, and on every path to the loop
// the length of the sequence (or n) is at most fit+1: a comparison with a constant on a passing edge — the failing edge
// of `len(s) > K` whose other side panics or returns, `!(…)`, a bool local, n := len(s) compared instead — with no
// assignment to s between the comparison and the loop.
func (q *c20r6) indexFits(fi *FuncInfo, e ast.Expr, site ast.Node, fit int64) (bool, string) {
	v := q.localOf(fi, e)
	if v == nil || fit >= c20Inf-1 {
		return false, ""
	}
	info := fi.Pkg.TypesInfo
	for _, l := range q.loopsOf(fi) {
		if l.key != types.Object(v) || !containsNode(l.body, site) {
			continue
		}
		assigned := q.assignedIn(info, l.body)
		if assigned[v] {
			continue
		}
		switch st := l.stmt.(type) {
		case *ast.RangeStmt:
			if l.rangeSeq == nil {
				continue
			}
			s := q.localOf(fi, l.rangeSeq)
			if s == nil {
				continue
			}
			if ok, why := q.pathFitsObj(fi, s, true, st.X, fit+1); ok {
				return true, fmt.Sprintf("<= %d: %s is the index of the loop over %s and len(%s) <= %d on every path to the loop: %s", fit, v.Name(), s.Name(), s.Name(), fit+1, why)
			}
		case *ast.ForStmt:
			if k, isK := intValue(info, l.init); !isK || k != 0 || st.Init == nil {
				continue
			}
			if s := q.lenArgOf(fi, l.bound); s != nil {
				if assigned[s] {
					continue
				}
				if ok, why := q.pathFitsObj(fi, s, true, st.Init, fit+1); ok {
					return true, fmt.Sprintf("<= %d: %s < len(%s) in the loop and len(%s) <= %d on every path to the loop: %s", fit, v.Name(), s.Name(), s.Name(), fit+1, why)
				}
				continue
			}
			if n := q.localOf(fi, l.bound); n != nil && n != v && !assigned[n] {
				if ok, why := q.pathFitsObj(fi, n, false, st.Init, fit+1); ok {
					return true, fmt.Sprintf("<= %d: %s < %s in the loop and %s <= %d on every path to the loop: %s", fit, v.Name(), n.Name(), n.Name(), fit+1, why)
				}
			}
		}
	}
	return false, ""
}

// siteKey names a conversion by what it feeds: callee(parameter) when it is an argument of a module function,
// result[i] when it is returned, the operand otherwise. A discriminator is appended when the operand is a
// single-definition local obtained from a call (the callee's name), so that two sites of one function feeding
// the same parameter from different sources have different keys.
func (q *c20r6) siteKey(fi *FuncInfo, par map[ast.Node]ast.Node, conv *ast.CallExpr) (key, discr string) {
	info := fi.Pkg.TypesInfo
	var child ast.Node = conv
	p := par[conv]
	for {
		if pe, ok := p.(*ast.ParenExpr); ok {
			child, p = pe, par[pe]
			continue
		}
		break
	}
	key = exprStr(conv)
	switch pn := p.(type) {
	case *ast.CallExpr:
		if fn := callee(info, pn); fn != nil {
			sig := fn.Type().(*types.Signature)
			for i, a := range pn.Args {
				if a == child {
					name := fmt.Sprintf("arg%d", i)
					if i < sig.Params().Len() && sig.Params().At(i).Name() != "" {
						name = sig.Params().At(i).Name()
					}
					key = fn.Name() + "(" + name + ")"
				}
			}
		}
	case *ast.ReturnStmt:
		for i, a := range pn.Results {
			if a == child {
				key = fmt.Sprintf("result[%d]<-%s", i, exprStr(conv.Args[0]))
			}
		}
	}
	// discriminator: module functions whose results the operand is computed from
	var from []string
	seen := map[types.Object]bool{}
	var walk func(e ast.Expr, depth int)
	walk = func(e ast.Expr, depth int) {
		ast.Inspect(e, func(m ast.Node) bool {
			switch v := m.(type) {
			case *ast.CallExpr:
				if fn := callee(info, v); fn != nil && fn.Pkg() == fi.Pkg.Types && !isBuiltinCall(info, v, "len") {
					from = append(from, fn.Name())
				}
			case *ast.Ident:
				obj, _ := info.Uses[v].(*types.Var)
				if obj == nil || seen[obj] || depth > 3 {
					return true
				}
				seen[obj] = true
				for _, d := range q.x.defsOf(fi, obj) {
					if d.expr != nil && (d.kind == "expr" || d.kind == "tuple") {
						walk(d.expr, depth+1)
					}
				}
			}
			return true
		})
	}
	walk(conv.Args[0], 0)
	if len(from) > 0 {
		sort.Strings(from)
		discr = "[" + strings.Join(c20uniq(from), ",") + "]"
	}
	return key, discr
}

// ---------------------------------------------------------------------------
// (b) path-wise bound of a local

// localOf peels parentheses and widening conversions and returns the local variable converted.
func (q *c20r6) localOf(fi *FuncInfo, e ast.Expr) *types.Var {
	info := fi.Pkg.TypesInfo
	e = ast.Unparen(e)
	for {
		c, ok := e.(*ast.CallExpr)
		if !ok || len(c.Args) != 1 {
			break
		}
		tv, ok := info.Types[c.Fun]
		if !ok || !tv.IsType() || c20bits(tv.Type) < c20bits(info.TypeOf(c.Args[0])) {
			break
		}
		e = ast.Unparen(c.Args[0])
	}
	id, ok := e.(*ast.Ident)
	if !ok {
		return nil
	}
	v, _ := info.Uses[id].(*types.Var)
	if v == nil || v.IsField() || v.Parent() == nil || v.Pkg() == nil || v.Parent() == v.Pkg().Scope() {
		return nil
	}
	return v
}

// assignsTo reports whether CFG node n assigns obj and, when the new value is a plain expression, that expression
// (zero: the variable is declared without a value).
func (q *c20r6) assignsTo(fi *FuncInfo, par map[ast.Node]ast.Node, n ast.Node, obj types.Object) (assigned bool, rhs ast.Expr, zero bool) {
	info := fi.Pkg.TypesInfo
	is := func(e ast.Expr) bool {
		id, ok := ast.Unparen(e).(*ast.Ident)
		return ok && (info.Defs[id] == obj || info.Uses[id] == obj)
	}
	switch s := n.(type) {
	case *ast.AssignStmt:
		for i, l := range s.Lhs {
			if !is(l) {
				continue
			}
			if (s.Tok == token.ASSIGN || s.Tok == token.DEFINE) && len(s.Lhs) == len(s.Rhs) {
				return true, s.Rhs[i], false
			}
			return true, nil, false
		}
	case *ast.IncDecStmt:
		if is(s.X) {
			return true, nil, false
		}
	case *ast.ValueSpec:
		for i, id := range s.Names {
			if info.Defs[id] == obj {
				if len(s.Values) == 0 {
					return true, nil, true
				}
				if len(s.Values) == len(s.Names) {
					return true, s.Values[i], false
				}
				return true, nil, false
			}
		}
	case *ast.Ident:
		// the key / value of a range statement is added to the graph as a bare expression
		if is(s) {
			if rs, ok := par[s].(*ast.RangeStmt); ok && (rs.Key == ast.Expr(s) || rs.Value == ast.Expr(s)) {
				return true, nil, false
			}
		}
	}
	return false, nil, false
}

// escapesFlow: obj has its address taken, or is assigned inside a function literal: the graph does not show its flow.
func (q *c20r6) escapesFlow(fi *FuncInfo, obj types.Object) bool {
	info := fi.Pkg.TypesInfo
	bad := false
	var visit func(n ast.Node, lit bool)
	visit = func(n ast.Node, lit bool) {
		ast.Inspect(n, func(m ast.Node) bool {
			if bad || m == nil {
				return false
			}
			switch s := m.(type) {
			case *ast.FuncLit:
				if !lit {
					visit(s.Body, true)
					return false
				}
			case *ast.UnaryExpr:
				if id, ok := ast.Unparen(s.X).(*ast.Ident); ok && s.Op == token.AND && info.Uses[id] == obj {
					bad = true
				}
			case *ast.AssignStmt:
				if lit {
					for _, l := range s.Lhs {
						if id, ok := ast.Unparen(l).(*ast.Ident); ok && info.Uses[id] == obj {
							bad = true
						}
					}
				}
			case *ast.IncDecStmt:
				if id, ok := ast.Unparen(s.X).(*ast.Ident); ok && lit && info.Uses[id] == obj {
					bad = true
				}
			}
			return true
		})
	}
	visit(fi.Decl.Body, false)
	return bad
}

// lenArgOf peels parentheses and widening conversions and, when what remains is len(s) with s a local slice, string
// or array variable, returns s.
func (q *c20r6) lenArgOf(fi *FuncInfo, e ast.Expr) *types.Var {
	info := fi.Pkg.TypesInfo
	e = ast.Unparen(e)
	for {
		c, ok := e.(*ast.CallExpr)
		if !ok || len(c.Args) != 1 {
			return nil
		}
		if isBuiltinCall(info, c, "len") {
			return q.localOf(fi, c.Args[0])
		}
		tv, ok := info.Types[c.Fun]
		if !ok || !tv.IsType() || c20bits(tv.Type) < c20bits(info.TypeOf(c.Args[0])) {
			return nil
		}
		e = ast.Unparen(c.Args[0])
	}
}

// denotes: expression e is the tracked quantity — the variable obj, or (isLen) the length of the variable obj, written
// len(obj) or through a single-definition local n := len(obj); in the latter case the node defining n is returned: the
// fact holds only if obj is not assigned between that node and the comparison.
func (q *c20r6) denotes(fi *FuncInfo, e ast.Expr, obj *types.Var, isLen bool) (bool, ast.Node) {
	if !isLen {
		return q.localOf(fi, e) == obj, nil
	}
	if q.lenArgOf(fi, e) == obj {
		return true, nil
	}
	if n := q.localOf(fi, e); n != nil && n != obj && q.x.paramIndex(fi, n) < 0 {
		ds := q.x.defsOf(fi, n)
		if len(ds) == 1 && ds[0].kind == "expr" && q.lenArgOf(fi, ds[0].expr) == obj && !q.escapesFlow(fi, n) {
			return true, ds[0].node
		}
	}
	return false, nil
}

// cmpImplies: the literal, a comparison of the tracked quantity with a constant, implies quantity <= fit. alias is
// the node of the definition n := len(obj) when the comparison is written on n.
func (q *c20r6) cmpImplies(fi *FuncInfo, e ast.Expr, truth bool, obj *types.Var, isLen bool, fit int64) (ok bool, alias ast.Node) {
	info := fi.Pkg.TypesInfo
	be, isBin := ast.Unparen(e).(*ast.BinaryExpr)
	if !isBin {
		return false, nil
	}
	op, L, K := be.Op, be.X, be.Y
	if _, isK := intValue(info, L); isK {
		L, K = K, L
		op = c20flip(op)
	}
	k, isK := intValue(info, K)
	if !isK {
		return false, nil
	}
	den, alias := q.denotes(fi, L, obj, isLen)
	if !den {
		return false, nil
	}
	if !truth {
		op = c20neg(op)
	}
	switch op {
	case token.LSS:
		return k-1 <= fit, alias
	case token.LEQ, token.EQL:
		return k <= fit, alias
	}
	return false, nil
}

func (q *c20r6) pathFits(fi *FuncInfo, operand ast.Expr, site ast.Node, fit int64) (bool, string) {
	return q.pathFitsObj(fi, q.localOf(fi, operand), false, site, fit)
}

// pathFitsObj: on every path to site the tracked quantity — the local obj, or its length when isLen — is at most fit.
func (q *c20r6) pathFitsObj(fi *FuncInfo, obj *types.Var, isLen bool, site ast.Node, fit int64) (bool, string) {
	x := q.x
	if obj == nil || site == nil || !(fi.Decl.Body.Pos() <= site.Pos() && site.End() <= fi.Decl.Body.End()) {
		return false, ""
	}
	if q.escapesFlow(fi, obj) {
		return false, ""
	}
	info := fi.Pkg.TypesInfo
	par := q.r.P.Parents(fi.File)
	c := q.r.P.CFGOf(fi)
	blk, idx := c.Locate(site)
	if blk == nil {
		return false, ""
	}
	ctx := &c20ctx{fi: fi}
	facts := map[string]bool{}

	// stable: from the end of block p backwards, the node `def` is met before any assignment to obj
	stable := func(p *cfg.Block, def ast.Node) bool {
		seen := map[*cfg.Block]bool{}
		var back func(b *cfg.Block) bool
		back = func(b *cfg.Block) bool {
			if seen[b] {
				return true
			}
			seen[b] = true
			for i := len(b.Nodes) - 1; i >= 0; i-- {
				if b.Nodes[i] == def {
					return true
				}
				if as, _, _ := q.assignsTo(fi, par, b.Nodes[i], obj); as {
					return false
				}
			}
			if b == c.G.Blocks[0] || len(c.Preds[b]) == 0 {
				return false
			}
			for _, pp := range c.Preds[b] {
				if !back(pp) {
					return false
				}
			}
			return true
		}
		return back(p)
	}

	// implies: the literal holding on an edge out of block p bounds obj
	var implies func(e ast.Expr, truth bool, p *cfg.Block, holder ast.Node, depth int) bool
	implies = func(e ast.Expr, truth bool, p *cfg.Block, holder ast.Node, depth int) bool {
		e = ast.Unparen(e)
		if ok, alias := q.cmpImplies(fi, e, truth, obj, isLen, fit); ok {
			if holder != nil && !stable(p, holder) {
				return false
			}
			if alias != nil && !stable(p, alias) {
				return false
			}
			facts[fmt.Sprintf("the edge on which %s is %v", exprStr(e), truth)] = true
			return true
		}
		if depth > 3 {
			return false
		}
		// a predicate of the module whose body is one return statement: the comparison is read there
		if call, ok := e.(*ast.CallExpr); ok {
			fn := callee(info, call)
			cfi := x.funcOf[fn]
			if cfi == nil || call.Ellipsis.IsValid() || len(cfi.Decl.Body.List) != 1 {
				return false
			}
			ret, ok := cfi.Decl.Body.List[0].(*ast.ReturnStmt)
			if !ok || len(ret.Results) != 1 {
				return false
			}
			sig := fn.Type().(*types.Signature)
			for i, a := range call.Args {
				if i >= sig.Params().Len() {
					continue
				}
				den, alias := q.denotes(fi, a, obj, isLen)
				if !den {
					continue
				}
				for _, l := range litsOf(ret.Results[0], nil, truth) {
					if ok, _ := q.cmpImplies(cfi, l.Expr, l.Truth, sig.Params().At(i), false, fit); ok {
						if holder != nil && !stable(p, holder) {
							return false
						}
						if alias != nil && !stable(p, alias) {
							return false
						}
						facts[fmt.Sprintf("the edge on which %s is %v", exprStr(e), truth)] = true
						return true
					}
				}
			}
			return false
		}
		id, ok := e.(*ast.Ident)
		if !ok {
			return false
		}
		bv, _ := info.Uses[id].(*types.Var)
		if bv == nil || bv == obj {
			return false
		}
		ds := x.defsOf(fi, bv)
		if len(ds) != 1 || ds[0].kind != "expr" || x.paramIndex(fi, bv) >= 0 || q.escapesFlow(fi, bv) {
			return false
		}
		for _, l := range litsOf(ds[0].expr, nil, truth) {
			if implies(l.Expr, l.Truth, p, ds[0].node, depth+1) {
				return true
			}
		}
		return false
	}

	state := map[*cfg.Block]int{} // 1 in progress, 2 ok, 3 fail
	var back func(b *cfg.Block, from int) bool
	scan := func(b *cfg.Block, from int) (decided, ok bool) {
		for i := from - 1; i >= 0; i-- {
			as, rhs, zero := q.assignsTo(fi, par, b.Nodes[i], obj)
			if !as {
				continue
			}
			if zero {
				facts["declared with the zero value"] = true
				return true, true
			}
			if rhs == nil {
				return true, false
			}
			if isLen {
				// the variable itself is assigned: only an empty value has a known length
				if q.isEmptySlice(info, rhs) {
					facts[fmt.Sprintf("assigned the empty %s", exprStr(rhs))] = true
					return true, true
				}
				return true, false
			}
			rb := x.ub(ctx, rhs)
			if rb.max <= fit {
				facts[fmt.Sprintf("assigned %s <= %d", exprStr(rhs), rb.max)] = true
				return true, true
			}
			return true, false
		}
		return false, false
	}
	preds := func(b *cfg.Block) bool {
		if b == c.G.Blocks[0] || len(c.Preds[b]) == 0 {
			return false
		}
		for _, p := range c.Preds[b] {
			if !p.Live {
				continue
			}
			for i, s := range p.Succs {
				if s != b {
					continue
				}
				guarded := false
				for _, l := range c.edgeLits(p, i) {
					if l.Tag == nil && implies(l.Expr, l.Truth, p, nil, 0) {
						guarded = true
						break
					}
				}
				if guarded {
					continue
				}
				if !back(p, len(p.Nodes)) {
					return false
				}
			}
		}
		return true
	}
	back = func(b *cfg.Block, from int) bool {
		switch state[b] {
		case 1, 2:
			return true
		case 3:
			return false
		}
		state[b] = 1
		res := false
		if decided, ok := scan(b, from); decided {
			res = ok
		} else {
			res = preds(b)
		}
		if res {
			state[b] = 2
		} else {
			state[b] = 3
		}
		return res
	}
	// the site's own block is scanned from the site; it may be entered again (as a whole) through a loop
	if decided, ok := scan(blk, idx); decided {
		if !ok {
			return false, ""
		}
	} else if !preds(blk) {
		return false, ""
	}
	var fs []string
	for f := range facts {
		fs = append(fs, f)
	}
	sort.Strings(fs)
	if len(fs) > 4 {
		fs = append(fs[:4], "…")
	}
	return true, strings.Join(fs, "; ")
}

// ---------------------------------------------------------------------------
// (c) register pressure

func (q *c20r6) loopsOf(fi *FuncInfo) []*c20Loop {
	if ls, ok := q.loops[fi]; ok {
		return ls
	}
	info := fi.Pkg.TypesInfo
	var out []*c20Loop
	ast.Inspect(fi.Decl.Body, func(m ast.Node) bool {
		switch s := m.(type) {
		case *ast.FuncLit:
			return false
		case *ast.RangeStmt:
			l := &c20Loop{stmt: s, body: s.Body}
			if id, ok := s.Key.(*ast.Ident); ok && id.Name != "_" {
				l.key = info.Defs[id]
				if l.key == nil {
					l.key = info.Uses[id]
				}
			}
			switch info.TypeOf(s.X).Underlying().(type) {
			case *types.Basic:
				if c20isInt(info.TypeOf(s.X)) {
					l.rangeInt = s.X
				}
			case *types.Slice, *types.Array:
				l.rangeSeq = s.X
			}
			if l.rangeInt != nil || l.rangeSeq != nil {
				out = append(out, l)
			}
		case *ast.ForStmt:
			// for i := init; i < bound; i++
			as, ok := s.Init.(*ast.AssignStmt)
			if !ok || as.Tok != token.DEFINE || len(as.Lhs) != 1 || len(as.Rhs) != 1 {
				return true
			}
			id, ok := as.Lhs[0].(*ast.Ident)
			if !ok {
				return true
			}
			iv := info.Defs[id]
			inc, ok := s.Post.(*ast.IncDecStmt)
			if !ok || inc.Tok != token.INC {
				return true
			}
			if pid, ok := ast.Unparen(inc.X).(*ast.Ident); !ok || info.Uses[pid] != iv {
				return true
			}
			be, ok := ast.Unparen(s.Cond).(*ast.BinaryExpr)
			if !ok {
				return true
			}
			L, R, op := be.X, be.Y, be.Op
			if rid, ok := ast.Unparen(R).(*ast.Ident); ok && info.Uses[rid] == iv {
				L, R, op = R, L, c20flip(op)
			}
			if lid, ok := ast.Unparen(L).(*ast.Ident); !ok || info.Uses[lid] != iv || op != token.LSS {
				return true
			}
			out = append(out, &c20Loop{stmt: s, body: s.Body, key: iv, init: as.Rhs[0], bound: R})
		}
		return true
	})
	for _, l := range out {
		l.retains, l.why = q.retains(fi, l)
	}
	q.loops[fi] = out
	return out
}

// assignedIn: the objects assigned (or declared) inside n.
func (q *c20r6) assignedIn(info *types.Info, n ast.Node) map[types.Object]bool {
	out := map[types.Object]bool{}
	mark := func(e ast.Expr) {
		if id, ok := ast.Unparen(e).(*ast.Ident); ok {
			if o := info.Defs[id]; o != nil {
				out[o] = true
			}
			if o := info.Uses[id]; o != nil {
				out[o] = true
			}
		}
	}
	ast.Inspect(n, func(m ast.Node) bool {
		switch s := m.(type) {
		case *ast.AssignStmt:
			for _, l := range s.Lhs {
				mark(l)
			}
		case *ast.IncDecStmt:
			mark(s.X)
		case *ast.RangeStmt:
			if s.Key != nil {
				mark(s.Key)
			}
			if s.Value != nil {
				mark(s.Value)
			}
		case *ast.ValueSpec:
			for _, id := range s.Names {
				mark(id)
			}
		case *ast.UnaryExpr:
			if s.Op == token.AND {
				mark(s.X)
			}
		}
		return true
	})
	return out
}

// balanced: the statement list leaves the register stack at the depth it found it and never goes below it; nested
// statement lists are balanced on their own. start is the depth on entry (0).
func (q *c20r6) balanced(info *types.Info, list []ast.Stmt) bool {
	depth := 0
	for _, s := range list {
		if es, ok := s.(*ast.ExprStmt); ok {
			if call, ok := es.X.(*ast.CallExpr); ok {
				if d := q.net[callee(info, call)]; d != 0 {
					depth += d
					if depth < 0 {
						return false
					}
					continue
				}
			}
		}
		if !q.nestedBalanced(info, s) {
			return false
		}
	}
	return depth == 0
}

func (q *c20r6) nestedBalanced(info *types.Info, s ast.Stmt) bool {
	ok := true
	ast.Inspect(s, func(m ast.Node) bool {
		if !ok {
			return false
		}
		switch v := m.(type) {
		case *ast.FuncLit:
			return false
		case *ast.BlockStmt:
			if !q.balanced(info, v.List) {
				ok = false
			}
			return false
		case *ast.CaseClause:
			if !q.balanced(info, v.Body) {
				ok = false
			}
			for _, e := range v.List {
				if q.movesStack(info, e) {
					ok = false
				}
			}
			return false
		case *ast.CommClause:
			if !q.balanced(info, v.Body) {
				ok = false
			}
			return false
		case *ast.CallExpr:
			if q.net[callee(info, v)] != 0 {
				ok = false // an enter/exit call that is not a statement of a list (defer, go, inside an expression)
			}
		}
		return true
	})
	return ok
}

func (q *c20r6) movesStack(info *types.Info, n ast.Node) bool {
	found := false
	ast.Inspect(n, func(m ast.Node) bool {
		if call, ok := m.(*ast.CallExpr); ok && q.net[callee(info, call)] != 0 {
			found = true
		}
		return !found
	})
	return found
}

// retains decides whether every iteration of the loop allocates a register of a loop-invariant kind that is still
// allocated when the iteration ends: the allocation is a statement of the body's own list, at depth 0 of the register
// stack, the body has no statement that leaves the loop or skips its rest, and the stack is balanced.
func (q *c20r6) retains(fi *FuncInfo, l *c20Loop) (bool, string) {
	info := fi.Pkg.TypesInfo
	leaves := false
	ast.Inspect(l.body, func(m ast.Node) bool {
		switch m.(type) {
		case *ast.FuncLit:
			return false
		case *ast.BranchStmt, *ast.ReturnStmt:
			leaves = true
		}
		return !leaves
	})
	if leaves {
		return false, ""
	}
	variant := q.assignedIn(info, l.stmt)
	depth := 0
	why := ""
	for _, s := range l.body.List {
		if es, ok := s.(*ast.ExprStmt); ok {
			if call, ok := es.X.(*ast.CallExpr); ok {
				if d := q.net[callee(info, call)]; d != 0 {
					depth += d
					if depth < 0 {
						return false, ""
					}
					continue
				}
			}
		}
		switch s.(type) {
		case *ast.AssignStmt, *ast.ExprStmt, *ast.DeclStmt:
			if q.movesStack(info, s) {
				return false, ""
			}
			if depth != 0 || why != "" {
				continue
			}
			ast.Inspect(s, func(m ast.Node) bool {
				if _, ok := m.(*ast.FuncLit); ok {
					return false
				}
				call, ok := m.(*ast.CallExpr)
				if !ok || why != "" || !q.allocs[callee(info, call)] {
					return true
				}
				inv := true
				for _, a := range call.Args {
					ast.Inspect(a, func(k ast.Node) bool {
						if id, ok := k.(*ast.Ident); ok {
							if o := info.Uses[id]; o != nil && variant[o] {
								inv = false
							}
						}
						return inv
					})
				}
				if inv {
					why = fmt.Sprintf("every iteration of the loop over %s keeps the register allocated by %s until the loop ends", q.loopDesc(l), exprStr(call))
				}
				return true
			})
		default:
			if !q.nestedBalanced(info, s) {
				return false, ""
			}
		}
	}
	if depth != 0 || why == "" {
		return false, ""
	}
	return true, why
}

func (q *c20r6) loopDesc(l *c20Loop) string {
	switch {
	case l.rangeInt != nil:
		return "range " + exprStr(l.rangeInt)
	case l.rangeSeq != nil:
		return "range " + exprStr(l.rangeSeq)
	}
	return fmt.Sprintf("[%s, %s)", exprStr(l.init), exprStr(l.bound))
}

// stableLocal: a local with one definition or a parameter that is never assigned; its value is the same wherever it is read.
func (q *c20r6) stableLocal(fi *FuncInfo, e ast.Expr) *types.Var {
	v := q.localOf(fi, e)
	if v == nil || q.escapesFlow(fi, v) {
		return nil
	}
	n := len(q.x.defsOf(fi, v))
	if q.x.paramIndex(fi, v) >= 0 {
		if n == 0 {
			return v
		}
		return nil
	}
	if n == 1 {
		return v
	}
	return nil
}

// loopCovers: when the conversion at site executes and the function returns normally, the loop has run to completion:
// the site is inside the loop, or the loop head dominates the site, or every path from the site to a return passes
// through the loop head.
func (q *c20r6) loopCovers(fi *FuncInfo, l *c20Loop, site ast.Node) bool {
	if containsNode(l.body, site) {
		return true
	}
	c := q.r.P.CFGOf(fi)
	var head *cfg.Block
	for _, b := range c.G.Blocks {
		if b.Stmt == l.stmt && (b.Kind == cfg.KindForLoop || b.Kind == cfg.KindRangeLoop) {
			head = b
		}
	}
	blk, _ := c.Locate(site)
	if head == nil || blk == nil {
		return false
	}
	if c.Dominates(head, blk) {
		return true
	}
	info := fi.Pkg.TypesInfo
	for _, b := range c.G.Blocks {
		if !b.Live || len(b.Succs) != 0 || b == head {
			continue
		}
		if n := len(b.Nodes); n > 0 {
			if es, ok := b.Nodes[n-1].(*ast.ExprStmt); ok {
				if call, ok := es.X.(*ast.CallExpr); ok && isBuiltinCall(info, call, "panic") {
					continue // not a normal return
				}
			}
		}
		if c.reachable(blk, b, nil, func(y *cfg.Block) bool { return y == head }) {
			return false
		}
	}
	return true
}

func (q *c20r6) pressureFits(fi *FuncInfo, par map[ast.Node]ast.Node, operand ast.Expr, site ast.Node, fit int64) (bool, string) {
	if q.limit <= 0 || q.limit > fit {
		return false, ""
	}
	info := fi.Pkg.TypesInfo
	loops := q.loopsOf(fi)
	sameVar := func(e ast.Expr, v *types.Var) bool { return v != nil && e != nil && q.localOf(fi, e) == v }
	isZero := func(e ast.Expr) bool { k, ok := intValue(info, e); return ok && k == 0 }
	e := ast.Unparen(operand)

	// the loop variable, inside the body
	if v := q.localOf(fi, e); v != nil {
		for _, l := range loops {
			if !l.retains || l.key != types.Object(v) || !containsNode(l.body, site) {
				continue
			}
			if l.rangeInt != nil || (l.init != nil && isZero(l.init)) {
				if len(q.assignedInBody(info, l, v)) == 0 {
					return true, fmt.Sprintf("%s counts the completed iterations; %s; at most %d registers of one kind exist", v.Name(), l.why, q.limit)
				}
			}
		}
		// the trip count
		if sv := q.stableLocal(fi, e); sv != nil {
			for _, l := range loops {
				if !l.retains {
					continue
				}
				if (l.rangeInt != nil && sameVar(l.rangeInt, sv)) || (l.init != nil && isZero(l.init) && sameVar(l.bound, sv)) {
					if q.loopCovers(fi, l, site) {
						return true, fmt.Sprintf("%s is the trip count of a loop that runs to completion whenever the conversion is executed and the function returns; %s; at most %d registers of one kind exist", sv.Name(), l.why, q.limit)
					}
				}
			}
		}
		return false, ""
	}
	// i - init inside the body of for i := init; i < bound; i++
	if be, ok := e.(*ast.BinaryExpr); ok && be.Op == token.SUB {
		iv := q.localOf(fi, be.X)
		for _, l := range loops {
			if !l.retains || l.init == nil || iv == nil || l.key != types.Object(iv) || !containsNode(l.body, site) {
				continue
			}
			a := q.stableLocal(fi, l.init)
			if a != nil && sameVar(be.Y, a) && len(q.assignedInBody(info, l, iv)) == 0 {
				return true, fmt.Sprintf("%s - %s counts the completed iterations; %s; at most %d registers of one kind exist", iv.Name(), a.Name(), l.why, q.limit)
			}
		}
		return false, ""
	}
	// len(S): S starts empty and receives one element per iteration of retaining loops of the same statement list
	if call, ok := e.(*ast.CallExpr); ok && isBuiltinCall(info, call, "len") && len(call.Args) == 1 {
		sv := q.localOf(fi, call.Args[0])
		if sv == nil || q.escapesFlow(fi, sv) {
			return false, ""
		}
		if _, isSlice := sv.Type().Underlying().(*types.Slice); !isSlice {
			return false, ""
		}
		var declBlock ast.Node
		n := 0
		var why []string
		for _, d := range q.x.defsOf(fi, sv) {
			switch {
			case d.kind == "zero":
				declBlock = q.listOf(par, d.node)
			case d.kind == "expr" && q.isEmptySlice(info, d.expr):
				if as, ok := d.node.(*ast.AssignStmt); ok && as.Tok == token.DEFINE {
					declBlock = q.listOf(par, d.node)
				} else if _, ok := d.node.(*ast.ValueSpec); ok {
					declBlock = q.listOf(par, d.node)
				} else {
					return false, "" // reset somewhere: fine in principle, not read here
				}
			case d.kind == "expr":
				ap, ok := ast.Unparen(d.expr).(*ast.CallExpr)
				if !ok || !isBuiltinCall(info, ap, "append") || len(ap.Args) != 2 || ap.Ellipsis.IsValid() || q.localOf(fi, ap.Args[0]) != sv {
					return false, ""
				}
				st, _ := d.node.(ast.Stmt)
				var in *c20Loop
				for _, l := range loops {
					if l.retains && st != nil && par[st] == ast.Node(l.body) {
						in = l
					}
				}
				if in == nil {
					return false, ""
				}
				// one append per loop
				for _, d2 := range q.x.defsOf(fi, sv) {
					if d2.node != d.node && d2.node != nil && par[d2.node] == ast.Node(in.body) {
						return false, ""
					}
				}
				if declBlock == nil || q.listOf(par, in.stmt) != declBlock {
					// the declaration is found later in the iteration order only when it follows the loop, which cannot be
					// (a variable is declared before its uses); so declBlock is set here unless the shape is not the expected one
					return false, ""
				}
				n++
				why = append(why, in.why)
			default:
				return false, ""
			}
		}
		if n == 0 || declBlock == nil || int64(n)*q.limit > fit {
			return false, ""
		}
		return true, fmt.Sprintf("%s starts empty and receives one element per iteration; %s; at most %d registers of one kind exist", sv.Name(), strings.Join(c20uniq(why), "; "), q.limit)
	}
	return false, ""
}

func (q *c20r6) assignedInBody(info *types.Info, l *c20Loop, v *types.Var) []ast.Node {
	var out []ast.Node
	if q.assignedIn(info, l.body)[v] {
		out = append(out, l.body)
	}
	return out
}

// listOf: the statement list (block, case clause) that directly holds the statement containing n.
func (q *c20r6) listOf(par map[ast.Node]ast.Node, n ast.Node) ast.Node {
	for m := n; m != nil; m = par[m] {
		switch par[m].(type) {
		case *ast.BlockStmt, *ast.CaseClause, *ast.CommClause:
			if _, ok := m.(ast.Stmt); ok {
				return par[m]
			}
		}
	}
	return nil
}

func (q *c20r6) isEmptySlice(info *types.Info, e ast.Expr) bool {
	switch v := ast.Unparen(e).(type) {
	case *ast.CompositeLit:
		return len(v.Elts) == 0
	case *ast.Ident:
		return info.Types[v].IsNil()
	case *ast.CallExpr:
		if isBuiltinCall(info, v, "make") && len(v.Args) >= 2 {
			k, ok := intValue(info, v.Args[1])
			return ok && k == 0
		}
		// []T(nil)
		if tv, ok := info.Types[v.Fun]; ok && tv.IsType() && len(v.Args) == 1 {
			return info.Types[v.Args[0]].IsNil()
		}
	}
	return false
}
