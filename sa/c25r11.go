package main

// C25 R-11 (added after seeded change C25-7): the word-boundary predicate of the capitalisation builtins,
// evaluated from its syntax for every Unicode code point, is the documented one.
//
// Capitalize and CapitalizeAll decide where a word starts with one predicate func(rune) bool ("the code of
// this function is taken from the Go standard library": strings.Title's isSeparator). Its definition:
//   ASCII (U+0000…U+007F): letters, digits and '_' are not separators, every other ASCII character is;
//   beyond ASCII: letters and digits are not separators, of the rest only white space is.
// The predicate is a pure function of one rune built from comparisons with constants, boolean operators,
// if/switch/return, boolean locals and the classification functions of package unicode. The rule interprets
// that syntax for each of the 1 114 112 code points (finite-domain evaluation; the unicode functions are
// the analyser's own standard library, nothing of the repository runs) and compares with the definition.
// A shifted range bound ('0' < r, r < 0x7F, r <= 'y'), a dropped class, a branch that lets an ASCII
// character fall through to the non-ASCII rules all change the value for at least one code point, and for
// that code point CapitalizeAll capitalises (or fails to capitalise) the following letter.
//
// The predicate is found by role: the func(rune) bool of package builtin called by an exported builtin that
// also calls unicode.ToUpper / ToTitle.

import (
	"fmt"
	"go/ast"
	"go/constant"
	"go/token"
	"go/types"
	"strings"
	"unicode"
)

func init() {
	p := registry["C25"]
	if p == nil {
		return
	}
	run := p.run
	p.run = func(r *Run) { run(r); c25SeparatorClass(r) }
	p.explain += " R-11: the word-boundary predicate used by Capitalize and CapitalizeAll, interpreted from its syntax for every code point, classifies ASCII characters other than letters, digits and '_' as separators and, beyond ASCII, exactly the white space that is neither letter nor digit."
	p.trusted = append(p.trusted, "the classification functions of package unicode of the analyser's Go version (IsLetter, IsDigit, IsSpace, …) as the Unicode definitions")
}

// c25UnicodePreds: external pure functions the interpreter applies itself.
var c25UnicodePreds = map[string]func(rune) bool{
	"unicode.IsLetter":  unicode.IsLetter,
	"unicode.IsDigit":   unicode.IsDigit,
	"unicode.IsNumber":  unicode.IsNumber,
	"unicode.IsSpace":   unicode.IsSpace,
	"unicode.IsUpper":   unicode.IsUpper,
	"unicode.IsLower":   unicode.IsLower,
	"unicode.IsTitle":   unicode.IsTitle,
	"unicode.IsPunct":   unicode.IsPunct,
	"unicode.IsControl": unicode.IsControl,
	"unicode.IsGraphic": unicode.IsGraphic,
	"unicode.IsPrint":   unicode.IsPrint,
	"unicode.IsSymbol":  unicode.IsSymbol,
	"unicode.IsMark":    unicode.IsMark,
}
var c25UnicodeMaps = map[string]func(rune) rune{
	"unicode.ToUpper": unicode.ToUpper,
	"unicode.ToLower": unicode.ToLower,
	"unicode.ToTitle": unicode.ToTitle,
}

type c25Interp struct {
	p     *Prog
	byObj map[*types.Func]*FuncInfo
	fail  string
	depth int
}

const (
	c25FlowNext = iota
	c25FlowReturn
	c25FlowBreak
)

func (in *c25Interp) failf(format string, a ...any) {
	if in.fail == "" {
		in.fail = fmt.Sprintf(format, a...)
	}
}

// call evaluates fi (one integer parameter, one result) on arg.
func (in *c25Interp) call(fi *FuncInfo, arg int64) c07Val {
	sig := fi.Obj.Type().(*types.Signature)
	if sig.Params().Len() != 1 || sig.Results().Len() != 1 || in.depth > 4 {
		in.failf("%s: not a function of one value", fi.Name())
		return c07Unknown
	}
	in.depth++
	defer func() { in.depth-- }()
	env := map[types.Object]c07Val{sig.Params().At(0): c07Int(arg)}
	flow, v := in.block(fi, fi.Decl.Body.List, env)
	if in.fail != "" {
		return c07Unknown
	}
	if flow != c25FlowReturn {
		in.failf("%s: ends without a return", fi.Name())
		return c07Unknown
	}
	return v
}

func (in *c25Interp) block(fi *FuncInfo, list []ast.Stmt, env map[types.Object]c07Val) (int, c07Val) {
	for _, s := range list {
		flow, v := in.stmt(fi, s, env)
		if in.fail != "" || flow != c25FlowNext {
			return flow, v
		}
	}
	return c25FlowNext, c07Unknown
}

func (in *c25Interp) stmt(fi *FuncInfo, s ast.Stmt, env map[types.Object]c07Val) (int, c07Val) {
	info := fi.Pkg.TypesInfo
	switch x := s.(type) {
	case *ast.EmptyStmt:
	case *ast.BlockStmt:
		return in.block(fi, x.List, env)
	case *ast.ReturnStmt:
		if len(x.Results) != 1 {
			in.failf("return with %d values at %s", len(x.Results), in.p.Pos(x.Pos()))
			return c25FlowReturn, c07Unknown
		}
		return c25FlowReturn, in.eval(fi, x.Results[0], env)
	case *ast.DeclStmt:
		gd, ok := x.Decl.(*ast.GenDecl)
		if !ok || (gd.Tok != token.VAR && gd.Tok != token.CONST) {
			in.failf("declaration at %s", in.p.Pos(x.Pos()))
			break
		}
		if gd.Tok == token.CONST {
			break
		}
		for _, sp := range gd.Specs {
			vs := sp.(*ast.ValueSpec)
			for i, id := range vs.Names {
				o := info.Defs[id]
				switch {
				case o == nil:
				case len(vs.Values) == len(vs.Names):
					env[o] = in.eval(fi, vs.Values[i], env)
				case len(vs.Values) == 0:
					if b, ok := o.Type().Underlying().(*types.Basic); ok && b.Info()&types.IsBoolean != 0 {
						env[o] = c07Bool(false)
					} else if ok && b.Info()&types.IsInteger != 0 {
						env[o] = c07Int(0)
					} else {
						in.failf("variable %s of type %s", id.Name, typeStr(o.Type()))
					}
				default:
					in.failf("declaration at %s", in.p.Pos(x.Pos()))
				}
			}
		}
	case *ast.AssignStmt:
		if len(x.Lhs) != len(x.Rhs) {
			in.failf("assignment at %s", in.p.Pos(x.Pos()))
			break
		}
		vals := make([]c07Val, len(x.Rhs))
		for i, e := range x.Rhs {
			vals[i] = in.eval(fi, e, env)
		}
		for i, l := range x.Lhs {
			id, ok := ast.Unparen(l).(*ast.Ident)
			if !ok {
				in.failf("assignment to %s at %s", exprStr(l), in.p.Pos(x.Pos()))
				break
			}
			if id.Name == "_" {
				continue
			}
			o := objOfIdent(info, id)
			if v, isVar := o.(*types.Var); !isVar || v.Pkg() == nil || v.Parent() == v.Pkg().Scope() {
				in.failf("assignment to %s at %s", id.Name, in.p.Pos(x.Pos()))
				break
			}
			switch x.Tok {
			case token.ASSIGN, token.DEFINE:
				env[o] = vals[i]
			default:
				in.failf("op-assignment at %s", in.p.Pos(x.Pos()))
			}
		}
	case *ast.IfStmt:
		if x.Init != nil {
			if flow, v := in.stmt(fi, x.Init, env); flow != c25FlowNext || in.fail != "" {
				return flow, v
			}
		}
		c := in.eval(fi, x.Cond, env)
		if c.k != 2 {
			in.failf("condition %s at %s not evaluated", exprStr(x.Cond), in.p.Pos(x.Pos()))
			break
		}
		if c.b {
			return in.block(fi, x.Body.List, env)
		}
		if x.Else != nil {
			return in.stmt(fi, x.Else, env)
		}
	case *ast.SwitchStmt:
		if x.Init != nil {
			if flow, v := in.stmt(fi, x.Init, env); flow != c25FlowNext || in.fail != "" {
				return flow, v
			}
		}
		var tag c07Val
		if x.Tag != nil {
			if tag = in.eval(fi, x.Tag, env); !tag.known() {
				in.failf("switch tag %s at %s not evaluated", exprStr(x.Tag), in.p.Pos(x.Pos()))
				break
			}
		}
		var chosen *ast.CaseClause
		var deflt *ast.CaseClause
	clauses:
		for _, c := range x.Body.List {
			cc := c.(*ast.CaseClause)
			if cc.List == nil {
				deflt = cc
				continue
			}
			for _, e := range cc.List {
				v := in.eval(fi, e, env)
				if in.fail != "" {
					return c25FlowNext, c07Unknown
				}
				hit := false
				switch {
				case x.Tag != nil && v.known() && v.k == tag.k:
					hit = v == tag
				case x.Tag == nil && v.k == 2:
					hit = v.b
				default:
					in.failf("case %s at %s not evaluated", exprStr(e), in.p.Pos(e.Pos()))
					return c25FlowNext, c07Unknown
				}
				if hit {
					chosen = cc
					break clauses
				}
			}
		}
		if chosen == nil {
			chosen = deflt
		}
		if chosen != nil {
			for _, b := range chosen.Body {
				if br, ok := b.(*ast.BranchStmt); ok && br.Tok == token.FALLTHROUGH {
					in.failf("fallthrough at %s", in.p.Pos(br.Pos()))
					return c25FlowNext, c07Unknown
				}
			}
			flow, v := in.block(fi, chosen.Body, env)
			if flow == c25FlowBreak {
				flow = c25FlowNext
			}
			return flow, v
		}
	case *ast.BranchStmt:
		if x.Tok == token.BREAK && x.Label == nil {
			return c25FlowBreak, c07Unknown
		}
		in.failf("%s at %s", x.Tok, in.p.Pos(x.Pos()))
	default:
		in.failf("statement %T at %s", s, in.p.Pos(s.Pos()))
	}
	return c25FlowNext, c07Unknown
}

func (in *c25Interp) eval(fi *FuncInfo, e ast.Expr, env map[types.Object]c07Val) c07Val {
	info := fi.Pkg.TypesInfo
	if tv, ok := info.Types[e]; ok && tv.Value != nil {
		if tv.Value.Kind() == constant.Int || tv.Value.Kind() == constant.Bool {
			return c07FromConst(tv.Value)
		}
	}
	bad := func() c07Val {
		in.failf("expression %s at %s not evaluated", exprStr(e), in.p.Pos(e.Pos()))
		return c07Unknown
	}
	switch x := e.(type) {
	case *ast.ParenExpr:
		return in.eval(fi, x.X, env)
	case *ast.Ident:
		if v, ok := env[objOfIdent(info, x)]; ok && v.known() {
			return v
		}
		return bad()
	case *ast.UnaryExpr:
		v := in.eval(fi, x.X, env)
		switch {
		case x.Op == token.NOT && v.k == 2:
			return c07Bool(!v.b)
		case x.Op == token.SUB && v.k == 1:
			return c07Int(c07Wrap(info.TypeOf(e), -v.i))
		case x.Op == token.ADD && v.k == 1:
			return v
		case x.Op == token.XOR && v.k == 1:
			return c07Int(c07Wrap(info.TypeOf(e), ^v.i))
		}
		return bad()
	case *ast.BinaryExpr:
		l := in.eval(fi, x.X, env)
		if in.fail != "" {
			return c07Unknown
		}
		if x.Op == token.LAND || x.Op == token.LOR {
			if l.k != 2 {
				return bad()
			}
			if l.b == (x.Op == token.LOR) {
				return l
			}
			r := in.eval(fi, x.Y, env)
			if r.k != 2 {
				return bad()
			}
			return r
		}
		r := in.eval(fi, x.Y, env)
		if in.fail != "" {
			return c07Unknown
		}
		if l.k == 2 && r.k == 2 {
			switch x.Op {
			case token.EQL:
				return c07Bool(l.b == r.b)
			case token.NEQ:
				return c07Bool(l.b != r.b)
			}
			return bad()
		}
		if l.k != 1 || r.k != 1 {
			return bad()
		}
		a, b := l.i, r.i
		switch x.Op {
		case token.EQL:
			return c07Bool(a == b)
		case token.NEQ:
			return c07Bool(a != b)
		case token.LSS:
			return c07Bool(a < b)
		case token.LEQ:
			return c07Bool(a <= b)
		case token.GTR:
			return c07Bool(a > b)
		case token.GEQ:
			return c07Bool(a >= b)
		}
		var res int64
		switch x.Op {
		case token.ADD:
			res = a + b
		case token.SUB:
			res = a - b
		case token.MUL:
			res = a * b
		case token.AND:
			res = a & b
		case token.OR:
			res = a | b
		case token.XOR:
			res = a ^ b
		case token.AND_NOT:
			res = a &^ b
		case token.SHL:
			if b < 0 || b > 62 {
				return bad()
			}
			res = a << uint(b)
		case token.SHR:
			if b < 0 || b > 63 {
				return bad()
			}
			res = a >> uint(b)
		case token.QUO:
			if b == 0 {
				return bad()
			}
			res = a / b
		case token.REM:
			if b == 0 {
				return bad()
			}
			res = a % b
		default:
			return bad()
		}
		return c07Int(c07Wrap(info.TypeOf(e), res))
	case *ast.CallExpr:
		if tv, ok := info.Types[x.Fun]; ok && tv.IsType() && len(x.Args) == 1 {
			v := in.eval(fi, x.Args[0], env)
			if b, ok := tv.Type.Underlying().(*types.Basic); ok && v.k == 1 && b.Info()&types.IsInteger != 0 {
				return c07Int(c07Wrap(tv.Type, v.i))
			}
			return bad()
		}
		fn := callee(info, x)
		if fn == nil || fn.Pkg() == nil || len(x.Args) != 1 {
			return bad()
		}
		a := in.eval(fi, x.Args[0], env)
		if a.k != 1 {
			return bad()
		}
		name := fn.Pkg().Path() + "." + fn.Name()
		if fn.Type().(*types.Signature).Recv() == nil {
			if f := c25UnicodePreds[name]; f != nil {
				if a.i < -1<<31 || a.i > 1<<31-1 {
					return bad()
				}
				return c07Bool(f(rune(a.i)))
			}
			if f := c25UnicodeMaps[name]; f != nil {
				if a.i < -1<<31 || a.i > 1<<31-1 {
					return bad()
				}
				return c07Int(int64(f(rune(a.i))))
			}
		}
		if gi := in.byObj[fn]; gi != nil {
			return in.call(gi, a.i)
		}
		return bad()
	}
	return bad()
}

// c25IsRunePred: func(rune) bool without receiver.
func c25IsRunePred(fn *types.Func) bool {
	sig, ok := fn.Type().(*types.Signature)
	if !ok || sig.Recv() != nil || sig.Params().Len() != 1 || sig.Results().Len() != 1 {
		return false
	}
	pb, ok1 := sig.Params().At(0).Type().Underlying().(*types.Basic)
	rb, ok2 := sig.Results().At(0).Type().Underlying().(*types.Basic)
	return ok1 && ok2 && pb.Kind() == types.Int32 && rb.Kind() == types.Bool
}

// c25SeparatorRef is the definition (strings.Title's word boundary).
func c25SeparatorRef(r rune) bool {
	if r <= 0x7F {
		alnum := '0' <= r && r <= '9' || 'a' <= r && r <= 'z' || 'A' <= r && r <= 'Z'
		return !alnum && r != '_'
	}
	if unicode.IsLetter(r) || unicode.IsDigit(r) {
		return false
	}
	return unicode.IsSpace(r)
}

func c25SeparatorClass(r *Run) {
	const R = "R-11"
	byObj := map[*types.Func]*FuncInfo{}
	for _, fi := range r.P.Funcs("builtin") {
		if !r.P.isTestFile(fi.File) && fi.Obj != nil {
			byObj[fi.Obj] = fi
		}
	}
	// by role: rune predicates of the package called by an exported builtin that also maps a rune to upper case
	users := map[*FuncInfo][]string{}
	for _, fi := range byObj {
		if !fi.Obj.Exported() {
			continue
		}
		info := fi.Pkg.TypesInfo
		upper := false
		var preds []*FuncInfo
		for _, c := range calls(fi.Decl.Body, true) {
			fn := callee(info, c)
			if fn == nil || fn.Pkg() == nil {
				continue
			}
			if fn.Pkg().Path() == "unicode" && (fn.Name() == "ToUpper" || fn.Name() == "ToTitle") {
				upper = true
			}
			if gi := byObj[fn]; gi != nil && c25IsRunePred(fn) {
				preds = append(preds, gi)
			}
		}
		if upper {
			for _, gi := range preds {
				users[gi] = append(users[gi], fi.Decl.Name.Name)
			}
		}
	}
	var cands []*FuncInfo
	for gi := range users {
		cands = append(cands, gi)
	}
	if len(cands) > 1 {
		// several rune predicates: the word-boundary one is the one every capitalising builtin shares, or by name
		var named []*FuncInfo
		for _, gi := range cands {
			if strings.Contains(strings.ToLower(gi.Decl.Name.Name), "separator") {
				named = append(named, gi)
			}
		}
		cands = named
	}
	if len(cands) == 0 {
		if gi := r.P.Func("builtin", "isSeparator"); gi != nil && gi.Obj != nil && c25IsRunePred(gi.Obj) {
			cands = append(cands, gi)
		}
	}
	if !r.Anchor(R, "the word-boundary predicate func(rune) bool of the capitalising builtins (isSeparator)", len(cands) == 1) {
		return
	}
	pred := cands[0]
	us := c25Uniq(users[pred])
	in := &c25Interp{p: r.P, byObj: byObj}
	type diff struct {
		r         rune
		got, want bool
	}
	check := func(what string, lo, hi rune, consequence string) {
		o := r.Ob(R, pred.Name()+"#"+what, pred.Decl.Pos())
		var diffs []diff
		n := 0
		for c := lo; c <= hi; c++ {
			v := in.call(pred, int64(c))
			if in.fail != "" || v.k != 2 {
				if in.fail == "" {
					in.fail = "no boolean result"
				}
				o.Unknown("%s(%U) could not be evaluated from the syntax: %s", pred.Name(), c, in.fail)
				in.fail = ""
				return
			}
			if want := c25SeparatorRef(c); v.b != want {
				n++
				if len(diffs) < 6 {
					diffs = append(diffs, diff{c, v.b, want})
				}
			}
		}
		if n == 0 {
			o.OK("%s agrees with the definition on every code point %U…%U (used by %s)", pred.Name(), lo, hi, strings.Join(us, ", "))
			return
		}
		var ds []string
		for _, d := range diffs {
			ds = append(ds, fmt.Sprintf("%U %q: %v, definition %v", d.r, d.r, d.got, d.want))
		}
		o.Bad("%s differs from the word-boundary definition on %d code point(s) of %U…%U: %s. %s", pred.Name(), n, lo, hi, strings.Join(ds, "; "), consequence)
	}
	check("ascii", 0, 0x7F, "In ASCII every character but letters, digits and '_' separates words: "+strings.Join(us, " / ")+" then capitalise (or leave) the wrong letter next to such a character, e.g. \"ab<c>cd\" with <c> the character above.")
	check("non-ascii", 0x80, unicode.MaxRune, "Beyond ASCII letters and digits never separate words and, of the rest, only white space does: "+strings.Join(us, " / ")+" change their result for words next to such a character.")
	r.Require(R, 2)
}
