package main

// C08 — values shown as JavaScript or JSON are valid literals for the same data.
// R-1 every kind/type accepted statically for JS/JSON has its own clause in the serialiser (E1+E2)
// R-2 map entries are written from the collected keys after they were sorted (E4b)
// R-3 every string, field name and map key goes through the string escaper (= C06 R-2 on the serialisers)
// R-4 floats are formatted only after a test for non-finite values (E4a)
// Uses the helpers of c06.go.

import (
	"go/ast"
	"go/token"
	"go/types"
	"sort"
	"strings"
)

func init() {
	register("C08", &ruleSet{
		explain: "For showInJS and showInJSON, the functions renderer.Show dispatches the JS and JSON contexts to: (R-1) each reflect kind, exact type and interface accepted by checkShowJS/checkShowJSON has a non-default clause in the serialiser's kind switch or leading type switch, so no accepted value degrades to `undefined`/`null`; (R-2) in the reflect.Map clause the key and the value of an entry are written inside a loop over the slice of collected keys and every path to those writes passes the call sorting that slice by the emitted key; (R-3) every write whose data is a string value, a struct field name or a map key is a call of the string escaper, and the String, Struct and Map clauses each contain one; (R-4) every strconv.FormatFloat of the serialisers is dominated by the false edges of math.IsNaN and math.IsInf tests, since +Inf/-Inf/NaN are not literals of either language.",
		notCov:  []string{"agreement with encoding/json on tags and emptiness beyond string routing", "the direction of the key order and the comparison used (only that the emitted key is the sort key)", "the text produced for time.Time", "the character table of jsStringEscape (C07)"},
		trusted: []string{"frozen table context → escapers (c06Specs)", "strconv.FormatFloat yields +Inf, -Inf, NaN for non-finite arguments"},
		run:     runC08,
	})
}

func runC08(r *Run) {
	x := c06ShowTable(r, "R-1")
	if x == nil {
		return
	}
	ser := map[string]*FuncInfo{} // "JS" / "JSON" → serialiser
	only := map[string]bool{}
	for name, ctxs := range x.ctxFuncs {
		for _, c := range ctxs {
			if c == "ContextJS" || c == "ContextJSON" {
				ser[strings.TrimPrefix(c, "Context")] = x.funcs[name]
				only[name] = true
			}
		}
	}
	if !r.Anchor("R-1", "the functions renderer.Show dispatches ContextJS and ContextJSON to", ser["JS"] != nil && ser["JSON"] != nil) {
		return
	}
	c08KindCoverage(r, "R-1", x, ser)
	c08KeyOrder(r, "R-2", x, ser)
	c06Sanitiser(r, "R-3", only)
	c08StringRouting(r, "R-3", x, ser)
	r.Require("R-3", 24)
	c08NonFinite(r, "R-4", x, ser)
}

// kindSwitch returns the switch of fi on the reflect.Kind of a reflect.Value / reflect.Type.
func c08KindSwitch(r *Run, fi *FuncInfo) *ast.SwitchStmt {
	kt := r.P.ExtNamed("reflect", "Kind")
	if kt == nil {
		return nil
	}
	for _, s := range switchesOn(fi.Pkg.TypesInfo, fi.Decl.Body, kt) {
		// outermost only
		par := r.P.Parents(fi.File)
		nested := false
		for m := par[ast.Node(s)]; m != nil && m != fi.Decl.Body; m = par[m] {
			if _, ok := m.(*ast.CaseClause); ok {
				nested = true
			}
		}
		if !nested {
			return s
		}
	}
	return nil
}

func c08ClauseOf(info *types.Info, sw *ast.SwitchStmt, kind string) *ast.CaseClause {
	for _, st := range sw.Body.List {
		cc := st.(*ast.CaseClause)
		for _, e := range cc.List {
			if k := constOf(info, e); k != nil && k.Name() == kind && k.Pkg().Path() == "reflect" {
				return cc
			}
		}
	}
	return nil
}

// reflectTypeVar resolves a package-level `var x = reflect.TypeFor[T]()` to T.
func c08ReflectTypeVar(r *Run, info *types.Info, e ast.Expr) types.Type {
	id, ok := ast.Unparen(e).(*ast.Ident)
	if !ok {
		return nil
	}
	v, ok := info.Uses[id].(*types.Var)
	if !ok || v.Pkg() == nil || v.Parent() != v.Pkg().Scope() {
		return nil
	}
	rel := strings.TrimPrefix(strings.TrimPrefix(v.Pkg().Path(), modulePath), "/")
	init, _, pk := r.P.pkgVarInit(rel, v.Name())
	c, ok := init.(*ast.CallExpr)
	if !ok {
		return nil
	}
	ix, ok := c.Fun.(*ast.IndexExpr)
	if !ok {
		return nil
	}
	var fid *ast.Ident
	switch f := ix.X.(type) {
	case *ast.Ident:
		fid = f
	case *ast.SelectorExpr:
		fid = f.Sel
	}
	if fid == nil {
		return nil
	}
	if f, ok := pk.TypesInfo.Uses[fid].(*types.Func); !ok || f.Pkg().Path() != "reflect" || f.Name() != "TypeFor" {
		return nil
	}
	return pk.TypesInfo.TypeOf(ix.Index)
}

func c08KindCoverage(r *Run, rule string, x *c06Show, ser map[string]*FuncInfo) {
	const comp = "internal/compiler"
	kt := r.P.ExtNamed("reflect", "Kind")
	ctxT := r.P.Named("ast", "Context")
	pk := r.P.Pkg(comp)
	if !r.Anchor(rule, "reflect.Kind, ast.Context, package compiler", kt != nil && ctxT != nil && pk != nil) {
		return
	}
	kinds := EnumConsts(kt)
	kname := map[int64]string{}
	for _, c := range kinds {
		v, _ := constantInt64(c)
		if _, dup := kname[v]; !dup || c.Name() == "Pointer" {
			kname[v] = c.Name()
		}
	}
	maxKind := c06MaxConst(kinds)
	info := pk.TypesInfo
	// static table by role
	var chk *FuncInfo
	for _, fi := range r.P.Funcs(comp) {
		if fi.Decl.Recv != nil || r.P.isTestFile(fi.File) || fi.Obj == nil {
			continue
		}
		sig := fi.Obj.Type().(*types.Signature)
		if sig.Params().Len() == 2 && typeStr(sig.Params().At(0).Type()) == "reflect.Type" && len(switchesOn(info, fi.Decl.Body, ctxT)) > 0 {
			chk = fi
		}
	}
	if !r.Anchor(rule, "compiler.checkShow", chk != nil) {
		return
	}
	sw := switchesOn(info, chk.Decl.Body, ctxT)[0]
	total := 0
	for _, lang := range []string{"JS", "JSON"} {
		var sub *FuncInfo
		for _, st := range sw.Body.List {
			cc := st.(*ast.CaseClause)
			for _, e := range cc.List {
				if k := constOf(info, e); k != nil && k.Name() == "Context"+lang {
					for _, c := range calls(cc, false) {
						if f := callee(info, c); f != nil && f.Pkg() == chk.Obj.Pkg() {
							if fi := c06FuncInfoOf(r.P, f); fi != nil && typeStr(f.Type().(*types.Signature).Params().At(0).Type()) == "reflect.Type" {
								sub = fi
							}
						}
					}
				}
			}
		}
		if !r.Anchor(rule, "the function checkShow delegates Context"+lang+" to (checkShow"+lang+")", sub != nil) {
			continue
		}
		fi := ser[lang]
		rinfo := fi.Pkg.TypesInfo
		ksw := c08KindSwitch(r, fi)
		if !r.Anchor(rule, "kind switch of "+fi.Name(), ksw != nil) {
			continue
		}
		cov := coverOfSwitch(rinfo, ksw)
		// leading type switch of the serialiser
		var tsTypes []types.Type
		ast.Inspect(fi.Decl.Body, func(n ast.Node) bool {
			if n == ast.Node(ksw) {
				return false
			}
			if ts, ok := n.(*ast.TypeSwitchStmt); ok {
				for _, st := range ts.Body.List {
					for _, te := range st.(*ast.CaseClause).List {
						if t := rinfo.TypeOf(te); t != nil && !rinfo.Types[te].IsNil() {
							tsTypes = append(tsTypes, t)
						}
					}
				}
				return false
			}
			return true
		})
		// accepted classes
		tparam := sub.Obj.Type().(*types.Signature).Params().At(0)
		acceptKinds := map[int64]token.Pos{}
		type tcls struct {
			what string
			t    types.Type
			pos  token.Pos
		}
		var acceptTypes []tcls
		kindVarOfT := func(v types.Object) bool {
			for _, d := range c06Defs(info, sub.Decl.Body, v) {
				c, ok := d.Rhs.(*ast.CallExpr)
				if !ok {
					return false
				}
				sel, ok := c.Fun.(*ast.SelectorExpr)
				if !ok || sel.Sel.Name != "Kind" {
					return false
				}
				id, ok := ast.Unparen(sel.X).(*ast.Ident)
				if !ok || info.Uses[id] != tparam {
					return false
				}
			}
			return true
		}
		for _, st := range sub.Decl.Body.List {
			switch s := st.(type) {
			case *ast.IfStmt:
				if len(s.Body.List) != 1 {
					continue
				}
				rs, ok := s.Body.List[0].(*ast.ReturnStmt)
				if !ok || len(rs.Results) != 1 || !info.Types[rs.Results[0]].IsNil() {
					continue
				}
				for _, dj := range splitOr(s.Cond) {
					dj = ast.Unparen(dj)
					// pure kind predicate
					var kv types.Object
					pure := true
					ast.Inspect(dj, func(n ast.Node) bool {
						if id, ok := n.(*ast.Ident); ok {
							if v, ok := info.Uses[id].(*types.Var); ok {
								if types.Identical(v.Type(), kt) && (kv == nil || kv == v) {
									kv = v
								} else {
									pure = false
								}
							}
						}
						return true
					})
					if kv != nil && pure && kindVarOfT(kv) {
						if set, ok := predSet(info, dj, isIdentOf(info, kv), 0, maxKind); ok {
							for k := range set {
								acceptKinds[k] = dj.Pos()
							}
							continue
						}
					}
					if b, ok := dj.(*ast.BinaryExpr); ok && b.Op == token.EQL {
						if id, ok := ast.Unparen(b.X).(*ast.Ident); ok && info.Uses[id] == tparam {
							if t := c08ReflectTypeVar(r, info, b.Y); t != nil {
								acceptTypes = append(acceptTypes, tcls{"exact", t, dj.Pos()})
								continue
							}
						}
					}
					if c, ok := dj.(*ast.CallExpr); ok {
						if f := callee(info, c); f != nil && f.Name() == "Contains" && f.Pkg() != nil && f.Pkg().Path() == "slices" {
							continue // recursion guard on the visited types
						}
					}
					if c, ok := dj.(*ast.CallExpr); ok && len(c.Args) == 1 {
						if sel, ok := c.Fun.(*ast.SelectorExpr); ok && sel.Sel.Name == "Implements" {
							if id, ok := ast.Unparen(sel.X).(*ast.Ident); ok && info.Uses[id] == tparam {
								if t := c08ReflectTypeVar(r, info, c.Args[0]); t != nil {
									acceptTypes = append(acceptTypes, tcls{"impl", t, dj.Pos()})
									continue
								}
							}
						}
					}
					r.Ob(rule, lang+"#accept:"+exprStr(dj), dj.Pos()).Unknown("acceptance predicate of %s not understood", sub.Name())
				}
			case *ast.SwitchStmt:
				if s.Tag == nil || !types.Identical(info.TypeOf(s.Tag), kt) {
					continue
				}
				if id, ok := ast.Unparen(s.Tag).(*ast.Ident); !ok || !kindVarOfT(info.Uses[id]) {
					continue
				}
				for _, c2 := range s.Body.List {
					cc := c2.(*ast.CaseClause)
					if len(cc.Body) == 1 {
						if rs, ok := cc.Body[0].(*ast.ReturnStmt); ok && len(rs.Results) == 1 {
							if _, isCall := ast.Unparen(rs.Results[0]).(*ast.CallExpr); isCall {
								if f := callee(info, rs.Results[0].(*ast.CallExpr)); f == nil || f != sub.Obj {
									continue // unconditional rejection
								}
							}
						}
					}
					for _, e := range cc.List {
						if v, ok := intValue(info, e); ok {
							acceptKinds[v] = e.Pos()
						}
					}
				}
			}
		}
		var ks []int64
		for k := range acceptKinds {
			ks = append(ks, k)
		}
		sort.Slice(ks, func(i, j int) bool { return ks[i] < ks[j] })
		for _, k := range ks {
			total++
			o := r.Ob(rule, lang+"#kind:"+kname[k], acceptKinds[k])
			switch {
			case kname[k] == "Interface":
				o.Trivial("a static type of kind Interface only says the dynamic type is unknown; reflect.ValueOf never yields kind Interface (the property allows such shows to fail)")
			case cov.Vals[k] != nil:
				o.OK("kind %s accepted by %s has its own clause in %s", kname[k], sub.Name(), fi.Name())
			default:
				o.Bad("kind %s is accepted by %s but %s has no clause for it: the value is rendered by the default clause (JS: undefined/* … */, JSON: null) instead of its data", kname[k], sub.Name(), fi.Name())
			}
		}
		for _, tc := range acceptTypes {
			total++
			o := r.Ob(rule, lang+"#"+tc.what+":"+typeStr(tc.t), tc.pos)
			ok := false
			for _, t := range tsTypes {
				if types.Identical(t, tc.t) {
					ok = true
				}
				if it, isI := t.Underlying().(*types.Interface); isI {
					if tc.what == "impl" {
						if ci, _ := tc.t.Underlying().(*types.Interface); ci != nil && types.Implements(tc.t, it) {
							ok = true
						}
					} else if types.Implements(tc.t, it) {
						ok = true
					}
				}
			}
			if ok {
				o.OK("%s accepted by %s is matched by a clause of the leading type switch of %s", typeStr(tc.t), sub.Name(), fi.Name())
			} else {
				o.Bad("%s is accepted by %s but the leading type switch of %s has no clause matching it", typeStr(tc.t), sub.Name(), fi.Name())
			}
		}
	}
	r.Stats[rule+"_accepted_classes"] = total
	r.Require(rule, 40)
}

// ---------------------------------------------------------------------------
// R-2 key order

var c08SortFuncs = map[string]bool{"sort.Slice": true, "sort.SliceStable": true, "sort.Strings": true, "sort.Sort": true, "sort.Stable": true, "slices.Sort": true, "slices.SortFunc": true, "slices.SortStableFunc": true}

func c08KeyOrder(r *Run, rule string, x *c06Show, ser map[string]*FuncInfo) {
	for _, lang := range []string{"JS", "JSON"} {
		fi := ser[lang]
		info := fi.Pkg.TypesInfo
		sp, _ := x.specOf(fi.Decl.Name.Name)
		ksw := c08KindSwitch(r, fi)
		if !r.Anchor(rule, "kind switch of "+fi.Name(), ksw != nil) {
			continue
		}
		mc := c08ClauseOf(info, ksw, "Map")
		if mc == nil {
			r.Ob(rule, fi.Name()+"#Map", ksw.Pos()).Unknown("no reflect.Map clause in %s", fi.Name())
			continue
		}
		c := r.P.CFGOf(fi)
		par := r.P.Parents(fi.File)
		// the sort call and the sorted slice
		var sortCall *ast.CallExpr
		var sorted types.Object
		for _, ce := range calls(mc, false) {
			if f := callee(info, ce); f != nil && f.Pkg() != nil && c08SortFuncs[f.Pkg().Path()+"."+f.Name()] && len(ce.Args) > 0 {
				if id, ok := c06Strip(info, ce.Args[0]).(*ast.Ident); ok {
					sortCall, sorted = ce, info.Uses[id]
				}
			}
		}
		var keySinks, valSinks []*c06Sink
		for _, sk := range x.sinks(fi, sp) {
			if sk.call.Pos() < mc.Pos() || sk.call.End() > mc.End() || (sk.kind == "raw" && sk.class == "lit") {
				continue
			}
			if sk.kind == "delegate" {
				valSinks = append(valSinks, sk)
			} else {
				keySinks = append(keySinks, sk)
			}
		}
		check := func(what string, sinks []*c06Sink) {
			o := r.Ob(rule, fi.Name()+"#Map:"+what+"-written-after-sort", mc.Pos())
			if len(sinks) == 0 {
				o.Unknown("no write of the entry %s found in the reflect.Map clause", what)
				return
			}
			if sortCall == nil {
				o.Bad("the reflect.Map clause of %s writes entries but never sorts the collected keys: objects are emitted in Go's random map order", fi.Name())
				return
			}
			for _, sk := range sinks {
				// inside a loop over the sorted slice
				inLoop := false
				for m := par[ast.Node(sk.call)]; m != nil && m != ast.Node(mc); m = par[m] {
					switch l := m.(type) {
					case *ast.RangeStmt:
						if id, ok := c06Strip(info, l.X).(*ast.Ident); ok && info.Uses[id] == sorted {
							inLoop = true
						} else if _, isMap := info.TypeOf(l.X).Underlying().(*types.Map); isMap {
							o.Bad("the entry %s is written inside a range over a map: random order", what)
							return
						}
					case *ast.ForStmt:
						// for i := 0; i < len(S); i++ { S[i] … } or a MapRange iterator loop
						uses := false
						ast.Inspect(l.Body, func(n ast.Node) bool {
							if id, ok := n.(*ast.Ident); ok && info.Uses[id] == sorted {
								uses = true
							}
							return true
						})
						if uses && l.Cond != nil && strings.Contains(exprStr(l.Cond), "len(") {
							inLoop = true
						}
					}
				}
				if !inLoop {
					o.Bad("the entry %s is written by %s outside a loop over the sorted slice", what, sk.name)
					return
				}
				if !c.MustPassNode(sk.call, func(n ast.Node) bool { return containsNode(n, sortCall) }) {
					o.Bad("a path reaches the write of the entry %s (%s) without passing the sort of the collected keys", what, sk.name)
					return
				}
			}
			o.OK("%d write(s) of the entry %s are inside the loop over the sorted slice and every path to them passes %s", len(sinks), what, exprStr(sortCall.Fun))
		}
		check("key", keySinks)
		check("value", valSinks)
		// the sort key is the emitted key
		o := r.Ob(rule, fi.Name()+"#Map:sorted-by-emitted-key", mc.Pos())
		switch {
		case sortCall == nil:
			o.Bad("no sort of the collected keys in the reflect.Map clause of %s", fi.Name())
		case len(keySinks) == 0 || keySinks[0].data == nil:
			o.Unknown("the emitted key was not identified")
		default:
			var keyField types.Object
			if sel, ok := ast.Unparen(keySinks[0].data).(*ast.SelectorExpr); ok {
				keyField = info.Uses[sel.Sel]
			}
			if len(sortCall.Args) == 1 {
				if s, ok := info.TypeOf(sortCall.Args[0]).Underlying().(*types.Slice); ok {
					if b, ok := s.Elem().Underlying().(*types.Basic); ok && b.Info()&types.IsString != 0 {
						o.OK("the slice of key strings itself is sorted")
						break
					}
				}
				o.Unknown("sort call %s not understood", exprStr(sortCall))
				break
			}
			fl, ok := ast.Unparen(sortCall.Args[len(sortCall.Args)-1]).(*ast.FuncLit)
			if !ok || len(fl.Body.List) == 0 {
				o.Unknown("the comparison function of the sort is not a function literal")
				break
			}
			// either `return a.key < b.key`, or a lexicographic order whose first criterion is the key:
			// `if a.key != b.key { return a.key < b.key }` followed by a tie-breaker
			var ret *ast.ReturnStmt
			tieBreak := false
			switch st := fl.Body.List[0].(type) {
			case *ast.ReturnStmt:
				if len(fl.Body.List) == 1 {
					ret = st
				}
			case *ast.IfStmt:
				if be, ok := ast.Unparen(st.Cond).(*ast.BinaryExpr); ok && be.Op == token.NEQ && st.Else == nil && len(st.Body.List) == 1 {
					onlyKey := true
					ast.Inspect(be, func(n ast.Node) bool {
						if sel, ok := n.(*ast.SelectorExpr); ok {
							if v, ok := info.Uses[sel.Sel].(*types.Var); ok && v.IsField() && v != keyField {
								onlyKey = false
							}
						}
						return true
					})
					if r0, ok := st.Body.List[0].(*ast.ReturnStmt); ok && onlyKey {
						ret, tieBreak = r0, true
					}
				}
			}
			if ret == nil || len(ret.Results) != 1 {
				o.Unknown("the comparison function of the sort is neither `return a.key < b.key` nor a lexicographic order starting with the key")
				break
			}
			_ = tieBreak
			var fields []types.Object
			ast.Inspect(ret.Results[0], func(n ast.Node) bool {
				if sel, ok := n.(*ast.SelectorExpr); ok {
					if v, ok := info.Uses[sel.Sel].(*types.Var); ok && v.IsField() {
						fields = append(fields, v)
					}
				}
				return true
			})
			same := len(fields) >= 2
			for _, f := range fields {
				if f != keyField {
					same = false
				}
			}
			if same {
				o.OK("the comparison function orders by field %s, the value written as the entry key", keyField.Name())
			} else {
				o.Bad("the comparison function of the sort does not order by the field written as the entry key")
			}
		}
	}
	r.Require(rule, 6)
}

// ---------------------------------------------------------------------------
// R-3 existence part: the String, Struct and Map clauses each route through the string escaper

func c08StringRouting(r *Run, rule string, x *c06Show, ser map[string]*FuncInfo) {
	for _, lang := range []string{"JS", "JSON"} {
		fi := ser[lang]
		info := fi.Pkg.TypesInfo
		sp, _ := x.specOf(fi.Decl.Name.Name)
		ksw := c08KindSwitch(r, fi)
		if ksw == nil {
			continue
		}
		sinks := x.sinks(fi, sp)
		for _, kind := range []string{"String", "Struct", "Map"} {
			cc := c08ClauseOf(info, ksw, kind)
			o := r.Ob(rule, fi.Name()+"#"+kind+":routes-through-string-escaper", ksw.Pos())
			if cc == nil {
				o.Bad("%s has no clause for reflect.%s", fi.Name(), kind)
				continue
			}
			n, raw := 0, 0
			for _, sk := range sinks {
				if sk.call.Pos() < cc.Pos() || sk.call.End() > cc.End() {
					continue
				}
				if sk.kind == "sanitised" {
					n++
				}
				if sk.kind == "raw" && sk.class != "lit" {
					raw++
				}
			}
			if n > 0 && raw == 0 {
				o.OK("the reflect.%s clause writes its variable text only through %s (%d call(s))", kind, strings.Join(sp.esc, "/"), n)
			} else if n == 0 {
				o.Bad("the reflect.%s clause of %s never calls the string escaper: the string / name / key is not written as an escaped string literal", kind, fi.Name())
			} else {
				o.Bad("the reflect.%s clause of %s also writes variable text without the string escaper", kind, fi.Name())
			}
		}
	}
}

// ---------------------------------------------------------------------------
// R-4 non-finite guard

func c08NonFinite(r *Run, rule string, x *c06Show, ser map[string]*FuncInfo) {
	n := 0
	for _, lang := range []string{"JS", "JSON"} {
		fi := ser[lang]
		info := fi.Pkg.TypesInfo
		c := r.P.CFGOf(fi)
		for _, ce := range calls(fi.Decl.Body, false) {
			f := callee(info, ce)
			if f == nil || f.Pkg() == nil || f.Pkg().Path() != "strconv" || f.Name() != "FormatFloat" || len(ce.Args) == 0 {
				continue
			}
			n++
			labels, _ := x.clausePath(fi, ce)
			o := r.Ob(rule, fi.Name()+"#"+strings.Join(labels, "/")+":FormatFloat", ce.Pos())
			val := exprStr(c06Strip(info, ce.Args[0]))
			var sign int64
			guard := func(name string) bool {
				return c.GuardedBy(ce, func(l Lit) bool {
					if l.Tag != nil || l.Truth {
						return false
					}
					g, ok := ast.Unparen(l.Expr).(*ast.CallExpr)
					if !ok || len(g.Args) == 0 {
						return false
					}
					gf := callee(info, g)
					if gf == nil || gf.Pkg() == nil || gf.Pkg().Path() != "math" || gf.Name() != name {
						return false
					}
					if exprStr(c06Strip(info, g.Args[0])) != val {
						return false
					}
					if name == "IsInf" {
						v, ok := intValue(info, g.Args[1])
						return ok && v == sign
					}
					return true
				})
			}
			sign = 0
			nan, inf := guard("IsNaN"), guard("IsInf")
			if !inf {
				// math.IsInf(x, 1) and math.IsInf(x, -1) tested separately
				sign = 1
				pos := guard("IsInf")
				sign = -1
				inf = pos && guard("IsInf")
			}
			if nan && inf {
				o.OK("dominated by the false edges of math.IsNaN(%s) and math.IsInf(%s, 0)", val, val)
			} else {
				var miss []string
				if !nan {
					miss = append(miss, "NaN")
				}
				if !inf {
					miss = append(miss, "±Inf")
				}
				o.Bad("strconv.FormatFloat(%s, …) is reached for %s: it yields text (NaN, +Inf, -Inf) that is not a %s literal (e.g. var x = {{ math.Inf(1) }} renders `var x = +Inf;`)", val, strings.Join(miss, " and "), lang)
			}
		}
	}
	r.Require(rule, 2)
	_ = n
}
