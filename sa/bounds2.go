package main

// Engine E6, second part: the entailment test (sum of up to three facts), the semantic meet,
// facts from accesses that were survived, disjunctive conditions and predicate-function summaries.

import (
	"go/ast"
	"go/token"
	"go/types"
	"sort"
	"strings"

	"golang.org/x/tools/go/cfg"
)

// meetInterest holds the linear parts of the goals of the function being analysed: the meet keeps what
// both sides entail about them even when neither side stores such a fact (set by run()).
var meetInterest []lin

func (bf *boundsFunc) interest() []lin {
	seen := map[string]bool{}
	var out []lin
	add := func(l lin) {
		p := lin{t: l.t}
		if k := p.key(); len(p.t) > 0 && !seen[k] {
			seen[k] = true
			out = append(out, p)
		}
	}
	for _, st := range bf.sites() {
		for _, g := range st.Goals {
			add(g)
		}
	}
	for _, p := range bf.pre {
		add(p)
	}
	return out
}

// factBasis returns the explicit facts plus len(x) ≥ 0 for every len term in sight.
func (s *bstate) factBasis(extra lin) []lin {
	var facts []lin
	seenLen := map[string]bool{}
	addLen := func(n string) {
		if strings.HasPrefix(n, "len(") && !seenLen[n] {
			seenLen[n] = true
			l := newLin()
			l.t[n] = -1
			facts = append(facts, l) // -len(x) ≤ 0
		}
	}
	for _, f := range s.le {
		facts = append(facts, f)
		for n := range f.t {
			addLen(n)
		}
	}
	for n := range extra.t {
		addLen(n)
	}
	return facts
}

// basis is a prepared fact set for entailment queries.
type basis struct {
	facts []lin
	keys  []string
	byKey map[string][]int
}

func (s *bstate) basis(extra lin) *basis {
	b := &basis{facts: s.factBasis(extra), byKey: map[string][]int{}}
	b.keys = make([]string, len(b.facts))
	for i, f := range b.facts {
		b.keys[i] = f.key()
	}
	// deterministic order: by key then constant
	idx := make([]int, len(b.facts))
	for i := range idx {
		idx[i] = i
	}
	sort.Slice(idx, func(x, y int) bool {
		if b.keys[idx[x]] != b.keys[idx[y]] {
			return b.keys[idx[x]] < b.keys[idx[y]]
		}
		return b.facts[idx[x]].c < b.facts[idx[y]].c
	})
	facts := make([]lin, len(idx))
	keys := make([]string, len(idx))
	for n, i := range idx {
		facts[n], keys[n] = b.facts[i], b.keys[i]
	}
	b.facts, b.keys = facts, keys
	for i, k := range b.keys {
		b.byKey[k] = append(b.byKey[k], i)
	}
	return b
}

// bound returns the largest c such that the facts entail L + c ≤ 0 by a sum of at most `depth`
// (1..3) of them.
func (s *bstate) bound(L lin, depth int) (int64, bool, string) {
	tk := lin{t: L.t}.key()
	if depth <= 1 {
		if f, ok := s.le[tk]; ok {
			return f.c, true, f.String() + " ≤ 0"
		}
	}
	return s.basis(L).bound(L, depth)
}

func (b *basis) bound(L lin, depth int) (int64, bool, string) {
	tk := lin{t: L.t}.key()
	facts, byKey := b.facts, b.byKey
	// implicit len(x) ≥ 0 for len terms of L that the basis does not know
	for n := range L.t {
		if strings.HasPrefix(n, "len(") {
			if _, ok := byKey["-1*"+n]; !ok {
				l := newLin()
				l.t[n] = -1
				nb := &basis{facts: append(append([]lin{}, facts...), l), keys: append(append([]string{}, b.keys...), "-1*"+n), byKey: map[string][]int{}}
				for i, k := range nb.keys {
					nb.byKey[k] = append(nb.byKey[k], i)
				}
				return nb.bound(L, depth)
			}
		}
	}
	best := int64(0)
	found := false
	var bi [3]int
	bn := 0
	try := func(c int64, n int, i, j, k int) {
		if !found || c > best {
			best, found, bn, bi = c, true, n, [3]int{i, j, k}
		}
	}
	for _, i := range byKey[tk] {
		try(facts[i].c, 1, i, 0, 0)
	}
	zero := lin{t: L.t}
	if depth >= 2 {
		for i := range facts {
			need := zero.add(lin{t: facts[i].t}, -1)
			for _, j := range byKey[need.key()] {
				try(facts[i].c+facts[j].c, 2, i, j, 0)
			}
		}
	}
	if depth >= 3 && len(facts) <= 80 {
		for i := range facts {
			ni := zero.add(lin{t: facts[i].t}, -1)
			for j := i; j < len(facts); j++ {
				need := ni.add(lin{t: facts[j].t}, -1)
				for _, k := range byKey[need.key()] {
					try(facts[i].c+facts[j].c+facts[k].c, 3, i, j, k)
				}
			}
		}
	}
	why := ""
	if found {
		var parts []string
		for x := 0; x < bn; x++ {
			parts = append(parts, facts[bi[x]].String()+" ≤ 0")
		}
		why = strings.Join(parts, " ∧ ")
	}
	return best, found, why
}

// proves reports whether the facts entail goal (goal.L + goal.c ≤ 0).
func (s *bstate) proves(goal lin) (bool, string) {
	if len(goal.t) == 0 {
		return goal.c <= 0, "constant"
	}
	for d := 1; d <= 3; d++ {
		if c, ok, why := s.bound(goal, d); ok && c >= goal.c {
			return true, stripPos(why)
		}
	}
	return false, ""
}

// meet is the must-join: for every linear part known on either side, the weaker of the two
// constants each side ENTAILS for it (by at most two facts), not merely stores.
func meet(a, b *bstate) *bstate {
	r := newState()
	var bases [2]*basis
	for si, side := range []*bstate{a, b} {
		other := b
		if si == 1 {
			other = a
		}
		oi := 1 - si
		for k, f := range side.le {
			if _, done := r.le[k]; done {
				continue
			}
			var co int64
			var ok bool
			if g, has := other.le[k]; has && g.c >= f.c {
				co, ok = g.c, true
			} else {
				if bases[oi] == nil {
					bases[oi] = other.basis(lin{})
				}
				co, ok, _ = bases[oi].bound(f, 2)
			}
			if ok {
				g := lin{t: f.t, c: f.c}
				if co > g.c {
					// the other side is stronger than what this side stores: this side may entail more
					if bases[si] == nil {
						bases[si] = side.basis(lin{})
					}
					if cs, oks, _ := bases[si].bound(f, 2); oks && cs > g.c {
						g.c = cs
					}
				}
				if co < g.c {
					g.c = co
				}
				r.le[k] = g
			}
		}
	}
	// goal-directed: linear parts the function's sites ask about, entailed (not stored) on both sides
	for _, L := range meetInterest {
		k := lin{t: L.t}.key()
		if _, done := r.le[k]; done {
			continue
		}
		mentioned := func(s *bstate) bool {
			for t := range L.t {
				if strings.HasPrefix(t, "len(") {
					continue
				}
				found := false
				for _, f := range s.le {
					if _, ok := f.t[t]; ok {
						found = true
						break
					}
				}
				if !found {
					return false
				}
			}
			return true
		}
		if !mentioned(a) || !mentioned(b) {
			continue
		}
		if bases[0] == nil {
			bases[0] = a.basis(lin{})
		}
		if bases[1] == nil {
			bases[1] = b.basis(lin{})
		}
		ca, oka, _ := bases[0].bound(L, 3)
		cb, okb, _ := bases[1].bound(L, 3)
		if oka && okb {
			g := lin{t: L.t, c: ca}
			if cb < ca {
				g.c = cb
			}
			r.le[k] = g
		}
	}
	for k, fa := range a.ne {
		if _, ok := b.ne[k]; ok {
			r.ne[k] = fa
		}
	}
	for k, x := range a.bv {
		if y, ok := b.bv[k]; ok && x.same(y) {
			r.bv[k] = x
		}
	}
	return r
}

func (x *boolFacts) same(y *boolFacts) bool {
	if x == y {
		return true
	}
	if len(x.t) != len(y.t) || len(x.f) != len(y.f) {
		return false
	}
	str := func(ls []lin) string {
		var s []string
		for _, l := range ls {
			s = append(s, l.String())
		}
		sort.Strings(s)
		return strings.Join(s, ";")
	}
	return str(x.t) == str(y.t) && str(x.f) == str(y.f)
}

// boolAssign records what a boolean variable stands for when it is assigned from a condition.
func (bf *boundsFunc) boolAssign(s *bstate, pk string, rhs ast.Expr) {
	b := &boolFacts{}
	for i, truth := range []bool{true, false} {
		tmp := newState()
		for _, m := range litsOf(rhs, nil, truth) {
			bf.factsOfLit(tmp, m)
		}
		for _, f := range tmp.le {
			if i == 0 {
				b.t = append(b.t, f)
			} else {
				b.f = append(b.f, f)
			}
		}
	}
	if len(b.t)+len(b.f) > 0 {
		s.bv["v:"+pk] = b
	}
}

func stripPos(s string) string {
	var out strings.Builder
	for i := 0; i < len(s); i++ {
		if s[i] == '@' {
			for i+1 < len(s) && s[i+1] >= '0' && s[i+1] <= '9' {
				i++
			}
			continue
		}
		out.WriteByte(s[i])
	}
	return out.String()
}

// accessFacts adds, for every index/slice expression that node n evaluates unconditionally, the
// fact that the access was in range (the statement after it runs only if it did not panic).
func (bf *boundsFunc) accessFacts(s *bstate, n ast.Node) {
	var walk func(m ast.Node)
	walk = func(m ast.Node) {
		if m == nil {
			return
		}
		switch x := m.(type) {
		case *ast.FuncLit:
			return
		case *ast.BinaryExpr:
			if x.Op == token.LAND || x.Op == token.LOR {
				walk(x.X) // the right operand is evaluated conditionally
				return
			}
		case *ast.IndexExpr:
			if _, ok := underSliceOrString(bf.info.TypeOf(x.X)); ok {
				ln, ok1 := bf.lenOf(x.X)
				e, ok2 := bf.linOf(x.Index)
				if ok1 && ok2 {
					g := e.add(ln, -1)
					g.c++
					s.addLE(g)                   // e < len
					s.addLE(newLin().add(e, -1)) // 0 ≤ e
				}
			}
		case *ast.SliceExpr:
			if _, ok := underSliceOrString(bf.info.TypeOf(x.X)); ok && !x.Slice3 {
				if ln, ok := bf.lenOf(x.X); ok {
					_, isStr := bf.info.TypeOf(x.X).Underlying().(*types.Basic)
					if x.Low != nil {
						if lo, ok := bf.linOf(x.Low); ok {
							s.addLE(newLin().add(lo, -1))
							if x.High == nil {
								s.addLE(lo.add(ln, -1))
							}
						}
					}
					if x.High != nil && isStr {
						// for slices the upper bound may reach cap(x); for strings it is len(x)
						if hi, ok := bf.linOf(x.High); ok {
							s.addLE(hi.add(ln, -1))
						}
					}
				}
			}
		case *ast.IfStmt, *ast.ForStmt, *ast.SwitchStmt, *ast.TypeSwitchStmt, *ast.SelectStmt, *ast.BlockStmt, *ast.RangeStmt:
			return // control statements never appear as CFG nodes with bodies; be safe
		}
		ast.Inspect(m, func(c ast.Node) bool {
			if c == m || c == nil {
				return true
			}
			walk(c)
			return false
		})
	}
	walk(n)
}

// constRange recognises the head block of `for i := range N` with a constant N ≥ 1 and an integer key
// variable, and returns N, the key's term key and the entry predecessor (the block evaluating N).
func (bf *boundsFunc) constRange(b *cfg.Block) (int64, string, *cfg.Block) {
	if b.Kind != cfg.KindRangeLoop {
		return 0, "", nil
	}
	rs, ok := b.Stmt.(*ast.RangeStmt)
	if !ok || rs.Key == nil || rs.Value != nil || rs.Tok != token.DEFINE {
		return 0, "", nil
	}
	n, ok := intValue(bf.info, rs.X)
	if !ok || n < 1 || n > 16 || !isIntType(bf.info.TypeOf(rs.X)) {
		return 0, "", nil
	}
	key, ok := bf.pathKey(rs.Key)
	if !ok {
		return 0, "", nil
	}
	var entry *cfg.Block
	for _, p := range bf.cfg.Preds[b] {
		for _, nd := range p.Nodes {
			if nd == ast.Node(rs.X) {
				entry = p
			}
		}
	}
	if entry == nil {
		return 0, "", nil
	}
	return n, key, entry
}

// rangeKeyCounts reports whether the key of a range statement is an integer variable, defined by the
// statement, that increases by one per iteration (range over an integer, slice or array) and is not
// assigned in the body.
func (bf *boundsFunc) rangeKeyCounts(rs *ast.RangeStmt) bool {
	if rs.Key == nil || rs.Tok != token.DEFINE {
		return false
	}
	id, ok := rs.Key.(*ast.Ident)
	if !ok || id.Name == "_" {
		return false
	}
	obj := bf.info.Defs[id]
	if obj == nil {
		return false
	}
	xt := bf.info.TypeOf(rs.X)
	if xt == nil {
		return false
	}
	switch u := xt.Underlying().(type) {
	case *types.Slice, *types.Array:
	case *types.Pointer:
		if _, isArr := u.Elem().Underlying().(*types.Array); !isArr {
			return false
		}
	case *types.Basic:
		if u.Info()&types.IsInteger == 0 {
			return false
		}
	default:
		return false
	}
	assigned := false
	ast.Inspect(rs.Body, func(n ast.Node) bool {
		switch s := n.(type) {
		case *ast.AssignStmt:
			for _, l := range s.Lhs {
				if lid, ok := ast.Unparen(l).(*ast.Ident); ok && bf.info.Uses[lid] == obj {
					assigned = true
				}
			}
		case *ast.IncDecStmt:
			if lid, ok := ast.Unparen(s.X).(*ast.Ident); ok && bf.info.Uses[lid] == obj {
				assigned = true
			}
		case *ast.UnaryExpr:
			if s.Op == token.AND {
				if lid, ok := ast.Unparen(s.X).(*ast.Ident); ok && bf.info.Uses[lid] == obj {
					assigned = true
				}
			}
		}
		return true
	})
	return !assigned
}

// rangeEntry: on the edge from the block that evaluates the range operand into the loop head, the
// counting key is -1 (it becomes 0 on the edge into the first iteration).
func (bf *boundsFunc) rangeEntry(s *bstate, from, head *cfg.Block) {
	if head.Kind != cfg.KindRangeLoop {
		return
	}
	rs, ok := head.Stmt.(*ast.RangeStmt)
	if !ok || !bf.rangeKeyCounts(rs) {
		return
	}
	isEntry := false
	for _, nd := range from.Nodes {
		if nd == ast.Node(rs.X) {
			isEntry = true
		}
	}
	if !isEntry {
		return
	}
	kk, ok := bf.pathKey(rs.Key)
	if !ok {
		return
	}
	killPath(s, kk)
	l := newLin()
	l.t["v:"+kk] = 1
	l.c = 1
	s.addEQ(l) // key + 1 == 0
}

// disjunction handles `a || b` known true and `a && b` known false: facts common to both ways.
func (bf *boundsFunc) disjunction(s *bstate, x *ast.BinaryExpr, truth bool) {
	s1, s2 := s.clone(), s.clone()
	for _, m := range litsOf(x.X, nil, truth) {
		bf.factsOfLit(s1, m)
	}
	for _, m := range litsOf(x.X, nil, !truth) {
		bf.factsOfLit(s2, m)
	}
	for _, m := range litsOf(x.Y, nil, truth) {
		bf.factsOfLit(s2, m)
	}
	r := meet(s1, s2)
	s.le, s.ne = r.le, r.ne
}

// predicateFacts: a call to an in-package function whose body is `return <expr>`, known to have
// returned true, yields the facts of <expr> (over the parameters) instantiated at the call.
func (bf *boundsFunc) predicateFacts(s *bstate, c *ast.CallExpr, fn *types.Func) {
	fi := bf.ba.funcs[fn]
	if fi == nil {
		return
	}
	cf := &boundsFunc{ba: bf.ba, fi: fi, info: fi.Pkg.TypesInfo}
	if len(fi.Decl.Body.List) != 1 {
		// general form: facts at every site returning true
		if fi.Obj == bf.fi.Obj {
			return
		}
		for _, f := range bf.ba.trueReturnFacts(fi) {
			if inst, ok := bf.instantiate(cf, f, c); ok {
				s.addLE(inst)
			}
		}
		return
	}
	ret, ok := fi.Decl.Body.List[0].(*ast.ReturnStmt)
	if !ok || len(ret.Results) != 1 {
		return
	}
	st := newState()
	for _, m := range litsOf(ret.Results[0], nil, true) {
		cf.factsOfLit(st, m)
	}
	for _, f := range st.le {
		if !cf.rootsUnmodified(f) {
			continue
		}
		if inst, ok := bf.instantiate(cf, f, c); ok {
			s.addLE(inst)
		}
	}
}
