package main

// C06 R-9 (added after seeded change C06-4): the quote state of the lexer is zero whenever a tag is scanned.
//
// The lexer's scan keeps the quote character of the string or attribute value it is in (`quote`). At the
// start of an attribute value it is assigned only when the value begins with a quote, and its being zero
// then decides between ContextUnquotedAttr and ContextQuotedAttr — the escaper of the first replaces
// spaces, '=', '`' … the escaper of the second does not. So the state must be zero every time the clause
// of the tag context is entered: every way out of a quoted context (the closing quote of a JS / CSS / JSON
// string, `</script` or `</style` met inside a string, the end of a quoted attribute) has to clear it,
// inline or in a helper. A stale quote makes every unquoted attribute value up to the next such character
// a "quoted" one: `<input value={{ v }}>` with v = "x onfocus=alert(1) autofocus" gets new attributes.
//
// Decided by a finite-domain data flow over the CFG of scan: the abstract state is the set of pairs
// (context constant, quote is zero / non-zero); assignments of constants and of the decided locals are
// followed, conditions on the two variables filter the edges, any other assignment of the context yields
// every context. Calls made inside the context switch to functions that assign the context (a helper
// leaving the raw text) are followed through their Context parameter; the statement lexers called before
// the switch ({{ }}, {% %}, {# #}), whose context changes belong to macro declarations, are not.

import (
	"fmt"
	"go/ast"
	"go/constant"
	"go/token"
	"go/types"
	"sort"
	"strings"

	"golang.org/x/tools/go/cfg"
)

func init() {
	p := registry["C06"]
	if p == nil {
		return
	}
	run := p.run
	p.run = func(r *Run) { run(r); c06QuoteState(r) }
	p.explain += " R-9: by data flow over (context, quote state) on the CFG of the lexer's scan, the quote state that decides between the quoted and the unquoted attribute context is zero whenever the clause of the tag context is entered (every exit from a string or quoted attribute clears it)."
}

type c06QS struct {
	r       *Run
	scan    *FuncInfo
	info    *types.Info
	recv    types.Object
	ctxVar  types.Object // the context field
	q       types.Object // the quote state: local of scan or field of the receiver
	n       int          // number of context values
	consts  map[int64]string
	sw      *ast.SwitchStmt
	locals  map[types.Object][]int64 // Context-typed locals with constant definitions only
	assigns map[*types.Func]bool     // functions assigning the context field (transitively)
	fail    string
}

func (x *c06QS) isCtx(e ast.Expr) bool {
	sel, ok := ast.Unparen(e).(*ast.SelectorExpr)
	return ok && x.info.Uses[sel.Sel] == x.ctxVar
}

func (x *c06QS) isQ(e ast.Expr) bool {
	switch v := ast.Unparen(e).(type) {
	case *ast.Ident:
		return c06Obj(x.info, v) == x.q
	case *ast.SelectorExpr:
		return x.info.Uses[v.Sel] == x.q
	}
	return false
}

// ctxValues returns the context values e can have (nil = any).
func (x *c06QS) ctxValues(info *types.Info, e ast.Expr) []int64 {
	if v, ok := intValue(info, e); ok {
		return []int64{v}
	}
	if id, ok := ast.Unparen(e).(*ast.Ident); ok && info == x.info {
		if vs, ok := x.locals[c06Obj(info, id)]; ok {
			return vs
		}
	}
	return nil
}

type c06QState []bool // index ctx*2+q

func (s c06QState) clone() c06QState { return append(c06QState(nil), s...) }
func (s c06QState) union(o c06QState) bool {
	ch := false
	for i, v := range o {
		if v && !s[i] {
			s[i], ch = true, true
		}
	}
	return ch
}
func (s c06QState) setCtx(n int, vals []int64) c06QState {
	out := make(c06QState, len(s))
	for q := 0; q < 2; q++ {
		any := false
		for c := 0; c < n; c++ {
			any = any || s[c*2+q]
		}
		if !any {
			continue
		}
		if vals == nil {
			for c := 0; c < n; c++ {
				out[c*2+q] = true
			}
		} else {
			for _, v := range vals {
				if v >= 0 && int(v) < n {
					out[int(v)*2+q] = true
				}
			}
		}
	}
	return out
}
func (s c06QState) setQ(n int, qs ...int) c06QState {
	out := make(c06QState, len(s))
	for c := 0; c < n; c++ {
		if s[c*2] || s[c*2+1] {
			for _, q := range qs {
				out[c*2+q] = true
			}
		}
	}
	return out
}

// eval3 evaluates a condition for one pair in three-valued logic.
func (x *c06QS) eval3(e ast.Expr, ctx int64, q int) int {
	e = ast.Unparen(e)
	if b, ok := x.boolConst(e); ok {
		if b {
			return c06T
		}
		return c06F
	}
	switch b := e.(type) {
	case *ast.UnaryExpr:
		if b.Op == token.NOT {
			return c06Not(x.eval3(b.X, ctx, q))
		}
	case *ast.BinaryExpr:
		switch b.Op {
		case token.LAND:
			l, r := x.eval3(b.X, ctx, q), x.eval3(b.Y, ctx, q)
			if l == c06F || r == c06F {
				return c06F
			}
			if l == c06T && r == c06T {
				return c06T
			}
			return c06U
		case token.LOR:
			l, r := x.eval3(b.X, ctx, q), x.eval3(b.Y, ctx, q)
			if l == c06T || r == c06T {
				return c06T
			}
			if l == c06F && r == c06F {
				return c06F
			}
			return c06U
		case token.EQL, token.NEQ:
			v := x.cmp(b.X, b.Y, ctx, q)
			if v == c06U {
				v = x.cmp(b.Y, b.X, ctx, q)
			}
			if b.Op == token.NEQ {
				v = c06Not(v)
			}
			return v
		case token.GTR: // quote > 0
			if x.isQ(b.X) {
				if k, ok := intValue(x.info, b.Y); ok && k == 0 {
					if q == 1 {
						return c06T
					}
					return c06F
				}
			}
		}
	}
	return c06U
}

func (x *c06QS) boolConst(e ast.Expr) (bool, bool) {
	tv, ok := x.info.Types[e]
	if !ok || tv.Value == nil || tv.Value.Kind() != constant.Bool {
		return false, false
	}
	return constant.BoolVal(tv.Value), true
}

// cmp evaluates a == b where a is one of the two variables.
func (x *c06QS) cmp(a, b ast.Expr, ctx int64, q int) int {
	switch {
	case x.isCtx(a):
		if k, ok := intValue(x.info, b); ok {
			if k == ctx {
				return c06T
			}
			return c06F
		}
	case x.isQ(a):
		if k, ok := intValue(x.info, b); ok {
			if k == 0 {
				if q == 0 {
					return c06T
				}
				return c06F
			}
			if q == 0 {
				return c06F // zero is not a non-zero constant
			}
		}
	}
	return c06U
}

func (x *c06QS) filter(s c06QState, lits []Lit) c06QState {
	out := s.clone()
	for c := 0; c < x.n; c++ {
		for q := 0; q < 2; q++ {
			if !out[c*2+q] {
				continue
			}
			for _, l := range lits {
				var v int
				if l.Tag != nil {
					v = x.cmp(l.Tag, l.Expr, int64(c), q)
					if v == c06U {
						v = x.cmp(l.Expr, l.Tag, int64(c), q)
					}
				} else {
					v = x.eval3(l.Expr, int64(c), q)
				}
				if !l.Truth {
					v = c06Not(v)
				}
				if v == c06F {
					out[c*2+q] = false
					break
				}
			}
		}
	}
	return out
}

// callEffect applies the effect of a call made inside the context switch.
func (x *c06QS) callEffect(s c06QState, call *ast.CallExpr) c06QState {
	fn := callee(x.info, call)
	if fn == nil {
		return s
	}
	// quote state held in a field: helpers may clear it
	if v, ok := x.q.(*types.Var); ok && v.IsField() {
		switch x.fieldEffect(fn, map[*types.Func]bool{}) {
		case 0:
			s = s.setQ(x.n, 0)
		case 2:
			s = s.setQ(x.n, 0, 1)
		}
	}
	if !x.assigns[fn] {
		return s
	}
	fi := c06FuncInfoOf(x.r.P, fn)
	if fi == nil {
		return s.setCtx(x.n, nil)
	}
	// through the Context parameter, when every direct assignment is `ctx = <param>` or a constant and no callee assigns it
	finfo := fi.Pkg.TypesInfo
	var vals []int64
	precise := true
	for _, c := range calls(fi.Decl.Body, true) {
		if g := callee(finfo, c); g != nil && x.assigns[g] {
			precise = false
		}
	}
	ast.Inspect(fi.Decl.Body, func(n ast.Node) bool {
		as, ok := n.(*ast.AssignStmt)
		if !ok {
			return true
		}
		for i, l := range as.Lhs {
			sel, ok := ast.Unparen(l).(*ast.SelectorExpr)
			if !ok || finfo.Uses[sel.Sel] != x.ctxVar {
				continue
			}
			if len(as.Rhs) != len(as.Lhs) {
				precise = false
				continue
			}
			if k, ok := intValue(finfo, as.Rhs[i]); ok {
				vals = append(vals, k)
				continue
			}
			id, ok := ast.Unparen(as.Rhs[i]).(*ast.Ident)
			if !ok {
				precise = false
				continue
			}
			idx := -1
			sig := fn.Type().(*types.Signature)
			for j := 0; j < sig.Params().Len(); j++ {
				if sig.Params().At(j) == finfo.Uses[id] {
					idx = j
				}
			}
			if idx < 0 || idx >= len(call.Args) {
				precise = false
				continue
			}
			av := x.ctxValues(x.info, call.Args[idx])
			if av == nil {
				precise = false
				continue
			}
			vals = append(vals, av...)
		}
		return true
	})
	if !precise {
		return s.setCtx(x.n, nil)
	}
	// the callee may also leave the context as it is (conditional assignment)
	out := s.setCtx(x.n, vals)
	out.union(s)
	return out
}

// fieldEffect summarises the assignments of the quote field in fn: 0 cleared on every path (a top-level
// `q = 0`), 1 untouched, 2 anything else.
func (x *c06QS) fieldEffect(fn *types.Func, seen map[*types.Func]bool) int {
	if seen[fn] {
		return 1
	}
	seen[fn] = true
	fi := c06FuncInfoOf(x.r.P, fn)
	if fi == nil {
		return 1
	}
	finfo := fi.Pkg.TypesInfo
	res := 1
	isQ := func(e ast.Expr) bool {
		sel, ok := ast.Unparen(e).(*ast.SelectorExpr)
		return ok && finfo.Uses[sel.Sel] == x.q
	}
	for _, st := range fi.Decl.Body.List {
		if as, ok := st.(*ast.AssignStmt); ok && len(as.Lhs) == len(as.Rhs) {
			for i, l := range as.Lhs {
				if isQ(l) {
					if k, ok := intValue(finfo, as.Rhs[i]); ok && k == 0 {
						res = 0
					}
				}
			}
		}
	}
	other := false
	ast.Inspect(fi.Decl.Body, func(n ast.Node) bool {
		switch v := n.(type) {
		case *ast.AssignStmt:
			for i, l := range v.Lhs {
				if isQ(l) {
					if len(v.Lhs) != len(v.Rhs) {
						other = true
					} else if k, ok := intValue(finfo, v.Rhs[i]); !ok || k != 0 {
						other = true
					} else if res != 0 {
						other = true // conditional clear only
					}
				}
			}
		case *ast.CallExpr:
			if g := callee(finfo, v); g != nil && g.Pkg() == fn.Pkg() {
				switch x.fieldEffect(g, seen) {
				case 0:
					if res == 1 {
						other = true
					}
				case 2:
					other = true
				}
			}
		}
		return true
	})
	if other {
		return 2
	}
	return res
}

// transfer applies one CFG node.
func (x *c06QS) transfer(s c06QState, n ast.Node) c06QState {
	inSwitch := containsNode(x.sw, n)
	if inSwitch {
		for _, c := range calls(n, false) {
			s = x.callEffect(s, c)
		}
	}
	assign := func(l ast.Expr, rhs ast.Expr) {
		switch {
		case x.isCtx(l):
			if rhs == nil {
				s = s.setCtx(x.n, nil)
			} else {
				s = s.setCtx(x.n, x.ctxValues(x.info, rhs))
			}
		case x.isQ(l):
			if rhs != nil {
				if k, ok := intValue(x.info, rhs); ok {
					if k == 0 {
						s = s.setQ(x.n, 0)
					} else {
						s = s.setQ(x.n, 1)
					}
					return
				}
			}
			s = s.setQ(x.n, 0, 1)
		}
	}
	switch v := n.(type) {
	case *ast.AssignStmt:
		for i, l := range v.Lhs {
			if len(v.Lhs) == len(v.Rhs) && (v.Tok == token.ASSIGN || v.Tok == token.DEFINE) {
				assign(l, v.Rhs[i])
			} else {
				assign(l, nil)
			}
		}
	case *ast.ValueSpec:
		for i, nm := range v.Names {
			if i < len(v.Values) && len(v.Values) == len(v.Names) {
				assign(nm, v.Values[i])
			} else if len(v.Values) == 0 {
				if x.isQ(nm) {
					s = s.setQ(x.n, 0)
				}
			} else {
				assign(nm, nil)
			}
		}
	case *ast.IncDecStmt:
		assign(v.X, nil)
	case *ast.RangeStmt:
		if v.Key != nil {
			assign(v.Key, nil)
		}
		if v.Value != nil {
			assign(v.Value, nil)
		}
	}
	return s
}

func c06QuoteState(r *Run) {
	const R = "R-9"
	ctxT := r.P.Named("ast", "Context")
	if !r.Anchor(R, "ast.Context", ctxT != nil) {
		return
	}
	scan := c06LexerScan(r, R)
	if scan == nil {
		return
	}
	info := scan.Pkg.TypesInfo
	x := &c06QS{r: r, scan: scan, info: info, consts: c06ConstNames(EnumConsts(ctxT)), locals: map[types.Object][]int64{}, assigns: map[*types.Func]bool{}}
	x.n = int(c06MaxConst(EnumConsts(ctxT))) + 1
	if scan.Decl.Recv != nil && len(scan.Decl.Recv.List) == 1 && len(scan.Decl.Recv.List[0].Names) == 1 {
		x.recv = info.Defs[scan.Decl.Recv.List[0].Names[0]]
	}
	// the context switch inside the scan loop and the context field
	par := r.P.Parents(scan.File)
	for _, s := range switchesOn(info, scan.Decl.Body, ctxT) {
		inLoop := false
		for p := par[s]; p != nil; p = par[p] {
			if _, ok := p.(*ast.ForStmt); ok {
				inLoop = true
			}
		}
		if sel, ok := ast.Unparen(s.Tag).(*ast.SelectorExpr); ok && inLoop && x.sw == nil {
			x.sw = s
			x.ctxVar = info.Uses[sel.Sel]
		}
	}
	if !r.Anchor(R, "the switch of the scan loop on the lexer's context field", x.sw != nil && x.ctxVar != nil && x.n > 1 && x.n <= 64) {
		return
	}
	// decisions: `if Q == 0` / `if Q != 0` governing an assignment of the quoted or the unquoted attribute context
	attrConst := func(e ast.Expr) bool {
		k := constOf(info, e)
		return k != nil && types.Identical(k.Type(), ctxT) && (k.Name() == "ContextQuotedAttr" || k.Name() == "ContextUnquotedAttr")
	}
	var decisions []*ast.IfStmt
	ast.Inspect(scan.Decl.Body, func(n ast.Node) bool {
		is, ok := n.(*ast.IfStmt)
		if !ok {
			return true
		}
		be, ok := ast.Unparen(is.Cond).(*ast.BinaryExpr)
		if !ok || (be.Op != token.EQL && be.Op != token.NEQ && be.Op != token.GTR) {
			return true
		}
		var qe ast.Expr
		if k, ok := intValue(info, be.Y); ok && k == 0 {
			qe = be.X
		} else if k, ok := intValue(info, be.X); ok && k == 0 && be.Op != token.GTR {
			qe = be.Y
		}
		if qe == nil || !isIntType(info.TypeOf(qe)) {
			return true
		}
		governs := false
		ast.Inspect(is, func(m ast.Node) bool {
			if as, ok := m.(*ast.AssignStmt); ok {
				for _, rh := range as.Rhs {
					if attrConst(rh) {
						governs = true
					}
				}
			}
			return true
		})
		if !governs {
			return true
		}
		var obj types.Object
		switch v := ast.Unparen(qe).(type) {
		case *ast.Ident:
			obj = c06Obj(info, v)
		case *ast.SelectorExpr:
			if id, ok := ast.Unparen(v.X).(*ast.Ident); ok && info.Uses[id] == x.recv {
				obj = info.Uses[v.Sel]
			}
		}
		if obj != nil && (x.q == nil || x.q == obj) {
			x.q = obj
			decisions = append(decisions, is)
		}
		return true
	})
	if !r.Anchor(R, "the test of the quote state against zero that decides between ContextUnquotedAttr and ContextQuotedAttr", x.q != nil && len(decisions) > 0) {
		return
	}
	// clauses of the context switch holding a decision
	clauses := map[*ast.CaseClause]bool{}
	for _, d := range decisions {
		for p := par[d]; p != nil; p = par[p] {
			if cc, ok := p.(*ast.CaseClause); ok && par[par[cc]] == ast.Node(x.sw) {
				clauses[cc] = true
			}
		}
	}
	if !r.Anchor(R, "the clause of the context switch in which the attribute context is decided", len(clauses) > 0) {
		return
	}
	x.computeAssigns()
	// the quote state must not escape the analysis
	escapes := ""
	ast.Inspect(scan.Decl.Body, func(n ast.Node) bool {
		switch v := n.(type) {
		case *ast.UnaryExpr:
			if v.Op == token.AND && (x.isQ(v.X) || x.isCtx(v.X)) {
				escapes = "its address is taken"
			}
		case *ast.FuncLit:
			ast.Inspect(v.Body, func(m ast.Node) bool {
				switch a := m.(type) {
				case *ast.AssignStmt:
					for _, l := range a.Lhs {
						if x.isQ(l) || x.isCtx(l) {
							escapes = "a function literal assigns it"
						}
					}
				case *ast.CallExpr:
					if g := callee(info, a); g != nil && x.assigns[g] {
						escapes = "a function literal calls a function assigning the context"
					}
				}
				return true
			})
		}
		return true
	})
	// Context-typed locals defined by constants only
	bad := map[types.Object]bool{}
	def := func(l ast.Expr, rhs ast.Expr) {
		id, ok := ast.Unparen(l).(*ast.Ident)
		if !ok {
			return
		}
		o := c06Obj(info, id)
		if o == nil || !types.Identical(o.Type(), ctxT) {
			return
		}
		if rhs != nil {
			if k, ok := intValue(info, rhs); ok {
				x.locals[o] = append(x.locals[o], k)
				return
			}
		}
		bad[o] = true
	}
	ast.Inspect(scan.Decl.Body, func(n ast.Node) bool {
		switch v := n.(type) {
		case *ast.AssignStmt:
			for i, l := range v.Lhs {
				if len(v.Lhs) == len(v.Rhs) {
					def(l, v.Rhs[i])
				} else {
					def(l, nil)
				}
			}
		case *ast.ValueSpec:
			for i, nm := range v.Names {
				if len(v.Values) == len(v.Names) {
					def(nm, v.Values[i])
				} else {
					def(nm, nil)
				}
			}
		}
		return true
	})
	for o := range bad {
		delete(x.locals, o)
	}

	key := scan.Name() + "#quote-state:zero-in-tag"
	if escapes != "" {
		r.Ob(R, key, x.sw.Pos()).Unknown("the quote state or the context cannot be followed: %s", escapes)
		r.Require(R, 1)
		return
	}

	// data flow
	c := r.P.CFGOf(scan)
	in := map[*cfg.Block]c06QState{}
	entry := c.G.Blocks[0]
	init := make(c06QState, x.n*2)
	for k := 0; k < x.n; k++ {
		init[k*2] = true // zero at entry: a local is declared with its initial value below, a field belongs to a new lexer
	}
	in[entry] = init
	work := []*cfg.Block{entry}
	type origin struct {
		pos  token.Pos
		what string
	}
	var origins []origin
	seenOrigin := map[token.Pos]bool{}
	// for the message only: a non-zero quote outside the contexts that are delimited by a quote
	hasBad := func(s c06QState, _ []int64) bool {
		for k := 0; k < x.n; k++ {
			if nm := x.consts[int64(k)]; s[k*2+1] && !strings.HasSuffix(nm, "String") && nm != "ContextQuotedAttr" {
				return true
			}
		}
		return false
	}
	var tagVals []int64
	for cc := range clauses {
		for _, e := range cc.List {
			if v, ok := intValue(info, e); ok && int(v) < x.n {
				tagVals = append(tagVals, v)
			}
		}
	}
	for len(work) > 0 {
		b := work[len(work)-1]
		work = work[:len(work)-1]
		s := in[b].clone()
		var changer ast.Node // last node of the block changing the context while the quote state may be non-zero
		for _, n := range b.Nodes {
			before := s
			s = x.transfer(s, n)
			assignsQ := false
			if as, ok := n.(*ast.AssignStmt); ok {
				for _, l := range as.Lhs {
					assignsQ = assignsQ || x.isQ(l)
				}
			}
			if !assignsQ && hasBad(s, tagVals) && !hasBad(before, tagVals) {
				changer = n
			}
		}
		// judged at the end of the block: `ctx = …; quote = 0` in either order is one step
		if changer != nil && hasBad(s, tagVals) && !hasBad(in[b], tagVals) && !seenOrigin[changer.Pos()] {
			seenOrigin[changer.Pos()] = true
			origins = append(origins, origin{changer.Pos(), c06NodeStr(r.P, changer)})
		}
		for i, succ := range b.Succs {
			out := s
			if lits := c.edgeLits(b, i); lits != nil {
				out = x.filter(s, lits)
			}
			if in[succ] == nil {
				in[succ] = make(c06QState, x.n*2)
			}
			if in[succ].union(out) {
				work = append(work, succ)
			}
		}
	}
	var ccs []*ast.CaseClause
	for cc := range clauses {
		ccs = append(ccs, cc)
	}
	sort.Slice(ccs, func(i, j int) bool { return ccs[i].Pos() < ccs[j].Pos() })
	for _, cc := range ccs {
		var names []string
		for _, e := range cc.List {
			if k := constOf(info, e); k != nil {
				names = append(names, k.Name())
			}
		}
		o := r.Ob(R, key+":"+strings.Join(names, ","), cc.Pos())
		// first CFG node of the clause body
		var blk *cfg.Block
		idx := -1
		var best token.Pos = token.Pos(1 << 40)
		for _, b := range c.G.Blocks {
			for i, n := range b.Nodes {
				if n.Pos() > cc.Colon && n.End() <= cc.End() && n.Pos() < best {
					blk, idx, best = b, i, n.Pos()
				}
			}
		}
		if blk == nil || in[blk] == nil {
			o.Unknown("the clause of %s is not reached by the data flow", strings.Join(names, ","))
			continue
		}
		s := in[blk].clone()
		for i := 0; i < idx; i++ {
			s = x.transfer(s, blk.Nodes[i])
		}
		var stale []string
		for k := 0; k < x.n; k++ {
			if s[k*2+1] {
				stale = append(stale, x.consts[int64(k)])
			}
		}
		if len(stale) == 0 {
			o.OK("the quote state %s is zero on every path entering the clause of %s (%d decisions on it)", x.q.Name(), strings.Join(names, ","), len(decisions))
			continue
		}
		sort.Slice(origins, func(i, j int) bool { return origins[i].pos < origins[j].pos })
		var os []string
		for _, og := range origins {
			os = append(os, fmt.Sprintf("%s (%s)", og.what, r.P.Pos(og.pos)))
		}
		o.Bad("the quote state %s can be non-zero when the clause of %s is entered: the context is changed while the quote of the string or attribute that was left is kept, at %s. An unquoted attribute value met afterwards does not assign the state, so it is lexed as ContextQuotedAttr and a value shown in it keeps its spaces and '=' (new attributes)", x.q.Name(), strings.Join(names, ","), strings.Join(os, "; "))
	}
	r.Require(R, 1)
}

func c06NodeStr(p *Prog, n ast.Node) string {
	switch v := n.(type) {
	case *ast.AssignStmt:
		var l, rr []string
		for _, e := range v.Lhs {
			l = append(l, exprStr(e))
		}
		for _, e := range v.Rhs {
			rr = append(rr, exprStr(e))
		}
		return strings.Join(l, ", ") + " " + v.Tok.String() + " " + strings.Join(rr, ", ")
	case ast.Expr:
		return exprStr(v)
	case *ast.ExprStmt:
		return exprStr(v.X)
	}
	return fmt.Sprintf("%T", n)
}

// computeAssigns fills x.assigns: the functions of the lexer's package assigning the context field, directly or
// through the functions they call (fixpoint).
func (x *c06QS) computeAssigns() {
	var fis []*FuncInfo
	for _, fi := range x.r.P.Funcs("internal/compiler") {
		if fi.Obj != nil && !x.r.P.isTestFile(fi.File) {
			fis = append(fis, fi)
		}
	}
	for _, fi := range fis {
		finfo := fi.Pkg.TypesInfo
		ast.Inspect(fi.Decl.Body, func(n ast.Node) bool {
			if v, ok := n.(*ast.AssignStmt); ok {
				for _, l := range v.Lhs {
					if sel, ok := ast.Unparen(l).(*ast.SelectorExpr); ok && finfo.Uses[sel.Sel] == x.ctxVar {
						x.assigns[fi.Obj] = true
					}
				}
			}
			return true
		})
	}
	for changed := true; changed; {
		changed = false
		for _, fi := range fis {
			if x.assigns[fi.Obj] {
				continue
			}
			for _, c := range calls(fi.Decl.Body, true) {
				if g := callee(fi.Pkg.TypesInfo, c); g != nil && x.assigns[g] {
					x.assigns[fi.Obj] = true
					changed = true
					break
				}
			}
		}
	}
}
