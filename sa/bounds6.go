package main

// Engine E6, sixth part: "the result is a default constant unless F".
//
// A look-ahead helper such as
//     func (l *lexer) peek(i int) byte { if i < len(l.src) { return l.src[i] }; return 0 }
// returns a default constant on the paths where its guard fails. For an in-package function with one
// integer (byte, rune, int) result whose parameters are never assigned, the summary is: the set D of
// constants returned by constant returns, and the facts F (over parameters and receiver fields) that hold
// at every feasible return of a non-constant expression. At a call compared with a constant c ∉ D —
// `f(args) == c` on its true edge, or `case c:` of a switch on f(args) — the instantiated facts F hold.

import (
	"go/ast"
	"go/types"
	"sort"
)

type valueSummary struct {
	defaults map[int64]bool
	facts    []lin
}

func (ba *boundsAnalysis) valueReturnFacts(fi *FuncInfo) *valueSummary {
	if ba.valCache == nil {
		ba.valCache = map[*types.Func]*valueSummary{}
	}
	if s, ok := ba.valCache[fi.Obj]; ok {
		return s
	}
	ba.valCache[fi.Obj] = nil
	sig := fi.Obj.Type().(*types.Signature)
	if sig.Results().Len() != 1 || !isIntType(sig.Results().At(0).Type()) || fi.Decl.Body == nil {
		return nil
	}
	info := fi.Pkg.TypesInfo
	params := map[types.Object]bool{}
	for i := 0; i < sig.Params().Len(); i++ {
		params[sig.Params().At(i)] = true
	}
	assigned := false
	ast.Inspect(fi.Decl.Body, func(n ast.Node) bool {
		switch st := n.(type) {
		case *ast.AssignStmt:
			for _, l := range st.Lhs {
				if id, ok := ast.Unparen(l).(*ast.Ident); ok && params[info.Uses[id]] {
					assigned = true
				}
			}
		case *ast.IncDecStmt:
			if id, ok := ast.Unparen(st.X).(*ast.Ident); ok && params[info.Uses[id]] {
				assigned = true
			}
		}
		return true
	})
	if assigned {
		return nil
	}
	bf := &boundsFunc{ba: ba, fi: fi, info: info, cfg: ba.p.CFGOf(fi)}
	bf.run()
	sum := &valueSummary{defaults: map[int64]bool{}}
	var acc *bstate
	nonConst := 0
	for _, ret := range bf.cfg.Returns() {
		if len(ret.Results) != 1 {
			return nil
		}
		if v, ok := intValue(info, ret.Results[0]); ok {
			sum.defaults[v] = true
			continue
		}
		st := bf.stateAt(ret.Results[0])
		if st == nil || st.infeasible() {
			continue
		}
		nonConst++
		keep := newState()
		for _, f := range st.le {
			if bf.rootsUnmodified(f) {
				keep.le[f.key()] = f
			}
		}
		if acc == nil {
			acc = keep
		} else {
			acc = meet(acc, keep)
		}
	}
	if nonConst == 0 || acc == nil || len(sum.defaults) == 0 {
		return nil
	}
	for _, f := range acc.le {
		sum.facts = append(sum.facts, f)
	}
	sort.Slice(sum.facts, func(i, j int) bool { return sum.facts[i].String() < sum.facts[j].String() })
	ba.valCache[fi.Obj] = sum
	return sum
}

// valueCompareFacts: call == c (c a constant that is not a default of the callee) ⇒ the callee's facts.
func (bf *boundsFunc) valueCompareFacts(s *bstate, callE, constE ast.Expr) {
	c, ok := ast.Unparen(callE).(*ast.CallExpr)
	if !ok {
		return
	}
	k, ok := intValue(bf.info, constE)
	if !ok {
		return
	}
	fn := callee(bf.info, c)
	fi := bf.ba.funcs[fn]
	if fn == nil || fi == nil || fi.Obj == bf.fi.Obj {
		return
	}
	sum := bf.ba.valueReturnFacts(fi)
	if sum == nil || sum.defaults[k] {
		return
	}
	cf := &boundsFunc{ba: bf.ba, fi: fi, info: fi.Pkg.TypesInfo}
	for _, f := range sum.facts {
		if inst, ok := bf.instantiate(cf, f, c); ok {
			s.addLE(inst)
		}
	}
}
