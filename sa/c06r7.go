package main

// C06 R-7 (added after a defect reported on the unmodified tree: `"x\\"` in a script desynchronised the
// lexer and a value shown in code position was written without quotes). The lexer tracks whether it is
// inside a JavaScript, JSON or CSS string to choose the context of a show. In those languages a backslash
// escapes the byte that follows; for the tracking only two escapes matter — the closing quote (it does not
// close) and the backslash itself (the NEXT byte is then not escaped). In every clause of the lexer's
// context switch for a string context (Context constants named …String), the clause of the byte switch for
// '\\' skips one byte exactly when the following byte is the quote or a backslash:
//   * the comparison set of the following byte contains the backslash and the closing quote;
//   * the skip (an increment of the position) happens only under that test — never unconditionally, which
//     would also swallow the first brace of a `{{` placed after a backslash.

import (
	"go/ast"
	"go/token"
	"go/types"
	"strings"
)

func init() {
	p := registry["C06"]
	if p == nil {
		return
	}
	run := p.run
	p.run = func(r *Run) { run(r); c06StringEscapes(r) }
	p.explain += " R-7: in the lexer's string contexts a backslash skips the next byte exactly when that byte is the closing quote or a backslash."
}

func c06StringEscapes(r *Run) {
	const R = "R-7"
	const rel = "internal/compiler"
	ctxT := r.P.Named("ast", "Context")
	if !r.Anchor(R, "ast.Context", ctxT != nil) {
		return
	}
	var nonTest []*FuncInfo
	for _, f := range r.P.Funcs(rel) {
		if !r.P.isTestFile(f.File) {
			nonTest = append(nonTest, f)
		}
	}
	scan := c04GoroutineEntry(r, nonTest)
	if !r.Anchor(R, "the lexer goroutine entry (scan)", scan != nil) {
		return
	}
	info := scan.Pkg.TypesInfo
	n := 0
	for _, sw := range switchesOn(info, scan.Decl.Body, ctxT) {
		for _, st := range sw.Body.List {
			cc := st.(*ast.CaseClause)
			for _, e := range cc.List {
				k := constOf(info, e)
				if k == nil || !strings.HasSuffix(k.Name(), "String") {
					continue
				}
				n++
				o := r.Ob(R, scan.Name()+"#"+k.Name()+":backslash", cc.Pos())
				// the byte switch of the clause and its '\\' case
				var bs *ast.CaseClause
				ast.Inspect(cc, func(m ast.Node) bool {
					c2, ok := m.(*ast.CaseClause)
					if !ok || c2 == cc {
						return true
					}
					if bs != nil {
						return false // the outermost one: an inner `case quote, '\\':` tests the following byte
					}
					for _, v := range c2.List {
						if iv, ok := intValue(info, v); ok && iv == '\\' {
							if b, ok := info.TypeOf(v).Underlying().(*types.Basic); ok && b.Info()&types.IsInteger != 0 {
								bs = c2
							}
						}
					}
					return true
				})
				if bs == nil {
					o.Bad("the clause of %s has no case for the backslash: `\\\"` would close the string for the lexer while it does not for the browser", k.Name())
					continue
				}
				// position increments of the backslash case and the conditions they are under
				var incs []ast.Node
				for _, s := range bs.Body {
					ast.Inspect(s, func(m ast.Node) bool {
						switch x := m.(type) {
						case *ast.IncDecStmt:
							if id, ok := x.X.(*ast.Ident); ok && x.Tok == token.INC && isIntType(info.TypeOf(id)) {
								incs = append(incs, x)
							}
						case *ast.AssignStmt:
							// p += 1, p = p + 1
							if len(x.Lhs) == 1 && len(x.Rhs) == 1 {
								if id, ok := x.Lhs[0].(*ast.Ident); ok && isIntType(info.TypeOf(id)) {
									if v, ok := intValue(info, x.Rhs[0]); ok && v == 1 && x.Tok == token.ADD_ASSIGN {
										incs = append(incs, x)
									}
									if be, ok := ast.Unparen(x.Rhs[0]).(*ast.BinaryExpr); ok && x.Tok == token.ASSIGN && be.Op == token.ADD {
										if l, ok := ast.Unparen(be.X).(*ast.Ident); ok && info.Uses[l] == info.Uses[id] {
											if v, ok := intValue(info, be.Y); ok && v == 1 {
												incs = append(incs, x)
											}
										}
									}
								}
							}
						}
						return true
					})
				}
				if len(incs) == 0 {
					o.Bad("the backslash case of %s never skips the following byte: an escaped quote closes the string for the lexer", k.Name())
					continue
				}
				par := r.P.Parents(scan.File)
				// isNext: the expression denotes the byte after the current one: src[p+1], a local defined from
				// it, or a helper of the package handed p+1 (`l.byteAt(p + 1)`)
				plusOne := func(e ast.Expr) bool {
					be, ok := ast.Unparen(e).(*ast.BinaryExpr)
					if !ok || be.Op != token.ADD {
						return false
					}
					v, ok := intValue(info, be.Y)
					return ok && v == 1
				}
				var isNext func(e ast.Expr, depth int) bool
				isNext = func(e ast.Expr, depth int) bool {
					switch x := ast.Unparen(e).(type) {
					case *ast.IndexExpr:
						return plusOne(x.Index)
					case *ast.CallExpr:
						if hf := callee(info, x); hf != nil && hf.Pkg() == scan.Obj.Pkg() && len(x.Args) == 1 {
							if b, ok := info.TypeOf(x).Underlying().(*types.Basic); ok && b.Kind() == types.Uint8 {
								return plusOne(x.Args[0])
							}
						}
					case *ast.Ident:
						if v, ok := info.Uses[x].(*types.Var); ok && depth < 2 {
							rhs, clean := c11Defs(info, bs, v)
							if clean && len(rhs) == 1 {
								return isNext(rhs[0], depth+1)
							}
						}
					}
					return false
				}
				bad := ""
				for _, inc := range incs {
					// the innermost condition on the following byte that encloses the increment: an if whose
					// condition compares it, or the clause of a switch over it
					cmp := map[string]bool{}
					condText := ""
					add := func(val ast.Expr) {
						if v, ok := intValue(info, val); ok {
							cmp[string(rune(v))] = true
						} else {
							cmp["$"+exprStr(val)] = true
						}
					}
					var child ast.Node = inc
					for p := par[inc]; p != nil && p != ast.Node(bs) && len(cmp) == 0; child, p = p, par[p] {
						switch x := p.(type) {
						case *ast.IfStmt:
							if !containsNode(x.Body, child) {
								continue
							}
							ast.Inspect(x.Cond, func(m ast.Node) bool {
								be, ok := m.(*ast.BinaryExpr)
								if !ok || be.Op != token.EQL {
									return true
								}
								for _, pr := range [][2]ast.Expr{{be.X, be.Y}, {be.Y, be.X}} {
									if isNext(pr[0], 0) {
										add(pr[1])
									}
								}
								return true
							})
							condText = exprStr(x.Cond)
						case *ast.CaseClause:
							if sw, ok := par[par[p]].(*ast.SwitchStmt); ok && sw.Tag != nil && isNext(sw.Tag, 0) {
								for _, v := range x.List {
									add(v)
								}
								condText = "case " + exprStr(sw.Tag)
							}
						}
					}
					if len(cmp) == 0 {
						bad = "the following byte is skipped unconditionally (also the `{` of a `{{` placed after a backslash)"
						break
					}
					cond := ast.NewIdent(condText)
					hasBackslash := cmp["\\"]
					hasQuote := cmp["\""] || cmp["'"]
					for c := range cmp {
						if strings.HasPrefix(c, "$") {
							hasQuote = true // the variable holding the quote of the string
						}
					}
					switch {
					case !hasQuote:
						bad = "the skip is not taken for the closing quote (condition `" + exprStr(cond) + "`)"
					case !hasBackslash:
						bad = "the skip is not taken for an escaped backslash (condition `" + exprStr(cond) + "`): in \"x\\\\\" the second backslash then escapes the closing quote for the lexer, the string is still open for it after the browser closed it, and a value shown in code position is rendered for a string context, without quotes"
					case len(cmp) > 2:
						bad = "the skip is taken for other bytes too (condition `" + exprStr(cond) + "`)"
					}
				}
				if bad == "" {
					o.OK("a backslash skips the next byte exactly when it is the quote or a backslash")
				} else {
					o.Bad("%s: %s", k.Name(), bad)
				}
			}
		}
	}
	r.Require(R, 3)
}
