package main

// C06 R-7 (added after a defect reported on the unmodified tree: `"x\\"` in a script desynchronised the
// lexer and a value shown in code position was written without quotes). The lexer tracks whether it is
// inside a JavaScript, JSON or CSS string to choose the context of a show. In those languages a backslash
// escapes the byte that follows; for the tracking only two escapes matter — the closing quote (it does not
// close) and the backslash itself (the NEXT byte is then not escaped). In every clause of the lexer's
// context switch for a string context (Context constants named …String), the clause of the byte switch for
// '\\' skips one byte exactly when the following byte is the quote or a backslash:
//   * the comparison set of the following byte contains the backslash and the closing quote;
//   * the skip (an increment of the position) happens only under that test — never unconditionally, which
//     would also swallow the first brace of a `{{` placed after a backslash.

import (
	"go/ast"
	"go/token"
	"go/types"
	"strings"
)

func init() {
	p := registry["C06"]
	if p == nil {
		return
	}
	run := p.run
	p.run = func(r *Run) { run(r); c06StringEscapes(r) }
	p.explain += " R-7: in the lexer's string contexts a backslash skips the next byte exactly when that byte is the closing quote or a backslash."
}

func c06StringEscapes(r *Run) {
	const R = "R-7"
	const rel = "internal/compiler"
	ctxT := r.P.Named("ast", "Context")
	if !r.Anchor(R, "ast.Context", ctxT != nil) {
		return
	}
	var nonTest []*FuncInfo
	for _, f := range r.P.Funcs(rel) {
		if !r.P.isTestFile(f.File) {
			nonTest = append(nonTest, f)
		}
	}
	scan := c04GoroutineEntry(r, nonTest)
	if !r.Anchor(R, "the lexer goroutine entry (scan)", scan != nil) {
		return
	}
	info := scan.Pkg.TypesInfo
	n := 0
	for _, sw := range switchesOn(info, scan.Decl.Body, ctxT) {
		for _, st := range sw.Body.List {
			cc := st.(*ast.CaseClause)
			for _, e := range cc.List {
				k := constOf(info, e)
				if k == nil || !strings.HasSuffix(k.Name(), "String") {
					continue
				}
				n++
				o := r.Ob(R, scan.Name()+"#"+k.Name()+":backslash", cc.Pos())
				// the byte switch of the clause and its '\\' case
				var bs *ast.CaseClause
				ast.Inspect(cc, func(m ast.Node) bool {
					c2, ok := m.(*ast.CaseClause)
					if !ok || c2 == cc {
						return true
					}
					for _, v := range c2.List {
						if iv, ok := intValue(info, v); ok && iv == '\\' {
							if b, ok := info.TypeOf(v).Underlying().(*types.Basic); ok && b.Info()&types.IsInteger != 0 {
								bs = c2
							}
						}
					}
					return true
				})
				if bs == nil {
					o.Bad("the clause of %s has no case for the backslash: `\\\"` would close the string for the lexer while it does not for the browser", k.Name())
					continue
				}
				// position increments of the backslash case and the conditions they are under
				var incs []ast.Node
				for _, s := range bs.Body {
					ast.Inspect(s, func(m ast.Node) bool {
						if ids, ok := m.(*ast.IncDecStmt); ok && ids.Tok == token.INC {
							if id, ok := ids.X.(*ast.Ident); ok && isIntType(info.TypeOf(id)) {
								incs = append(incs, ids)
							}
						}
						return true
					})
				}
				if len(incs) == 0 {
					o.Bad("the backslash case of %s never skips the following byte: an escaped quote closes the string for the lexer", k.Name())
					continue
				}
				par := r.P.Parents(scan.File)
				bad := ""
				for _, inc := range incs {
					// the innermost if of the case body enclosing the increment
					var cond ast.Expr
					for p := par[inc]; p != nil && p != ast.Node(bs); p = par[p] {
						if is, ok := p.(*ast.IfStmt); ok && containsNode(is.Body, inc) {
							cond = is.Cond
							break
						}
					}
					if cond == nil {
						bad = "the following byte is skipped unconditionally (also the `{` of a `{{` placed after a backslash)"
						break
					}
					// values the following byte (an index expression with `+ 1`) is compared with, by ==, in the condition
					cmp := map[string]bool{}
					ast.Inspect(cond, func(m ast.Node) bool {
						be, ok := m.(*ast.BinaryExpr)
						if !ok || be.Op != token.EQL {
							return true
						}
						for _, pr := range [][2]ast.Expr{{be.X, be.Y}, {be.Y, be.X}} {
							if ix, ok := ast.Unparen(pr[0]).(*ast.IndexExpr); ok && strings.Contains(exprStr(ix.Index), "+ 1") {
								if v, ok := intValue(info, pr[1]); ok {
									cmp[string(rune(v))] = true
								} else {
									cmp["$"+exprStr(pr[1])] = true
								}
							}
						}
						return true
					})
					hasBackslash := cmp["\\"]
					hasQuote := cmp["\""] || cmp["'"]
					for c := range cmp {
						if strings.HasPrefix(c, "$") {
							hasQuote = true // the variable holding the quote of the string
						}
					}
					switch {
					case !hasQuote:
						bad = "the skip is not taken for the closing quote (condition `" + exprStr(cond) + "`)"
					case !hasBackslash:
						bad = "the skip is not taken for an escaped backslash (condition `" + exprStr(cond) + "`): in \"x\\\\\" the second backslash then escapes the closing quote for the lexer, the string is still open for it after the browser closed it, and a value shown in code position is rendered for a string context, without quotes"
					case len(cmp) > 2:
						bad = "the skip is taken for other bytes too (condition `" + exprStr(cond) + "`)"
					}
				}
				if bad == "" {
					o.OK("a backslash skips the next byte exactly when it is the quote or a backslash")
				} else {
					o.Bad("%s: %s", k.Name(), bad)
				}
			}
		}
	}
	r.Require(R, 3)
}
