package main

// Purity of the exported helpers (C24 R-5 for scriggo.HTMLEscape, C25 R-8 for package builtin; added after
// seeded changes C24-8, C24-9 and C25-5): the result of an escaper or of a builtin "for every input" is a
// function of its arguments. A cache, a memo or a scratch buffer kept in a package-level variable makes
// the result depend on earlier calls (a hash collision returns another string's escape, an invalid
// expression is remembered as a nil Regexp) and on concurrent calls (two template runs interleave in the
// shared buffer). In the functions statically reachable inside the package from the checked entry points:
//   * no package-level variable is written (assignment, op-assignment, ++/--, element or field store,
//     address taken), whatever its type;
//   * no package-level variable of a synchronisation or cache type (sync.Map, sync.Pool, sync.Mutex,
//     atomic.*) is used at all.
// Read-only tables are fine. The expected count of violations is zero, so what was scanned is recorded.

import (
	"go/ast"
	"go/token"
	"go/types"
	"strings"
)

func init() {
	if p := registry["C24"]; p != nil {
		run := p.run
		p.run = func(r *Run) {
			run(r)
			purityRule(r, "R-5", "", func(fi *FuncInfo) bool { return fi.Decl.Name.Name == "HTMLEscape" && fi.Decl.Recv == nil })
		}
		p.explain += " R-5: HTMLEscape and what it calls in its package write no package-level variable and use no package-level cache or lock: the result depends on the argument only."
	}
}

func purityRule(r *Run, R, rel string, isEntry func(*FuncInfo) bool) {
	byObj := map[*types.Func]*FuncInfo{}
	var entries []*FuncInfo
	for _, fi := range r.P.Funcs(rel) {
		if r.P.isTestFile(fi.File) || fi.Obj == nil {
			continue
		}
		byObj[fi.Obj] = fi
		if isEntry(fi) {
			entries = append(entries, fi)
		}
	}
	if !r.Anchor(R, "entry points of the purity rule in package "+rel, len(entries) > 0) {
		return
	}
	// reachable inside the package
	reach := map[*types.Func]bool{}
	var visit func(fi *FuncInfo)
	visit = func(fi *FuncInfo) {
		if reach[fi.Obj] {
			return
		}
		reach[fi.Obj] = true
		for _, c := range calls(fi.Decl.Body, true) {
			if g := callee(fi.Pkg.TypesInfo, c); g != nil {
				if gi := byObj[g]; gi != nil {
					visit(gi)
				}
			}
		}
	}
	for _, e := range entries {
		visit(e)
	}
	nbad := 0
	for f := range reach {
		fi := byObj[f]
		info := fi.Pkg.TypesInfo
		pkgVar := func(e ast.Expr) *types.Var {
			for {
				switch x := ast.Unparen(e).(type) {
				case *ast.IndexExpr:
					e = x.X
					continue
				case *ast.SelectorExpr:
					if _, isField := info.Selections[x]; isField {
						e = x.X
						continue
					}
					if v, ok := info.Uses[x.Sel].(*types.Var); ok && v.Pkg() != nil && v.Parent() == v.Pkg().Scope() && v.Pkg() == fi.Pkg.Types {
						return v
					}
					return nil
				case *ast.StarExpr:
					e = x.X
					continue
				case *ast.Ident:
					if v, ok := info.Uses[x].(*types.Var); ok && v.Pkg() != nil && v.Parent() == v.Pkg().Scope() && v.Pkg() == fi.Pkg.Types {
						return v
					}
					return nil
				}
				return nil
			}
		}
		report := func(pos token.Pos, v *types.Var, how string) {
			nbad++
			r.Ob(R, fi.Name()+"#"+how+":"+v.Name(), pos).Bad("%s %s the package-level variable %s: the result of the exported function then depends on earlier or concurrent calls, not on its arguments only", fi.Name(), how, v.Name())
		}
		ast.Inspect(fi.Decl.Body, func(m ast.Node) bool {
			switch x := m.(type) {
			case *ast.AssignStmt:
				if x.Tok == token.DEFINE {
					return true
				}
				for _, l := range x.Lhs {
					if v := pkgVar(l); v != nil {
						report(x.Pos(), v, "writes")
					}
				}
			case *ast.IncDecStmt:
				if v := pkgVar(x.X); v != nil {
					report(x.Pos(), v, "writes")
				}
			case *ast.UnaryExpr:
				if x.Op == token.AND {
					if v := pkgVar(x.X); v != nil {
						report(x.Pos(), v, "takes the address of")
					}
				}
			case *ast.Ident:
				if v, ok := info.Uses[x].(*types.Var); ok && v.Pkg() == fi.Pkg.Types && v.Parent() == v.Pkg().Scope() {
					ts := typeStr(v.Type())
					if strings.HasPrefix(ts, "sync.") || strings.HasPrefix(ts, "*sync.") || strings.HasPrefix(ts, "sync/atomic.") || strings.HasPrefix(ts, "atomic.") {
						report(x.Pos(), v, "uses")
					}
				}
			}
			return true
		})
	}
	r.Ob(R, "purity:"+rel+"#scanned", 0).OK("%d entry points, %d functions reachable inside the package scanned, %d violations", len(entries), len(reach), nbad)
	r.Require(R, 1)
}
