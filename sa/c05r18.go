package main

// C05 R-18 (added after a defect reported on the unmodified tree): the interpreted code's own panic is
// never turned into a fatal error. A *PanicError is what Run returns for an unrecovered panic of the
// interpreted code; a *fatalError is re-panicked by Run into the host. In package runtime no fatalError is
// built on the success edge of a type assertion of the value to *PanicError. (Found: the adaptor that lets
// native code — and any func-typed variable captured by a closure — call a Scriggo function converts the
// PanicError of the nested run into a fatalError: `f := func() { panic("x") }; g := func() { f() }; g()`
// makes Run panic in the host, and no recover in the caller can stop it.)

import (
	"go/ast"
	"go/types"
	"strings"
)

func init() {
	p := registry["C05"]
	if p == nil {
		return
	}
	run := p.run
	p.run = func(r *Run) { run(r); c05PanicToFatal(r) }
	p.explain += " R-18: no fatalError is created from a *PanicError (a panic of the interpreted code must stay recoverable and be returned, not re-panicked into the host)."
}

func c05PanicToFatal(r *Run) {
	const R = "R-18"
	const rel = "internal/runtime"
	fatalT := r.P.Named(rel, "fatalError")
	panicT := r.P.Named(rel, "PanicError")
	if !r.Anchor(R, "runtime.fatalError and runtime.PanicError", fatalT != nil && panicT != nil) {
		return
	}
	n := 0
	for _, fi := range r.P.Funcs(rel) {
		if r.P.isTestFile(fi.File) {
			continue
		}
		info := fi.Pkg.TypesInfo
		par := r.P.Parents(fi.File)
		k := 0
		ast.Inspect(fi.Decl.Body, func(m ast.Node) bool {
			cl, ok := m.(*ast.CompositeLit)
			if !ok || !types.Identical(info.TypeOf(cl), fatalT) {
				return true
			}
			n++
			k++
			key := fi.Name() + "#fatalError{}"
			if k > 1 {
				key += "~" + itoa(k)
			}
			o := r.Ob(R, key, cl.Pos())
			from := ""
			for p := par[ast.Node(cl)]; p != nil; p = par[p] {
				is, ok := p.(*ast.IfStmt)
				if !ok || !containsNode(is.Body, cl) {
					if cc, ok := p.(*ast.CaseClause); ok {
						// case *PanicError: of a type switch
						for _, e := range cc.List {
							if t := info.TypeOf(e); t != nil && strings.HasSuffix(typeStr(t), "PanicError") {
								if _, isTS := par[par[cc]].(*ast.TypeSwitchStmt); isTS {
									from = "the clause `case " + exprStr(e) + "` of a type switch"
								}
							}
						}
					}
					continue
				}
				// if p, ok := X.(*PanicError); ok { … }
				if as, ok := is.Init.(*ast.AssignStmt); ok && len(as.Rhs) == 1 {
					if ta, ok := ast.Unparen(as.Rhs[0]).(*ast.TypeAssertExpr); ok && ta.Type != nil {
						if t := info.TypeOf(ta.Type); t != nil {
							if pt, ok := t.(*types.Pointer); ok && types.Identical(pt.Elem(), panicT) {
								from = "the success branch of `" + exprStr(as.Rhs[0]) + "`"
							}
						}
					}
				}
			}
			if from == "" {
				o.OK("not derived from a *PanicError")
			} else {
				o.Bad("a fatalError is built in %s: an unrecovered panic of the interpreted code (of a Scriggo function called back by native code, or through a func-typed variable captured by a closure) is re-panicked by Run into the host instead of being returned as a *PanicError, and cannot be recovered by the calling code", from)
			}
			return true
		})
	}
	r.Require(R, 2)
}
