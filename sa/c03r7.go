package main

// C03 R-7: the terminating-statement analysis follows the definition of the Go specification, statement
// kind by statement kind.
//
// "Build never accepts a program that the Go type checker rejects": a function with result parameters
// whose body does not end in a terminating statement is rejected by go/types ("missing return"). The
// checker decides it with ONE boolean of the typechecker (the flag read where "missing return" is
// raised), which the statement dispatcher must leave, after each statement, equal to "this statement is
// terminating" (Go specification, "Terminating statements"). Almost every call of the checker can change
// the flag behind the dispatcher's back (an expression may contain a function literal, whose body is a
// statement list), therefore:
//
//	(a) DEFINITE WRITE. On every path on which the clause of a statement kind completes the statement
//	    (leaves the type switch, or continues the loop after advancing the index), the last thing that
//	    can touch the flag is an assignment to the flag, or the check of the statement list the statement
//	    is defined by (block, labeled statement). A clause that leaves the flag of the PREVIOUS statement
//	    (or of the last nested function body) accepts `return 1; ch <- v`, `for range x { return 1 }`, ...
//	(b) VALUE. The value written is the one of the specification:
//	      return, goto, fallthrough                       true
//	      call                                            true exactly for the builtin panic
//	      block, statements                               the flag of its statement list
//	      labeled statement                               the flag of the labeled statement (false if none)
//	      if                                              implies: else present, then-list and else-list terminating
//	      for                                             implies: no condition, no break referring to it
//	      for range                                       false
//	      expression switch, type switch                  implies: no break, a default clause, every clause terminating
//	      select                                          implies: no break, every clause terminating
//	      every other statement                           false
//	    "implies" is decided symbolically: the assigned expression is flattened over &&, local boolean
//	    accumulators are replaced by what their being true implies (initial value, every `v = v && e`,
//	    the negation of the guard of every `v = false`), reads of the flag are resolved to the list check
//	    that wrote it last.
//
// Paths that are taken only outside program mode (templates) are not examined: C03 is about Build.

import (
	"fmt"
	"go/ast"
	"go/token"
	"go/types"
	"sort"
	"strings"

	"golang.org/x/tools/go/cfg"
)

func init() {
	p := registry["C03"]
	if p == nil {
		return
	}
	run := p.run
	p.run = func(r *Run) { run(r); c03Terminating(r) }
	p.explain += " R-7: in the statement dispatcher, on every path that completes a statement the flag read by the missing-return check is written last by an assignment or by the check of the statement list defining the statement, and the value written is the one the Go specification gives to that statement kind (constants for simple statements, panic for calls, and for if/for/switch/select an expression that implies else present / no condition / no break / a default clause / every clause terminating)."
}

// statement kinds of the scriggo ast -> what the specification says
var c03TermCategory = map[string]string{
	"Assignment": "false", "Var": "false", "Const": "false", "TypeDeclaration": "false", "Show": "false",
	"Defer": "false", "Go": "false", "Send": "false", "UnaryOperator": "false", "Break": "false",
	"Continue": "false", "ForRange": "false", "ForIn": "false", "Expression": "false",
	"Return": "true", "Goto": "true", "Fallthrough": "true",
	"Call":  "call",
	"Block": "list", "Statements": "list", "URL": "list",
	"Label": "list-or-false", "Using": "list-or-false",
	"If": "if", "For": "for", "Switch": "switch", "TypeSwitch": "switch", "Select": "select",
	// not Go statements: the flag of the previous statement stays
	"Comment": "transparent", "Text": "transparent", "Raw": "transparent",
	// never inside a function body
	"Import": "outside",
}

const (
	c03EvStale = iota
	c03EvClobber
	c03EvWrite
	c03EvList
)

type c03TEvent struct {
	kind int
	node ast.Node
	call *ast.CallExpr
}

type c03Term struct {
	r        *Run
	fi       *FuncInfo
	info     *types.Info
	cg       *CFGInfo
	par      map[ast.Node]ast.Node
	flag     *types.Var
	hasBreak *types.Var
	mayWrite map[*types.Func]bool
	listers  map[*types.Func]bool
	idx      types.Object // the index variable of the dispatcher's loop
	loop     *ast.ForStmt
	sw       *ast.TypeSwitchStmt
	progMod  int64
	modType  types.Type
	events   []*c03TEvent
	evOf     map[ast.Node]int // CFG node -> event id (0 = none)
}

func (t *c03Term) isFlag(e ast.Expr) bool {
	sel, ok := ast.Unparen(e).(*ast.SelectorExpr)
	return ok && t.info.Uses[sel.Sel] == t.flag
}

func (t *c03Term) readsFlag(n ast.Node) []ast.Expr {
	var out []ast.Expr
	var lhs ast.Expr
	if as, ok := n.(*ast.AssignStmt); ok && len(as.Lhs) == 1 && t.isFlag(as.Lhs[0]) {
		lhs = as.Lhs[0]
	}
	ast.Inspect(n, func(m ast.Node) bool {
		if _, ok := m.(*ast.FuncLit); ok {
			return false
		}
		if e, ok := m.(ast.Expr); ok && e != lhs && t.isFlag(e) {
			out = append(out, e)
			return false
		}
		return true
	})
	return out
}

// eventOf classifies one CFG node.
func (t *c03Term) eventOf(n ast.Node) (ev int, modI bool) {
	switch s := n.(type) {
	case *ast.AssignStmt:
		for _, l := range s.Lhs {
			if id, ok := ast.Unparen(l).(*ast.Ident); ok && t.idx != nil && (t.info.Uses[id] == t.idx || t.info.Defs[id] == t.idx) {
				modI = true
			}
		}
		if len(s.Lhs) == 1 && t.isFlag(s.Lhs[0]) {
			return t.newEvent(&c03TEvent{kind: c03EvWrite, node: n}), modI
		}
	case *ast.IncDecStmt:
		if id, ok := ast.Unparen(s.X).(*ast.Ident); ok && t.idx != nil && t.info.Uses[id] == t.idx {
			modI = true
		}
	}
	var mw []*ast.CallExpr
	ast.Inspect(n, func(m ast.Node) bool {
		if _, ok := m.(*ast.FuncLit); ok {
			return false
		}
		if c, ok := m.(*ast.CallExpr); ok {
			if fn := callee(t.info, c); fn != nil && t.mayWrite[fn] {
				mw = append(mw, c)
			}
		}
		return true
	})
	switch {
	case len(mw) == 0:
		return 0, modI
	case len(mw) == 1 && t.listers[callee(t.info, mw[0])]:
		return t.newEvent(&c03TEvent{kind: c03EvList, node: n, call: mw[0]}), modI
	}
	return t.newEvent(&c03TEvent{kind: c03EvClobber, node: n, call: mw[len(mw)-1]}), modI
}

func (t *c03Term) newEvent(e *c03TEvent) int {
	if id, ok := t.evOf[e.node]; ok {
		return id
	}
	t.events = append(t.events, e)
	t.evOf[e.node] = len(t.events) - 1
	return len(t.events) - 1
}

// infeasible in program mode: the edge requires mod != programMod
func (t *c03Term) nonProgramEdge(b *cfg.Block, i int) bool {
	if t.modType == nil {
		return false
	}
	for _, l := range t.cg.edgeLits(b, i) {
		if l.Tag != nil {
			continue
		}
		isVar := func(e ast.Expr) bool {
			tv, ok := t.info.Types[e]
			return ok && tv.Value == nil && tv.Type != nil && types.Identical(tv.Type, t.modType)
		}
		if !mentions(l.Expr, isVar) {
			continue
		}
		if res, ok := evalPred(t.info, l.Expr, isVar, t.progMod); ok && res != l.Truth {
			return true
		}
	}
	return false
}

type c03TState map[int]bool // event id * 2 + (index modified ? 1 : 0)

type c03TFlow struct {
	normal   c03TState              // states at the completing exits
	before   map[ast.Node]c03TState // state before each node reading the flag
	anyExit  bool
	unreadat []string
}

// flow runs the last-event analysis from the entry block of a clause.
func (t *c03Term) flow(entry *cfg.Block, start int) *c03TFlow {
	out := &c03TFlow{normal: c03TState{}, before: map[ast.Node]c03TState{}}
	in := map[*cfg.Block]c03TState{}
	type item struct {
		b     *cfg.Block
		start int
	}
	work := []item{{entry, start}}
	in[entry] = c03TState{c03EvStale * 2: true}
	isExit := func(b *cfg.Block) (exit, cont bool) {
		if b.Stmt == ast.Stmt(t.sw) && b.Kind == cfg.KindSwitchDone {
			return true, false
		}
		if t.loop != nil && b.Stmt == ast.Stmt(t.loop) {
			return true, b.Kind != cfg.KindForDone
		}
		return false, false
	}
	for len(work) > 0 {
		it := work[len(work)-1]
		work = work[:len(work)-1]
		st := c03TState{}
		for k := range in[it.b] {
			st[k] = true
		}
		for i := it.start; i < len(it.b.Nodes); i++ {
			n := it.b.Nodes[i]
			if len(t.readsFlag(n)) > 0 {
				bs := out.before[n]
				if bs == nil {
					bs = c03TState{}
					out.before[n] = bs
				}
				for k := range st {
					bs[k] = true
				}
			}
			ev, modI := t.eventOf(n)
			if ev != 0 || modI {
				ns := c03TState{}
				for k := range st {
					e, m := k/2, k%2 == 1
					if ev != 0 {
						e = ev
					}
					if modI {
						m = true
					}
					x := e * 2
					if m {
						x++
					}
					ns[x] = true
				}
				st = ns
			}
		}
		for i, s := range it.b.Succs {
			if t.nonProgramEdge(it.b, i) {
				continue
			}
			if exit, cont := isExit(s); exit {
				out.anyExit = true
				for k := range st {
					if cont && k%2 == 0 {
						continue // the same node is dispatched again: the statement is not completed on this path
					}
					out.normal[k-k%2] = true
				}
				continue
			}
			old := in[s]
			grew := old == nil
			if old == nil {
				old = c03TState{}
				in[s] = old
			}
			for k := range st {
				if !old[k] {
					old[k] = true
					grew = true
				}
			}
			if grew {
				work = append(work, item{s, 0})
			}
		}
	}
	return out
}

// ---------------------------------------------------------------------------
// facts implied by a boolean expression being true

type c03ListTerm struct {
	calls []*ast.CallExpr
	at    ast.Node // the node reading the flag
}

type c03Facts struct {
	noBreak    bool
	nonNil     map[string]bool // field of the statement node known to be non-nil
	isNil      map[string]bool
	hasDefault bool
	lists      []c03ListTerm
	unread     []string // shapes the rule could not read
	why        []string // facts that were read and found wanting
}

func c03NewFacts() *c03Facts { return &c03Facts{nonNil: map[string]bool{}, isNil: map[string]bool{}} }

type c03FactCtx struct {
	t      *c03Term
	clause *ast.CaseClause
	node   types.Object // the statement node variable of the clause
	fl     *c03TFlow
	seen   map[types.Object]bool
}

func (c *c03FactCtx) nodeField(e ast.Expr) (string, bool) {
	sel, ok := ast.Unparen(e).(*ast.SelectorExpr)
	if !ok {
		return "", false
	}
	id, ok := ast.Unparen(sel.X).(*ast.Ident)
	if !ok || c.t.info.Uses[id] != c.node || c.node == nil {
		return "", false
	}
	return sel.Sel.Name, true
}

func (c *c03FactCtx) isNilConst(e ast.Expr) bool {
	tv, ok := c.t.info.Types[ast.Unparen(e)]
	return ok && tv.IsNil()
}

func (c *c03FactCtx) truth(e ast.Expr, want bool, f *c03Facts) {
	e = ast.Unparen(e)
	t := c.t
	switch x := e.(type) {
	case *ast.UnaryExpr:
		if x.Op == token.NOT {
			c.truth(x.X, !want, f)
			return
		}
	case *ast.BinaryExpr:
		switch {
		case x.Op == token.LAND && want, x.Op == token.LOR && !want:
			c.truth(x.X, want, f)
			c.truth(x.Y, want, f)
			return
		case x.Op == token.EQL || x.Op == token.NEQ:
			var other ast.Expr
			if c.isNilConst(x.Y) {
				other = x.X
			} else if c.isNilConst(x.X) {
				other = x.Y
			}
			if other == nil {
				return
			}
			nonNil := (x.Op == token.NEQ) == want
			if fld, ok := c.nodeField(other); ok {
				if nonNil {
					f.nonNil[fld] = true
				} else {
					f.isNil[fld] = true
				}
				return
			}
			if id, ok := ast.Unparen(other).(*ast.Ident); ok && nonNil {
				if v, ok := t.info.Uses[id].(*types.Var); ok && c.defaultEvidence(v, f) {
					f.hasDefault = true
				}
			}
			return
		}
	case *ast.IndexExpr:
		// hasBreak[node]
		if sel, ok := ast.Unparen(x.X).(*ast.SelectorExpr); ok && t.hasBreak != nil && t.info.Uses[sel.Sel] == t.hasBreak {
			if id, ok := ast.Unparen(x.Index).(*ast.Ident); ok && t.info.Uses[id] == c.node && !want {
				f.noBreak = true
			}
			return
		}
	case *ast.SelectorExpr:
		if t.isFlag(x) && want {
			c.flagRead(x, f)
			return
		}
	case *ast.Ident:
		if v, ok := t.info.Uses[x].(*types.Var); ok && !v.IsField() && v.Pkg() == t.fi.Pkg.Types && v.Parent() != v.Pkg().Scope() {
			if b, ok := v.Type().Underlying().(*types.Basic); ok && b.Kind() == types.Bool {
				if want {
					c.varTrue(v, f)
				} else {
					c.varFalse(v, f)
				}
			}
		}
	}
}

// flagRead: the flag read inside node n holds the flag of a statement list when the last events before
// n are all list checks.
func (c *c03FactCtx) flagRead(read ast.Expr, f *c03Facts) {
	// the CFG node containing the read
	var host ast.Node
	for n := range c.fl.before {
		if containsNode(n, read) {
			host = n
		}
	}
	if host == nil {
		f.unread = append(f.unread, "a read of the flag outside the examined paths at "+c.t.r.P.Pos(read.Pos()))
		return
	}
	if ev, _ := c.t.eventOf(host); ev != 0 && c.t.events[ev].kind != c03EvWrite {
		f.unread = append(f.unread, "the flag is read in a statement that also calls the checker at "+c.t.r.P.Pos(read.Pos()))
		return
	}
	lt := c03ListTerm{at: host}
	for k := range c.fl.before[host] {
		e := c.t.events[k/2]
		if e.kind != c03EvList {
			f.why = append(f.why, fmt.Sprintf("the flag read at %s does not hold the flag of a statement list on every path (%s)", c.t.r.P.Pos(read.Pos()), c.t.describe(e)))
			return
		}
		lt.calls = append(lt.calls, e.call)
	}
	f.lists = append(f.lists, lt)
}

// assignments to a local variable inside the clause
func (c *c03FactCtx) assignsTo(v *types.Var) (out []*ast.AssignStmt, decl []*ast.ValueSpec) {
	ast.Inspect(c.clause, func(n ast.Node) bool {
		switch s := n.(type) {
		case *ast.FuncLit:
			return false
		case *ast.AssignStmt:
			for _, l := range s.Lhs {
				if id, ok := ast.Unparen(l).(*ast.Ident); ok && (c.t.info.Defs[id] == v || c.t.info.Uses[id] == v) {
					out = append(out, s)
				}
			}
		case *ast.ValueSpec:
			for _, nm := range s.Names {
				if c.t.info.Defs[nm] == v {
					decl = append(decl, s)
				}
			}
		}
		return true
	})
	return
}

// onlyIf returns the guards under which stmt executes inside the clause, or ok=false when the nesting is
// not a chain of blocks, loops and if statements. perIter reports a loop on the way.
type c03Guard struct {
	cond  ast.Expr
	truth bool
	ifs   *ast.IfStmt
}

func (c *c03FactCtx) guardsOf(stmt ast.Node) (gs []c03Guard, loops []ast.Stmt, ok bool) {
	child := stmt
	for n := c.t.par[stmt]; n != nil && n != ast.Node(c.clause); n = c.t.par[n] {
		switch p := n.(type) {
		case *ast.BlockStmt:
		case *ast.IfStmt:
			if child == ast.Node(p.Body) {
				gs = append(gs, c03Guard{p.Cond, true, p})
			} else if child == p.Else {
				gs = append(gs, c03Guard{p.Cond, false, p})
			} else {
				return nil, nil, false
			}
		case *ast.ForStmt:
			loops = append(loops, p)
		case *ast.RangeStmt:
			loops = append(loops, p)
		case *ast.CaseClause, *ast.SwitchStmt, *ast.TypeSwitchStmt:
			// inside a clause of a nested switch: conditional in a way this rule does not read
			return nil, nil, false
		default:
			return nil, nil, false
		}
		child = n
	}
	return gs, loops, true
}

// varTrue adds what "local bool v is true at the end of the clause" implies.
func (c *c03FactCtx) varTrue(v *types.Var, f *c03Facts) {
	if c.seen[v] {
		return
	}
	c.seen[v] = true
	t := c.t
	as, decls := c.assignsTo(v)
	falseGuards := map[*ast.IfStmt]bool{} // if statements whose then-branch sets v = false at top level
	type upd struct {
		s   *ast.AssignStmt
		rhs ast.Expr
	}
	var updates []upd
	var setTrue []*ast.AssignStmt
	for _, s := range as {
		if len(s.Lhs) != len(s.Rhs) {
			f.unread = append(f.unread, fmt.Sprintf("tuple assignment to %s at %s", v.Name(), t.r.P.Pos(s.Pos())))
			return
		}
		for i, l := range s.Lhs {
			id, ok := ast.Unparen(l).(*ast.Ident)
			if !ok || (t.info.Defs[id] != v && t.info.Uses[id] != v) {
				continue
			}
			rhs := s.Rhs[i]
			if tv, ok := t.info.Types[rhs]; ok && tv.Value != nil {
				if tv.Value.String() == "false" {
					gs, _, ok := c.guardsOf(s)
					if ok && len(gs) == 1 {
						// v true at the end => this statement was not executed => its only guard was false.
						// v never goes back to true, so it was true when the guard was evaluated: a
						// conjunct `v` of the guard is dropped.
						cond := gs[0].cond
						if gs[0].truth {
							var rest []ast.Expr
							for _, cj := range splitAnd(cond) {
								if id, ok := ast.Unparen(cj).(*ast.Ident); ok && t.info.Uses[id] == v {
									continue
								}
								rest = append(rest, cj)
							}
							if len(rest) == 1 {
								cond = rest[0]
							}
						}
						c.truth(cond, !gs[0].truth, f)
						if gs[0].truth {
							falseGuards[gs[0].ifs] = true
						}
					}
					continue
				}
				if s.Tok == token.DEFINE {
					continue // initial value true
				}
				setTrue = append(setTrue, s)
				continue
			}
			updates = append(updates, upd{s, rhs})
		}
	}
	for _, d := range decls {
		for i, nm := range d.Names {
			if t.info.Defs[nm] == v && i < len(d.Values) {
				c.truth(d.Values[i], true, f)
			}
		}
	}
	// shape C (evidence flag): initial value false, every other assignment is `v = true`: v true at the end
	// => one of them was executed; all of them in the iteration of a default clause => there is one
	if len(setTrue) > 0 {
		if len(updates) > 0 {
			f.unread = append(f.unread, fmt.Sprintf("%s is set back to true at %s", v.Name(), t.r.P.Pos(setTrue[0].Pos())))
			return
		}
		all := true
		for _, s := range setTrue {
			if !c.inDefaultIteration(s) {
				all = false
			}
		}
		if all {
			f.hasDefault = true
		}
		return
	}
	// shape B (late set): `v := false` (or `var v bool`), then exactly one `v = E` not mentioning v, outside
	// any loop: v true at the end => every guard of that assignment held and E was true
	{
		var setters []upd
		selfUpd, initFalse := 0, len(decls) > 0
		for _, d := range decls {
			if len(d.Values) > 0 {
				initFalse = false
			}
		}
		for _, s := range as {
			if s.Tok != token.DEFINE {
				continue
			}
			for i, l := range s.Lhs {
				if id, ok := ast.Unparen(l).(*ast.Ident); ok && t.info.Defs[id] == v && i < len(s.Rhs) {
					if tv, ok := t.info.Types[s.Rhs[i]]; ok && tv.Value != nil && tv.Value.String() == "false" {
						initFalse = true
					}
				}
			}
		}
		for _, u := range updates {
			if u.s.Tok == token.DEFINE {
				continue
			}
			self := false
			for _, cj := range splitAnd(u.rhs) {
				if id, ok := ast.Unparen(cj).(*ast.Ident); ok && t.info.Uses[id] == v {
					self = true
				}
			}
			if self {
				selfUpd++
			} else {
				setters = append(setters, u)
			}
		}
		if initFalse && selfUpd == 0 && len(setters) == 1 {
			gs, loops, ok := c.guardsOf(setters[0].s)
			if ok && len(loops) == 0 {
				for _, g := range gs {
					c.truth(g.cond, g.truth, f)
				}
				c.truth(setters[0].rhs, true, f)
				return
			}
			f.unread = append(f.unread, fmt.Sprintf("%s is set at %s under a nesting this rule does not read", v.Name(), t.r.P.Pos(setters[0].s.Pos())))
			return
		}
	}
	for _, u := range updates {
		// v = v && e   or the initial definition v := e
		mentionsV := false
		var rest []ast.Expr
		for _, cj := range splitAnd(u.rhs) {
			if id, ok := ast.Unparen(cj).(*ast.Ident); ok && t.info.Uses[id] == v {
				mentionsV = true
			} else {
				rest = append(rest, cj)
			}
		}
		if !mentionsV && u.s.Tok != token.DEFINE {
			f.unread = append(f.unread, fmt.Sprintf("%s is overwritten at %s", v.Name(), t.r.P.Pos(u.s.Pos())))
			return
		}
		// the update counts only if it is executed whenever v ends true: every guard on the way is the
		// else branch of an `if g { v = false }`
		gs, _, ok := c.guardsOf(u.s)
		if !ok {
			continue
		}
		executed := true
		for _, g := range gs {
			if g.truth || !falseGuards[g.ifs] {
				executed = false
			}
		}
		if !executed {
			continue
		}
		for _, e := range rest {
			c.truth(e, true, f)
		}
	}
}

// varFalse: "local bool v is false" for a local with a single unconditional definition `v := e`: e is false.
func (c *c03FactCtx) varFalse(v *types.Var, f *c03Facts) {
	as, decls := c.assignsTo(v)
	if len(decls) != 0 || len(as) != 1 || len(as[0].Lhs) != len(as[0].Rhs) {
		return
	}
	for i, l := range as[0].Lhs {
		if id, ok := ast.Unparen(l).(*ast.Ident); ok && c.t.info.Defs[id] == v {
			if gs, loops, ok := c.guardsOf(as[0]); ok && len(gs) == 0 && len(loops) == 0 {
				c.truth(as[0].Rhs[i], false, f)
			}
		}
	}
}

// defaultEvidence: every non-nil assignment to the local v happens in the iteration of a default clause
// (`cas.Expressions == nil`, `len(cas.Expressions) == 0`, or the `case nil` of a type switch on the
// communication of a select case).
func (c *c03FactCtx) defaultEvidence(v *types.Var, f *c03Facts) bool {
	t := c.t
	if v.IsField() || v.Parent() == nil || v.Parent() == v.Pkg().Scope() {
		return false
	}
	as, _ := c.assignsTo(v)
	n := 0
	for _, s := range as {
		for i, l := range s.Lhs {
			id, ok := ast.Unparen(l).(*ast.Ident)
			if !ok || (t.info.Defs[id] != v && t.info.Uses[id] != v) || i >= len(s.Rhs) {
				continue
			}
			if c.isNilConst(s.Rhs[i]) {
				continue
			}
			if tv, ok := t.info.Types[s.Rhs[i]]; ok && tv.Value != nil && tv.Value.String() == "false" {
				continue
			}
			n++
			if !c.inDefaultIteration(s) {
				f.why = append(f.why, fmt.Sprintf("%s is set at %s outside the test for a default clause", v.Name(), t.r.P.Pos(s.Pos())))
				return false
			}
		}
	}
	return n > 0
}

func (c *c03FactCtx) isCaseExprs(e ast.Expr) bool {
	sel, ok := ast.Unparen(e).(*ast.SelectorExpr)
	if !ok || sel.Sel.Name != "Expressions" {
		return false
	}
	tt := c.t.info.TypeOf(sel.X)
	return tt != nil && c03IsAstNamed(tt, "Case")
}

func (c *c03FactCtx) inDefaultIteration(s ast.Node) bool {
	t := c.t
	// syntactic: inside `case nil:` of a type switch on <SelectCase>.Comm
	for n := t.par[s]; n != nil && n != ast.Node(c.clause); n = t.par[n] {
		cc, ok := n.(*ast.CaseClause)
		if !ok || len(cc.List) != 1 || !c.isNilConst(cc.List[0]) {
			continue
		}
		if ts, ok := t.par[t.par[cc]].(*ast.TypeSwitchStmt); ok {
			var subj ast.Expr
			switch a := ts.Assign.(type) {
			case *ast.AssignStmt:
				if len(a.Rhs) == 1 {
					if ta, ok := ast.Unparen(a.Rhs[0]).(*ast.TypeAssertExpr); ok {
						subj = ta.X
					}
				}
			case *ast.ExprStmt:
				if ta, ok := ast.Unparen(a.X).(*ast.TypeAssertExpr); ok {
					subj = ta.X
				}
			}
			if sel, ok := ast.Unparen(subj).(*ast.SelectorExpr); ok && sel.Sel.Name == "Comm" {
				if tt := t.info.TypeOf(sel.X); tt != nil && c03IsAstNamed(tt, "SelectCase") {
					return true
				}
			}
		}
	}
	return t.cg.GuardedBy(s, func(l Lit) bool {
		if l.Tag != nil {
			return false
		}
		be, ok := ast.Unparen(l.Expr).(*ast.BinaryExpr)
		if !ok {
			return false
		}
		switch {
		case c.isCaseExprs(be.X) && c.isNilConst(be.Y), c.isCaseExprs(be.Y) && c.isNilConst(be.X):
			return (be.Op == token.EQL) == l.Truth && (be.Op == token.EQL || be.Op == token.NEQ)
		}
		// len(x.Expressions) == 0
		for _, pair := range [][2]ast.Expr{{be.X, be.Y}, {be.Y, be.X}} {
			call, ok := ast.Unparen(pair[0]).(*ast.CallExpr)
			if !ok || !isBuiltinCall(t.info, call, "len") || len(call.Args) != 1 || !c.isCaseExprs(call.Args[0]) {
				continue
			}
			if v, ok := intValue(t.info, pair[1]); ok && v == 0 && (be.Op == token.EQL || be.Op == token.NEQ) {
				return (be.Op == token.EQL) == l.Truth
			}
		}
		return false
	})
}

// ---------------------------------------------------------------------------

func (t *c03Term) describe(e *c03TEvent) string {
	switch e.kind {
	case c03EvStale:
		return "nothing writes the flag: it keeps the value left by the previous statement"
	case c03EvClobber:
		fn := callee(t.info, e.call)
		return fmt.Sprintf("the last thing that can write the flag is the call of %s at %s, which leaves whatever the last function literal checked inside it left", funcKey(fn), t.r.P.Pos(e.call.Pos()))
	case c03EvList:
		return fmt.Sprintf("the flag is the one of the statement list checked at %s", t.r.P.Pos(e.call.Pos()))
	}
	as := e.node.(*ast.AssignStmt)
	return fmt.Sprintf("the flag is assigned `%s` at %s", exprStr(as.Rhs[0]), t.r.P.Pos(as.Pos()))
}

func (t *c03Term) constWrite(e *c03TEvent) (val, ok bool) {
	if e.kind != c03EvWrite {
		return false, false
	}
	as := e.node.(*ast.AssignStmt)
	if len(as.Rhs) != 1 {
		return false, false
	}
	tv, has := t.info.Types[as.Rhs[0]]
	if !has || tv.Value == nil {
		return false, false
	}
	return tv.Value.String() == "true", true
}

func c03Terminating(r *Run) {
	const R = "R-7"
	pk := r.P.Pkg(c03Compiler)
	if !r.Anchor(R, "package "+c03Compiler, pk != nil) {
		return
	}
	info := pk.TypesInfo
	tcNamed := r.P.Named(c03Compiler, "typechecker")
	if !r.Anchor(R, "type typechecker", tcNamed != nil) {
		return
	}
	tcStruct, _ := tcNamed.Underlying().(*types.Struct)
	if !r.Anchor(R, "struct typechecker", tcStruct != nil) {
		return
	}
	isTcField := func(v *types.Var) bool {
		for i := 0; i < tcStruct.NumFields(); i++ {
			if tcStruct.Field(i) == v {
				return true
			}
		}
		return false
	}
	// the flag, by role: the bool field of typechecker whose negation guards the "missing return" error
	var flag *types.Var
	for _, fi := range r.P.Funcs(c03Compiler) {
		if r.P.isTestFile(fi.File) {
			continue
		}
		par := r.P.Parents(fi.File)
		for _, c := range calls(fi.Decl.Body, true) {
			isMissing := false
			for _, a := range c.Args {
				if s, ok := stringValue(info, a); ok && strings.Contains(s, "missing return") {
					isMissing = true
				}
			}
			if !isMissing {
				continue
			}
			for n := par[ast.Node(c)]; n != nil; n = par[n] {
				ifs, ok := n.(*ast.IfStmt)
				if !ok {
					continue
				}
				for _, l := range litsOf(ifs.Cond, nil, true) {
					if sel, ok := ast.Unparen(l.Expr).(*ast.SelectorExpr); ok && !l.Truth {
						if v, ok := info.Uses[sel.Sel].(*types.Var); ok && v.IsField() && isTcField(v) {
							flag = v
						}
					}
				}
				break
			}
		}
	}
	if flag == nil {
		for i := 0; i < tcStruct.NumFields(); i++ {
			if tcStruct.Field(i).Name() == "terminating" {
				flag = tcStruct.Field(i)
			}
		}
	}
	if !r.Anchor(R, "the bool field of typechecker whose negation guards the 'missing return' error", flag != nil) {
		return
	}
	// the break map: field of type map[ast.Node]bool
	var hasBreak *types.Var
	for i := 0; i < tcStruct.NumFields(); i++ {
		if m, ok := tcStruct.Field(i).Type().(*types.Map); ok {
			if b, ok := m.Elem().(*types.Basic); ok && b.Kind() == types.Bool && c03IsAstNamed(m.Key(), "Node") {
				hasBreak = tcStruct.Field(i)
			}
		}
	}
	r.Anchor(R, "the map[ast.Node]bool field of typechecker recording the statements referred to by a break", hasBreak != nil)

	// functions that may write the flag
	decls := map[*types.Func]*FuncInfo{}
	direct := map[*types.Func]bool{}
	callees := map[*types.Func][]*types.Func{}
	for _, fi := range r.P.Funcs(c03Compiler) {
		if fi.Obj == nil || r.P.isTestFile(fi.File) {
			continue
		}
		decls[fi.Obj] = fi
		ast.Inspect(fi.Decl.Body, func(n ast.Node) bool {
			switch s := n.(type) {
			case *ast.AssignStmt:
				for _, l := range s.Lhs {
					if sel, ok := ast.Unparen(l).(*ast.SelectorExpr); ok && info.Uses[sel.Sel] == flag {
						direct[fi.Obj] = true
					}
				}
			case *ast.CallExpr:
				if fn := callee(info, s); fn != nil {
					callees[fi.Obj] = append(callees[fi.Obj], fn)
				}
			}
			return true
		})
	}
	mayWrite := map[*types.Func]bool{}
	for fn := range direct {
		mayWrite[fn] = true
	}
	for changed := true; changed; {
		changed = false
		for fn, cs := range callees {
			if mayWrite[fn] {
				continue
			}
			for _, c := range cs {
				if mayWrite[c] {
					mayWrite[fn] = true
					changed = true
					break
				}
			}
		}
	}
	// the dispatcher: the function assigning the flag inside a type switch with a clause for *ast.Return
	var disp *FuncInfo
	var sw *ast.TypeSwitchStmt
	for fn := range direct {
		fi := decls[fn]
		ast.Inspect(fi.Decl.Body, func(n ast.Node) bool {
			ts, ok := n.(*ast.TypeSwitchStmt)
			if !ok {
				return true
			}
			hasRet, hasIf := false, false
			for _, c := range ts.Body.List {
				for _, te := range c.(*ast.CaseClause).List {
					if tt := info.TypeOf(te); tt != nil {
						hasRet = hasRet || c03IsAstNamed(tt, "Return")
						hasIf = hasIf || c03IsAstNamed(tt, "If")
					}
				}
			}
			if hasRet && hasIf && sw == nil {
				disp, sw = fi, ts
			}
			return true
		})
	}
	if !r.Anchor(R, "the statement dispatcher (type switch with clauses for *ast.Return and *ast.If in a function assigning the flag)", disp != nil) {
		return
	}
	par := r.P.Parents(disp.File)
	t := &c03Term{r: r, fi: disp, info: info, cg: r.P.CFGOf(disp), par: par, flag: flag, hasBreak: hasBreak, mayWrite: mayWrite,
		listers: map[*types.Func]bool{}, sw: sw, evOf: map[ast.Node]int{}}
	t.events = []*c03TEvent{{kind: c03EvStale}}
	for n := par[ast.Node(sw)]; n != nil; n = par[n] {
		if f, ok := n.(*ast.ForStmt); ok {
			t.loop = f
			break
		}
	}
	// the index variable: used to index the []ast.Node parameter
	var nodesParam types.Object
	for _, fl := range disp.Decl.Type.Params.List {
		for _, nm := range fl.Names {
			if sl, ok := info.Defs[nm].Type().(*types.Slice); ok && c03IsAstNamed(sl.Elem(), "Node") {
				nodesParam = info.Defs[nm]
			}
		}
	}
	ast.Inspect(disp.Decl.Body, func(n ast.Node) bool {
		if ix, ok := n.(*ast.IndexExpr); ok && t.idx == nil {
			if id, ok := ast.Unparen(ix.X).(*ast.Ident); ok && nodesParam != nil && info.Uses[id] == nodesParam {
				if j, ok := ast.Unparen(ix.Index).(*ast.Ident); ok {
					t.idx = info.Uses[j]
				}
			}
		}
		return true
	})
	r.Anchor(R, "the loop of the dispatcher and its index variable", t.loop != nil && t.idx != nil)
	// the dispatcher writes the flag before anything else: it is a list checker; so are the wrappers whose
	// only flag-writing call is a list checker
	first := disp.Decl.Body.List[0]
	as, ok := first.(*ast.AssignStmt)
	entryWrite := ok && len(as.Lhs) == 1 && t.isFlag(as.Lhs[0])
	if entryWrite {
		tv, has := info.Types[as.Rhs[0]]
		entryWrite = has && tv.Value != nil && tv.Value.String() == "false"
	}
	o := r.Ob(R, disp.Name()+"#entry", first.Pos())
	if entryWrite {
		o.OK("the dispatcher sets the flag to false before the first statement: an empty statement list is not terminating and no value of an outer list leaks in")
		t.listers[disp.Obj] = true
	} else {
		o.Bad("the dispatcher does not start by setting the flag to false: an empty list (or a list of comments) takes the flag of whatever was checked before")
	}
	for changed := true; changed; {
		changed = false
		for fn, fi := range decls {
			if t.listers[fn] || direct[fn] || !mayWrite[fn] {
				continue
			}
			nmw, nl := 0, 0
			for _, c := range calls(fi.Decl.Body, true) {
				if cf := callee(info, c); cf != nil && mayWrite[cf] {
					nmw++
					if t.listers[cf] {
						nl++
					}
				}
			}
			if nmw == 1 && nl == 1 {
				t.listers[fn] = true
				changed = true
			}
		}
	}
	// program mode
	if mt := pk.Types.Scope().Lookup("checkingMod"); mt != nil {
		if pm, ok := pk.Types.Scope().Lookup("programMod").(*types.Const); ok && types.Identical(pm.Type(), mt.Type()) {
			if v, ok := constantInt64(pm); ok {
				t.modType, t.progMod = mt.Type(), v
			}
		}
	}
	r.Anchor(R, "the constant programMod of type checkingMod", t.modType != nil)

	nClauses := 0
	for _, cst := range sw.Body.List {
		cc := cst.(*ast.CaseClause)
		var names []string
		for _, te := range cc.List {
			tt := info.TypeOf(te)
			if tt == nil {
				continue
			}
			if p, ok := tt.(*types.Pointer); ok {
				tt = p.Elem()
			}
			if n, ok := tt.(*types.Named); ok {
				names = append(names, n.Obj().Name())
			}
		}
		if cc.List == nil {
			names = []string{"default"}
		}
		sort.Strings(names)
		for _, name := range names {
			nClauses++
			t.checkClause(R, cc, name)
		}
	}
	r.Require(R, 30)
	r.Stats["R-7 functions that may write the flag"] = len(mayWrite)
}

func (t *c03Term) checkClause(R string, cc *ast.CaseClause, name string) {
	r := t.r
	key := fmt.Sprintf("%s#terminating:%s", t.fi.Name(), name)
	o := r.Ob(R, key, cc.Pos())
	cat, known := c03TermCategory[name]
	if name == "default" {
		cat, known = "false", true
	}
	if !known {
		o.Unknown("the dispatcher has a clause for *ast.%s, a statement kind this rule has no entry for: say what the specification makes of it", name)
		return
	}
	if cat == "outside" {
		o.Trivial("*ast.%s never occurs in the body of a function: the flag is of no consequence", name)
		return
	}
	if cat == "transparent" {
		if len(cc.Body) == 0 {
			o.Trivial("*ast.%s is not a Go statement: the flag of the previous statement stays", name)
			return
		}
		// a non-empty transparent clause must not touch the flag at all
	}
	// entry block
	var entry *cfg.Block
	start := 0
	for _, b := range t.cg.G.Blocks {
		if b.Kind == cfg.KindSwitchCaseBody && b.Stmt == ast.Stmt(cc) {
			entry = b
		}
	}
	if entry == nil && len(cc.Body) > 0 {
		// the default clause has no block of its own: start at its first node
		var best token.Pos = token.Pos(1 << 40)
		for _, b := range t.cg.G.Blocks {
			for i, n := range b.Nodes {
				if cc.Colon < n.Pos() && n.End() <= cc.End() && n.Pos() < best {
					best, entry, start = n.Pos(), b, i
				}
			}
		}
	}
	if entry == nil {
		if len(cc.Body) == 0 {
			if cat == "transparent" {
				o.Trivial("*ast.%s is not a Go statement: the flag of the previous statement stays", name)
			} else {
				o.Bad("the clause for *ast.%s is empty: the flag keeps the value left by the previous statement, but the specification says: %s", name, c03CatText(cat))
			}
			return
		}
		o.Unknown("the control-flow graph of the clause for *ast.%s could not be located", name)
		return
	}
	fl := t.flow(entry, start)
	if len(fl.normal) == 0 {
		o.Trivial("in program mode every path through the clause for *ast.%s raises an error or dispatches the node again: no statement is completed here", name)
		return
	}
	node, _ := t.info.Implicits[cc].(*types.Var)
	var evs []*c03TEvent
	var ids []int
	for k := range fl.normal {
		ids = append(ids, k/2)
	}
	sort.Ints(ids)
	for _, id := range ids {
		evs = append(evs, t.events[id])
	}
	var bad, unk []string
	okFacts := ""
	switch cat {
	case "transparent":
		for _, e := range evs {
			if e.kind != c03EvStale {
				bad = append(bad, t.describe(e))
			}
		}
		okFacts = "the flag is not touched"
	case "false", "true":
		want := cat == "true"
		for _, e := range evs {
			if v, ok := t.constWrite(e); !ok || v != want {
				bad = append(bad, t.describe(e))
			}
		}
		okFacts = fmt.Sprintf("on each of the %d ways the clause completes, the flag is last assigned the constant %s", len(evs), cat)
	case "call":
		nTrue := 0
		for _, e := range evs {
			v, ok := t.constWrite(e)
			if !ok {
				bad = append(bad, t.describe(e))
				continue
			}
			if v {
				nTrue++
				isPanic := t.cg.GuardedBy(e.node, func(l Lit) bool {
					s, ok := stringValue(t.info, l.Expr)
					return l.Tag != nil && l.Truth && ok && s == "panic"
				})
				isBuiltin := t.cg.GuardedBy(e.node, func(l Lit) bool {
					c, ok := ast.Unparen(l.Expr).(*ast.CallExpr)
					if !ok || l.Tag != nil || !l.Truth {
						return false
					}
					fn := callee(t.info, c)
					return fn != nil && fn.Name() == "IsBuiltinFunction"
				})
				if !isPanic || !isBuiltin {
					bad = append(bad, "the flag is set to true at "+r.P.Pos(e.node.Pos())+" for a call that is not known to be the builtin panic")
				}
			}
		}
		if nTrue == 0 {
			bad = append(bad, "no path sets the flag to true: a call of the builtin panic is a terminating statement")
		}
		okFacts = "the flag is last assigned true only under `case \"panic\"` of a builtin function, false otherwise"
	case "list", "list-or-false":
		for _, e := range evs {
			if e.kind == c03EvList {
				continue
			}
			if v, ok := t.constWrite(e); ok && !v && cat == "list-or-false" {
				continue
			}
			bad = append(bad, t.describe(e))
		}
		okFacts = "the flag is the one left by the check of the statement list that defines the statement"
	default:
		for _, e := range evs {
			if e.kind != c03EvWrite {
				bad = append(bad, t.describe(e))
				continue
			}
			if v, ok := t.constWrite(e); ok && !v {
				continue // a path that gives up with false is always sound for soundness; completeness is not decided here
			}
			f := c03NewFacts()
			ctx := &c03FactCtx{t: t, clause: cc, node: node, fl: fl, seen: map[types.Object]bool{}}
			ctx.truth(e.node.(*ast.AssignStmt).Rhs[0], true, f)
			missing := t.missing(cat, f, ctx)
			if len(missing) == 0 {
				continue
			}
			msg := fmt.Sprintf("the value `%s` assigned at %s does not imply: %s", exprStr(e.node.(*ast.AssignStmt).Rhs[0]), r.P.Pos(e.node.Pos()), strings.Join(missing, "; "))
			if len(f.why) > 0 {
				msg += " (" + c03Head(f.why, 2) + ")"
			}
			if len(f.unread) > 0 {
				unk = append(unk, msg+" (not read: "+c03Head(f.unread, 2)+")")
			} else {
				bad = append(bad, msg)
			}
		}
		okFacts = "the value assigned to the flag implies " + c03CatText(cat)
	}
	switch {
	case len(bad) > 0:
		o.Bad("after a *ast.%s statement the specification says: %s. Found: %s", name, c03CatText(cat), c03Head(bad, 3))
	case len(unk) > 0:
		o.Unknown("after a *ast.%s statement the specification says: %s. %s", name, c03CatText(cat), c03Head(unk, 2))
	default:
		o.OK("*ast.%s: %s", name, okFacts)
	}
}

func c03CatText(cat string) string {
	switch cat {
	case "false":
		return "not a terminating statement (flag false)"
	case "true":
		return "a terminating statement (flag true)"
	case "call":
		return "terminating exactly when it calls the builtin panic"
	case "list":
		return "terminating when its statement list ends in a terminating statement"
	case "list-or-false":
		return "terminating when the statement it introduces is"
	case "if":
		return "the else branch is present and both branches are terminating"
	case "for":
		return "there is no loop condition and no break referring to the statement"
	case "switch":
		return "no break refers to the statement, there is a default clause, and every clause ends in a terminating statement or fallthrough"
	case "select":
		return "no break refers to the statement and every clause ends in a terminating statement"
	}
	return "the flag of the previous statement stays"
}

func (t *c03Term) missing(cat string, f *c03Facts, c *c03FactCtx) []string {
	var out []string
	argMentions := func(call *ast.CallExpr, field string) bool {
		found := false
		for _, a := range call.Args {
			ast.Inspect(a, func(n ast.Node) bool {
				if sel, ok := n.(*ast.SelectorExpr); ok && sel.Sel.Name == field {
					found = true
				}
				return !found
			})
		}
		return found
	}
	inCasesLoop := func(n ast.Node) bool {
		for p := t.par[n]; p != nil && p != ast.Node(c.clause); p = t.par[p] {
			if rs, ok := p.(*ast.RangeStmt); ok {
				if fld, ok := c.nodeField(rs.X); ok && fld == "Cases" {
					return true
				}
			}
		}
		return false
	}
	allClauses := func() bool {
		for _, lt := range f.lists {
			if !inCasesLoop(lt.at) {
				continue
			}
			ok := len(lt.calls) > 0
			for _, call := range lt.calls {
				if !argMentions(call, "Body") {
					ok = false
				}
			}
			if ok {
				return true
			}
		}
		return false
	}
	switch cat {
	case "if":
		if !f.nonNil["Else"] {
			out = append(out, "the else branch is present")
		}
		// the then branch: a read of the flag that holds, on every path, the flag of the list of node.Then;
		// the else branch: another read of the flag that holds the flag of a list that is not node.Then on
		// some path (the else part is a block or an if: the type switch on it has no other case)
		thenOK, elseOK := false, false
		var thenAt ast.Node
		for _, lt := range f.lists {
			all := len(lt.calls) > 0
			for _, call := range lt.calls {
				if !argMentions(call, "Then") {
					all = false
				}
			}
			if all && !thenOK {
				thenOK, thenAt = true, lt.at
			}
		}
		for _, lt := range f.lists {
			if lt.at == thenAt {
				continue
			}
			for _, call := range lt.calls {
				if !argMentions(call, "Then") {
					elseOK = true
				}
			}
		}
		if !thenOK {
			out = append(out, "the then branch is terminating")
		}
		if !elseOK {
			out = append(out, "the else branch is terminating")
		}
	case "for":
		if !f.isNil["Condition"] {
			out = append(out, "there is no loop condition")
		}
		if !f.noBreak {
			out = append(out, "no break refers to the statement")
		}
	case "switch":
		if !f.noBreak {
			out = append(out, "no break refers to the statement")
		}
		if !f.hasDefault {
			out = append(out, "there is a default clause")
		}
		if !allClauses() {
			out = append(out, "every clause ends in a terminating statement")
		}
	case "select":
		if !f.noBreak {
			out = append(out, "no break refers to the statement")
		}
		if !allClauses() {
			out = append(out, "every clause ends in a terminating statement")
		}
	}
	return out
}
