package main

// C16 R-4: a function is entered together with the variable table that belongs to it.
//
// The virtual machine runs `vm.fn` against `vm.vars`: the instructions of a function address package-level
// and captured variables by index in ITS table. A package-level function (an element of a Functions table:
// a rendered file, an imported macro, a macro of an extending file) is compiled against the global table of
// the environment; a closure (a callable) against the table stored next to its function; a saved call
// frame against the table saved with it. So wherever the running function is replaced, on every path the
// table is replaced from the SAME source:
//
//	X.fn (fn and vars of one callable / frame / VM)   →  X.vars
//	T.Functions[i]                                    →  the global table of the environment
//	a parameter of a helper                           →  another parameter; then every call of the helper is
//	                                                     checked the same way (helper extraction)
//
// If the table is not replaced, a macro called from the body of a closure reads the closure's captured
// variables in place of the globals of its own file (seeded change C16-6): "an imported macro behaves as if
// declared in the importing file" fails. The rule does not look at names, order of the two assignments,
// if/switch form, or whether they sit in run() or in a helper.

import (
	"go/ast"
	"go/token"
	"go/types"

	"golang.org/x/tools/go/cfg"
	"golang.org/x/tools/go/packages"
)

func init() {
	p := registry["C16"]
	if p == nil {
		return
	}
	run := p.run
	p.run = func(r *Run) { run(r); c16CalleeVars(r, "R-4") }
	p.explain += " (R-4) wherever the virtual machine replaces its running function (call, indirect call, macro call, tail call, return, resumption of a deferred call, start of a goroutine or of a function value), every path also replaces the variable table from the same source: the table of the same callable or frame, the global table for an element of a Functions table, the paired parameter of a helper whose calls are checked in turn."
}

// ---------------------------------------------------------------------------
// shared helpers of the C16 R-4…R-6 rules

func c16ObjOf(info *types.Info, id *ast.Ident) types.Object {
	if o := info.Uses[id]; o != nil {
		return o
	}
	return info.Defs[id]
}

// c16Strip removes parentheses, dereferences and address-of.
func c16Strip(e ast.Expr) ast.Expr {
	for {
		switch x := e.(type) {
		case *ast.ParenExpr:
			e = x.X
		case *ast.StarExpr:
			e = x.X
		case *ast.UnaryExpr:
			if x.Op != token.AND {
				return e
			}
			e = x.X
		default:
			return e
		}
	}
}

// c16SameExpr: the two expressions are the same chain of field selections on the same variable.
func c16SameExpr(info *types.Info, a, b ast.Expr) bool {
	a, b = c16Strip(a), c16Strip(b)
	switch x := a.(type) {
	case *ast.Ident:
		y, ok := b.(*ast.Ident)
		return ok && c16ObjOf(info, x) != nil && c16ObjOf(info, x) == c16ObjOf(info, y)
	case *ast.SelectorExpr:
		y, ok := b.(*ast.SelectorExpr)
		return ok && info.Uses[x.Sel] != nil && info.Uses[x.Sel] == info.Uses[y.Sel] && c16SameExpr(info, x.X, y.X)
	}
	return false
}

type c16Def struct {
	Node ast.Node // the assigning statement / spec
	Rhs  ast.Expr // nil: declaration without value, or a value that is not one expression
	Zero bool
}

// c16DefsOf lists the definitions of the local variable obj inside root (function literals included).
func c16DefsOf(info *types.Info, root ast.Node, obj types.Object) []c16Def {
	var out []c16Def
	ast.Inspect(root, func(n ast.Node) bool {
		switch s := n.(type) {
		case *ast.AssignStmt:
			for i, l := range s.Lhs {
				id, ok := ast.Unparen(l).(*ast.Ident)
				if !ok || c16ObjOf(info, id) != obj {
					continue
				}
				if len(s.Lhs) == len(s.Rhs) && (s.Tok == token.ASSIGN || s.Tok == token.DEFINE) {
					out = append(out, c16Def{Node: s, Rhs: s.Rhs[i]})
				} else {
					out = append(out, c16Def{Node: s})
				}
			}
		case *ast.ValueSpec:
			for i, id := range s.Names {
				if info.Defs[id] != obj {
					continue
				}
				if len(s.Values) == len(s.Names) {
					out = append(out, c16Def{Node: s, Rhs: s.Values[i]})
				} else if len(s.Values) == 0 {
					out = append(out, c16Def{Node: s, Zero: true})
				} else {
					out = append(out, c16Def{Node: s})
				}
			}
		case *ast.RangeStmt:
			for _, l := range []ast.Expr{s.Key, s.Value} {
				if id, ok := l.(*ast.Ident); ok && c16ObjOf(info, id) == obj {
					out = append(out, c16Def{Node: s})
				}
			}
		case *ast.IncDecStmt:
			if id, ok := ast.Unparen(s.X).(*ast.Ident); ok && c16ObjOf(info, id) == obj {
				out = append(out, c16Def{Node: s})
			}
		case *ast.UnaryExpr:
			// address taken: the variable may be written elsewhere
			if s.Op == token.AND {
				if id, ok := ast.Unparen(s.X).(*ast.Ident); ok && c16ObjOf(info, id) == obj {
					if _, isStruct := obj.Type().Underlying().(*types.Struct); !isStruct {
						out = append(out, c16Def{Node: s})
					}
				}
			}
		}
		return true
	})
	return out
}

// c16Ctx is a function-like body (declaration or literal) with its declaration.
type c16Ctx struct {
	fi   *FuncInfo
	body *ast.BlockStmt
	lit  *ast.FuncLit // nil for the declaration itself
}

// c16Enclosing returns the innermost function body holding n.
func c16Enclosing(p *Prog, fi *FuncInfo, n ast.Node) c16Ctx {
	par := p.Parents(fi.File)
	for m := par[n]; m != nil; m = par[m] {
		if fl, ok := m.(*ast.FuncLit); ok {
			return c16Ctx{fi: fi, body: fl.Body, lit: fl}
		}
	}
	return c16Ctx{fi: fi, body: fi.Decl.Body}
}

// c16ParamIndex returns the index of obj among the parameters of the function type, or -1.
func c16ParamIndex(info *types.Info, ft *ast.FuncType, obj types.Object) int {
	i := 0
	if ft == nil || ft.Params == nil {
		return -1
	}
	for _, f := range ft.Params.List {
		if len(f.Names) == 0 {
			i++
			continue
		}
		for _, nm := range f.Names {
			if info.Defs[nm] == obj {
				return i
			}
			i++
		}
	}
	return -1
}

func c16IsLocalVar(o types.Object) bool {
	v, ok := o.(*types.Var)
	return ok && !v.IsField() && v.Pkg() != nil && v.Parent() != nil && v.Parent() != v.Pkg().Scope()
}

func c16IsNil(info *types.Info, e ast.Expr) bool {
	tv, ok := info.Types[ast.Unparen(e)]
	return ok && tv.IsNil()
}

// c16Region: the outermost case clause holding n below the nearest enclosing loop or function body;
// the function body when there is none. The instructions of the interpreter loop are such clauses.
func c16Region(p *Prog, ctx c16Ctx, n ast.Node) ast.Node {
	par := p.Parents(ctx.fi.File)
	var region ast.Node
	for m := par[n]; m != nil && m != ast.Node(ctx.body); m = par[m] {
		switch m.(type) {
		case *ast.CaseClause:
			region = m
		case *ast.ForStmt, *ast.RangeStmt:
			if region != nil {
				return region
			}
		}
	}
	if region != nil {
		return region
	}
	return ctx.body
}

// c16Paths answers "does every path through x execute a node of the set" inside a region of a graph.
type c16Paths struct {
	c      *CFGInfo
	region ast.Node
}

func (q *c16Paths) in(n ast.Node) bool {
	return q.region.Pos() <= n.Pos() && n.End() <= q.region.End()
}

func c16Holds(n ast.Node, set []ast.Node) bool {
	for _, s := range set {
		if s == n || (n.Pos() <= s.Pos() && s.End() <= n.End()) {
			return true
		}
	}
	return false
}

// after: every path leaving x reaches a node of set before it leaves the region or returns.
func (q *c16Paths) after(x ast.Node, set []ast.Node) bool {
	blk, idx := q.c.Locate(x)
	if blk == nil {
		return false
	}
	seen := map[*cfg.Block]bool{}
	var walk func(b *cfg.Block, start int) bool
	walk = func(b *cfg.Block, start int) bool {
		for i := start; i < len(b.Nodes); i++ {
			n := b.Nodes[i]
			if !q.in(n) {
				return false
			}
			if c16Holds(n, set) {
				return true
			}
			if _, ok := n.(*ast.ReturnStmt); ok {
				return false
			}
		}
		for _, s := range b.Succs {
			if seen[s] {
				continue
			}
			seen[s] = true
			if !walk(s, 0) {
				return false
			}
		}
		return true
	}
	return walk(blk, idx+1)
}

// before: every path from the entry of the region to x has executed a node of set.
func (q *c16Paths) before(x ast.Node, set []ast.Node) bool {
	blk, idx := q.c.Locate(x)
	if blk == nil {
		return false
	}
	seen := map[*cfg.Block]bool{}
	var walk func(b *cfg.Block, start int) bool
	walk = func(b *cfg.Block, start int) bool {
		for i := start; i >= 0; i-- {
			n := b.Nodes[i]
			if !q.in(n) {
				return false
			}
			if c16Holds(n, set) {
				return true
			}
		}
		if b == q.c.G.Blocks[0] {
			return false
		}
		live := 0
		for _, p := range q.c.Preds[b] {
			if !p.Live {
				continue
			}
			live++
			if seen[p] {
				continue
			}
			seen[p] = true
			if !walk(p, len(p.Nodes)-1) {
				return false
			}
		}
		return live > 0
	}
	return walk(blk, idx-1)
}

func (q *c16Paths) covers(x ast.Node, set []ast.Node) bool {
	if len(set) == 0 {
		return false
	}
	if c16Holds(x, set) {
		return true
	}
	return q.after(x, set) || q.before(x, set)
}

// c16CallsOf lists the calls of fn in the package, each with the declaration holding it.
type c16CallSite struct {
	fi   *FuncInfo
	call *ast.CallExpr
}

func c16CallsOf(p *Prog, rel string, fn *types.Func) []c16CallSite {
	var out []c16CallSite
	for _, fi := range p.Funcs(rel) {
		if p.isTestFile(fi.File) {
			continue
		}
		for _, ce := range calls(fi.Decl.Body, true) {
			if callee(fi.Pkg.TypesInfo, ce) == fn {
				out = append(out, c16CallSite{fi, ce})
			}
		}
	}
	return out
}

// c16RegionLabel names a region without positions: the case values of the clause, or "body".
func c16RegionLabel(region ast.Node) string {
	cc, ok := region.(*ast.CaseClause)
	if !ok {
		return "body"
	}
	if len(cc.List) == 0 {
		return "default"
	}
	s := ""
	for i, e := range cc.List {
		if i > 0 {
			s += ","
		}
		s += exprStr(e)
	}
	return s
}

// ---------------------------------------------------------------------------
// R-4

type c16VarsRule struct {
	r         *Run
	rule      string
	pk        *packages.Package
	info      *types.Info
	fnFld     *types.Var // VM.fn
	varsFld   *types.Var // VM.vars
	fnPtr     types.Type // *Function
	varsT     types.Type // []reflect.Value
	globals   map[*types.Var]bool
	helpers   map[*types.Func][2]int // helper -> (index of the function parameter, index of the table parameter)
	queue     []*types.Func
	byObj     map[*types.Func]*FuncInfo
	nSinks    int
	nHelpers  int
	nCallSink int
}

// c16Partner: for a selection X.f of a *Function field, the field of the same struct holding the table.
func (v *c16VarsRule) partner(sel *ast.SelectorExpr) *types.Var {
	s, ok := v.info.Selections[sel]
	if !ok || s.Kind() != types.FieldVal {
		return nil
	}
	fld, _ := s.Obj().(*types.Var)
	if fld == nil || !types.Identical(fld.Type(), v.fnPtr) {
		return nil
	}
	t := s.Recv()
	if p, ok := t.Underlying().(*types.Pointer); ok {
		t = p.Elem()
	}
	st, ok := t.Underlying().(*types.Struct)
	if !ok {
		return nil
	}
	var own bool
	var part *types.Var
	n := 0
	for i := 0; i < st.NumFields(); i++ {
		f := st.Field(i)
		if f == fld {
			own = true
		}
		if types.Identical(f.Type(), v.varsT) {
			part = f
			n++
		}
	}
	if !own || n != 1 {
		return nil
	}
	return part
}

// resolve reads e through local variables that have a single definition (aliases: `g := vm.env.globals`).
func (v *c16VarsRule) resolve(ctx c16Ctx, e ast.Expr) ast.Expr {
	for i := 0; i < 6; i++ {
		e = ast.Unparen(e)
		id, ok := e.(*ast.Ident)
		if !ok {
			return e
		}
		o := v.info.Uses[id]
		if !c16IsLocalVar(o) || v.paramIndex(ctx, o) >= 0 || c16ParamIndex(v.info, ctx.fi.Decl.Type, o) >= 0 {
			return e
		}
		var rhs ast.Expr
		n := 0
		for _, d := range c16DefsOf(v.info, ctx.fi.Decl.Body, o) {
			if d.Zero {
				continue
			}
			n++
			rhs = d.Rhs
		}
		if n != 1 || rhs == nil {
			return e
		}
		e = rhs
	}
	return e
}

// sameBase: the two expressions denote the same callable / frame / machine, also through an alias.
func (v *c16VarsRule) sameBase(ctx c16Ctx, a, b ast.Expr) bool {
	if c16SameExpr(v.info, a, b) {
		return true
	}
	ra, rb := v.resolve(ctx, c16Strip(a)), v.resolve(ctx, c16Strip(b))
	return c16SameExpr(v.info, ra, rb)
}

type c16Origin struct {
	node ast.Node // where the value is produced (a definition of the local, or the sink itself)
	expr ast.Expr
}

// origins resolves e at the sink: a local variable is replaced by its definitions.
// ok=false: a definition that cannot be read.
func (v *c16VarsRule) origins(ctx c16Ctx, sink ast.Node, e ast.Expr) (out []c16Origin, local bool, ok bool) {
	e = ast.Unparen(e)
	id, isID := e.(*ast.Ident)
	if !isID {
		return []c16Origin{{sink, e}}, false, true
	}
	o := v.info.Uses[id]
	if !c16IsLocalVar(o) || v.paramIndex(ctx, o) >= 0 {
		return []c16Origin{{sink, e}}, false, true
	}
	defs := c16DefsOf(v.info, ctx.fi.Decl.Body, o)
	for _, d := range defs {
		if d.Zero {
			continue
		}
		if d.Rhs == nil {
			return nil, true, false
		}
		if c16IsNil(v.info, d.Rhs) {
			continue
		}
		out = append(out, c16Origin{d.Node, v.resolve(ctx, d.Rhs)})
	}
	if len(out) == 1 {
		// a single definition: read through it (also across a function literal capturing the variable)
		return []c16Origin{{sink, out[0].expr}}, false, true
	}
	return out, true, len(out) > 0
}

func (v *c16VarsRule) paramIndex(ctx c16Ctx, o types.Object) int {
	if o == nil {
		return -1
	}
	if ctx.lit != nil {
		if i := c16ParamIndex(v.info, ctx.lit.Type, o); i >= 0 {
			return i
		}
		return -1 // parameters of the enclosing declaration are captured variables here
	}
	return c16ParamIndex(v.info, ctx.fi.Decl.Type, o)
}

type c16Kind int

const (
	c16KUnknown c16Kind = iota
	c16KPair            // X.fn of a struct that also holds the table
	c16KTable           // element of a []*Function table
	c16KParam           // parameter of the enclosing function
)

func (k c16Kind) String() string {
	return [...]string{"unknown", "callable", "package-function", "parameter"}[k]
}

func (v *c16VarsRule) classify(ctx c16Ctx, e ast.Expr) (c16Kind, *ast.SelectorExpr, *types.Var, int) {
	switch x := v.resolve(ctx, e).(type) {
	case *ast.SelectorExpr:
		if part := v.partner(x); part != nil {
			return c16KPair, x, part, -1
		}
	case *ast.IndexExpr:
		if sl, ok := v.info.TypeOf(x.X).Underlying().(*types.Slice); ok && types.Identical(sl.Elem(), v.fnPtr) {
			return c16KTable, nil, nil, -1
		}
	case *ast.Ident:
		if i := v.paramIndex(ctx, v.info.Uses[x]); i >= 0 && ctx.lit == nil {
			return c16KParam, nil, nil, i
		}
	}
	return c16KUnknown, nil, nil, -1
}

// matches: ev is the table that belongs to the function value classified as (k, sel, part).
func (v *c16VarsRule) matches(ctx c16Ctx, k c16Kind, sel *ast.SelectorExpr, part *types.Var, ev ast.Expr) (bool, int) {
	ev = v.resolve(ctx, ev)
	switch k {
	case c16KPair:
		s, ok := ev.(*ast.SelectorExpr)
		return ok && v.info.Uses[s.Sel] == part && v.sameBase(ctx, s.X, sel.X), -1
	case c16KTable:
		s, ok := ev.(*ast.SelectorExpr)
		if !ok {
			return false, -1
		}
		f, _ := v.info.Uses[s.Sel].(*types.Var)
		return f != nil && v.globals[f], -1
	case c16KParam:
		id, ok := ev.(*ast.Ident)
		if !ok {
			return false, -1
		}
		o := v.info.Uses[id]
		i := v.paramIndex(ctx, o)
		return i >= 0 && types.Identical(o.Type(), v.varsT), i
	}
	return false, -1
}

type c16VarsSite struct {
	sink ast.Node // the statement storing the table (or the call receiving it)
	expr ast.Expr
}

// check decides one replacement of the running function: fnExpr stored/passed at fnSink, with the
// candidate stores of the table.
func (v *c16VarsRule) check(ctx c16Ctx, what string, fnSink ast.Node, fnExpr ast.Expr, sites []c16VarsSite, region ast.Node) {
	r, rule := v.r, v.rule
	name := ctx.fi.Name()
	key := name + "#callee-vars:" + what
	if c16IsNil(v.info, fnExpr) {
		return
	}
	fos, _, ok := v.origins(ctx, fnSink, fnExpr)
	if !ok {
		r.Ob(rule, key, fnSink.Pos()).Unknown("the function value %s entered here has a definition the rule cannot read", exprStr(fnExpr))
		return
	}
	paths := &c16Paths{c: r.P.CFG(v.info, ctx.fi.File, ctx.body), region: region}
	for _, fo := range fos {
		k, sel, part, pi := v.classify(ctx, fo.expr)
		o := r.Ob(rule, key+":"+k.String(), fo.node.Pos())
		if k == c16KUnknown {
			o.Unknown("the running function is replaced by %s, which is neither the function of a callable or frame, nor an element of a Functions table, nor a parameter: the table that belongs to it cannot be determined", exprStr(fo.expr))
			continue
		}
		if fo.node != fnSink && !paths.in(fo.node) {
			o.Unknown("the definition %s of the entered function lies outside the region of the store (%s)", exprStr(fo.expr), c16RegionLabel(region))
			continue
		}
		var good []ast.Node
		var wrong []string
		vi := -1
		for _, s := range sites {
			vos, vlocal, ok := v.origins(ctx, s.sink, s.expr)
			if !ok {
				continue
			}
			for _, vo := range vos {
				m, idx := v.matches(ctx, k, sel, part, vo.expr)
				if !m {
					// a table of another source counts only when it is stored on the paths of this function value
					if paths.covers(fo.node, []ast.Node{s.sink}) && (vo.node == s.sink || paths.covers(fo.node, []ast.Node{vo.node})) {
						wrong = append(wrong, exprStr(vo.expr))
					}
					continue
				}
				// the table must also reach the machine: its store covers the definition of the function
				if vlocal && !paths.covers(fo.node, []ast.Node{s.sink}) {
					continue
				}
				good = append(good, vo.node)
				vi = idx
			}
		}
		want := ""
		switch k {
		case c16KPair:
			want = exprStr(sel.X) + "." + part.Name()
		case c16KTable:
			want = "the global table of the environment"
		case c16KParam:
			want = "a parameter of " + name
		}
		switch {
		case len(good) > 0 && paths.covers(fo.node, good):
			o.OK("%s: the running function becomes %s and on every path the variable table becomes %s", c16RegionLabel(region), exprStr(fo.expr), want)
			if k == c16KParam && ctx.fi.Obj != nil {
				if _, dup := v.helpers[ctx.fi.Obj]; !dup {
					v.helpers[ctx.fi.Obj] = [2]int{pi, vi}
					v.queue = append(v.queue, ctx.fi.Obj)
				}
			}
		case len(good) > 0:
			o.Bad("%s: the running function becomes %s but a path continues without the variable table becoming %s: on that path the callee runs against the table of its caller", c16RegionLabel(region), exprStr(fo.expr), want)
		case len(wrong) > 0:
			o.Bad("%s: the running function becomes %s but the variable table becomes %s, not %s: the callee addresses its variables in a table that is not its own", c16RegionLabel(region), exprStr(fo.expr), wrong[0], want)
		default:
			o.Bad("%s: the running function becomes %s and the variable table is left as it is, not set to %s: when the caller is a closure (the body of a macro declared in a template) the callee reads and writes the caller's captured variables in place of its own globals", c16RegionLabel(region), exprStr(fo.expr), want)
		}
	}
}

func c16CalleeVars(r *Run, rule string) {
	const rel = "internal/runtime"
	pk := r.P.Pkg(rel)
	vmT, fnT := r.P.Named(rel, "VM"), r.P.Named(rel, "Function")
	if !r.Anchor(rule, "runtime.VM, runtime.Function", pk != nil && vmT != nil && fnT != nil) {
		return
	}
	v := &c16VarsRule{r: r, rule: rule, pk: pk, info: pk.TypesInfo, fnPtr: types.NewPointer(fnT), globals: map[*types.Var]bool{}, helpers: map[*types.Func][2]int{}, byObj: map[*types.Func]*FuncInfo{}}
	st, _ := vmT.Underlying().(*types.Struct)
	nfn, nvars := 0, 0
	for i := 0; st != nil && i < st.NumFields(); i++ {
		f := st.Field(i)
		if types.Identical(f.Type(), v.fnPtr) {
			v.fnFld = f
			nfn++
		}
		if sl, ok := f.Type().(*types.Slice); ok && typeStr(sl.Elem()) == "reflect.Value" {
			v.varsFld = f
			nvars++
		}
	}
	if !r.Anchor(rule, "the fields of runtime.VM holding the running function (*Function) and its variable table ([]reflect.Value)", nfn == 1 && nvars == 1) {
		return
	}
	v.varsT = v.varsFld.Type()
	// the global table: a field of the table type in the struct behind a pointer field of VM
	for i := 0; i < st.NumFields(); i++ {
		p, ok := st.Field(i).Type().(*types.Pointer)
		if !ok {
			continue
		}
		es, ok := p.Elem().Underlying().(*types.Struct)
		if !ok || types.Identical(p, v.fnPtr) {
			continue
		}
		for j := 0; j < es.NumFields(); j++ {
			if types.Identical(es.Field(j).Type(), v.varsT) {
				v.globals[es.Field(j)] = true
			}
		}
	}
	if !r.Anchor(rule, "the global variable table of the execution environment (a []reflect.Value field of the struct VM points to)", len(v.globals) == 1) {
		return
	}
	funcs := r.P.Funcs(rel)
	for _, fi := range funcs {
		if fi.Obj != nil && !r.P.isTestFile(fi.File) {
			v.byObj[fi.Obj] = fi
		}
	}
	// 1. stores of the running function
	for _, fi := range funcs {
		if r.P.isTestFile(fi.File) {
			continue
		}
		fi := fi
		var stores []*ast.AssignStmt
		ast.Inspect(fi.Decl.Body, func(n ast.Node) bool {
			if as, ok := n.(*ast.AssignStmt); ok {
				for _, l := range as.Lhs {
					if sel, ok := ast.Unparen(l).(*ast.SelectorExpr); ok && v.info.Uses[sel.Sel] == v.fnFld {
						stores = append(stores, as)
						break
					}
				}
			}
			return true
		})
		for _, as := range stores {
			if len(as.Lhs) != len(as.Rhs) {
				r.Ob(rule, fi.Name()+"#callee-vars:store", as.Pos()).Unknown("the running function is stored by a multi-value assignment the rule cannot read")
				continue
			}
			for i, l := range as.Lhs {
				sel, ok := ast.Unparen(l).(*ast.SelectorExpr)
				if !ok || v.info.Uses[sel.Sel] != v.fnFld || c16IsNil(v.info, as.Rhs[i]) {
					continue
				}
				v.nSinks++
				ctx := c16Enclosing(r.P, fi, as)
				region := c16Region(r.P, ctx, as)
				// the stores of the table of the same machine inside the region
				var sites []c16VarsSite
				ast.Inspect(region, func(n ast.Node) bool {
					if _, ok := n.(*ast.FuncLit); ok && (ctx.lit == nil || n != ast.Node(ctx.lit)) {
						return false
					}
					vs, ok := n.(*ast.AssignStmt)
					if !ok || len(vs.Lhs) != len(vs.Rhs) {
						return true
					}
					for j, vl := range vs.Lhs {
						if vsel, ok := ast.Unparen(vl).(*ast.SelectorExpr); ok && v.info.Uses[vsel.Sel] == v.varsFld && c16SameExpr(v.info, vsel.X, sel.X) {
							sites = append(sites, c16VarsSite{vs, vs.Rhs[j]})
						}
					}
					return true
				})
				v.check(ctx, c16RegionLabel(region), as, as.Rhs[i], sites, region)
			}
		}
	}
	// 2. calls of the helpers that take the function and its table as parameters
	for len(v.queue) > 0 {
		h := v.queue[0]
		v.queue = v.queue[1:]
		idx := v.helpers[h]
		v.nHelpers++
		for _, cs := range c16CallsOf(r.P, rel, h) {
			if idx[0] >= len(cs.call.Args) || idx[1] >= len(cs.call.Args) || idx[0] < 0 || idx[1] < 0 {
				r.Ob(rule, cs.fi.Name()+"#callee-vars:call-of-"+h.Name(), cs.call.Pos()).Unknown("call of %s with a variadic or multi-value argument list", h.Name())
				continue
			}
			v.nCallSink++
			ctx := c16Enclosing(r.P, cs.fi, cs.call)
			var stmt ast.Node = cs.call
			par := r.P.Parents(cs.fi.File)
			for m := par[ast.Node(cs.call)]; m != nil; m = par[m] {
				if _, ok := m.(ast.Stmt); ok {
					stmt = m
					break
				}
			}
			region := c16Region(r.P, ctx, stmt)
			if ctx.lit == nil {
				region = ctx.body // the definitions of the arguments may sit in clauses of an earlier switch
			}
			v.check(ctx, "call-of-"+h.Name(), stmt, cs.call.Args[idx[0]], []c16VarsSite{{stmt, cs.call.Args[idx[1]]}}, region)
		}
	}
	r.Stats[rule+"_stores_of_running_function"] = v.nSinks
	r.Stats[rule+"_helpers"] = v.nHelpers
	r.Stats[rule+"_helper_calls"] = v.nCallSink
	r.Anchor(rule, "a store of the running function of the virtual machine", v.nSinks > 0)
	r.Require(rule, 12)
}
