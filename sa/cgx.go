package main

// Helpers shared by the rule files of group G (c17.go, c18.go, c19.go, c22.go).
// Every identifier is prefixed cgx. Nothing here is specific to one property:
//   - typed-AST utilities (object identity of identifiers, nil tests, assignments),
//   - a forward walk over go/cfg with cut edges (engine E4, site-to-site form),
//   - a small intra-function value flow on go/ssa that follows closures through their
//     captured cells (engine E5).

import (
	"go/ast"
	"go/token"
	"go/types"

	"golang.org/x/tools/go/cfg"
	"golang.org/x/tools/go/ssa"
)

// ---------------------------------------------------------------------------
// typed AST

// cgxObj returns the object an identifier expression denotes (definition or use), or nil.
func cgxObj(info *types.Info, e ast.Expr) types.Object {
	id, ok := ast.Unparen(e).(*ast.Ident)
	if !ok {
		return nil
	}
	if o := info.Uses[id]; o != nil {
		return o
	}
	return info.Defs[id]
}

// cgxIsNil reports whether e is the predeclared nil.
func cgxIsNil(info *types.Info, e ast.Expr) bool {
	id, ok := ast.Unparen(e).(*ast.Ident)
	if !ok {
		return false
	}
	_, isNil := info.Uses[id].(*types.Nil)
	return isNil
}

// cgxCmpObj decomposes a literal of the form "v == X" / "v != X" / "switch v { case X }" where v
// denotes obj. It returns the other operand and whether the literal asserts equality.
func cgxCmpObj(info *types.Info, l Lit, obj types.Object) (other ast.Expr, equal bool, ok bool) {
	if l.Tag != nil {
		if cgxObj(info, l.Tag) == obj && obj != nil {
			return l.Expr, l.Truth, true
		}
		return nil, false, false
	}
	be, isBin := ast.Unparen(l.Expr).(*ast.BinaryExpr)
	if !isBin || (be.Op != token.EQL && be.Op != token.NEQ) {
		return nil, false, false
	}
	eq := (be.Op == token.EQL) == l.Truth
	if o := cgxObj(info, be.X); o != nil && o == obj {
		return be.Y, eq, true
	}
	if o := cgxObj(info, be.Y); o != nil && o == obj {
		return be.X, eq, true
	}
	return nil, false, false
}

// cgxAssertsNil reports whether the literal says "obj is nil" (isNil) or "obj is not nil" (!isNil).
func cgxAssertsNil(info *types.Info, l Lit, obj types.Object) (isNil bool, ok bool) {
	other, eq, ok := cgxCmpObj(info, l, obj)
	if !ok || !cgxIsNil(info, other) {
		return false, false
	}
	return eq, true
}

// cgxEnclosingLit returns the innermost function literal of fi that contains n, or nil when n
// belongs to the declared function's own body.
func cgxEnclosingLit(p *Prog, fi *FuncInfo, n ast.Node) *ast.FuncLit {
	par := p.Parents(fi.File)
	for m := par[n]; m != nil; m = par[m] {
		if l, ok := m.(*ast.FuncLit); ok {
			return l
		}
		if m == fi.Decl {
			return nil
		}
	}
	return nil
}

// cgxInLoop reports whether n is nested in a for/range statement below `within`.
func cgxInLoop(p *Prog, file *ast.File, n ast.Node, within ast.Node) bool {
	par := p.Parents(file)
	for m := par[n]; m != nil && m != within; m = par[m] {
		switch m.(type) {
		case *ast.ForStmt, *ast.RangeStmt:
			return true
		case *ast.FuncLit:
			return false
		}
	}
	return false
}

// cgxAssign is one assignment of a value to a variable.
type cgxAssign struct {
	Node ast.Node      // *ast.AssignStmt, *ast.ValueSpec, *ast.RangeStmt, *ast.IncDecStmt
	Rhs  ast.Expr      // nil when the value is not a single expression (tuple call, range, zero value)
	Idx  int           // position of the variable on the left
	Call *ast.CallExpr // the tuple-producing call when Rhs == nil and the right side is one call
}

// cgxAssignsTo lists every assignment to obj inside root (function literals included).
func cgxAssignsTo(info *types.Info, root ast.Node, obj types.Object) []cgxAssign {
	var out []cgxAssign
	ast.Inspect(root, func(n ast.Node) bool {
		switch s := n.(type) {
		case *ast.AssignStmt:
			for i, l := range s.Lhs {
				if cgxObj(info, l) != obj {
					continue
				}
				a := cgxAssign{Node: s, Idx: i}
				if len(s.Rhs) == len(s.Lhs) {
					a.Rhs = s.Rhs[i]
				} else if len(s.Rhs) == 1 {
					a.Call, _ = ast.Unparen(s.Rhs[0]).(*ast.CallExpr)
				}
				out = append(out, a)
			}
		case *ast.ValueSpec:
			for i, id := range s.Names {
				if info.Defs[id] != obj {
					continue
				}
				a := cgxAssign{Node: s, Idx: i}
				if len(s.Values) == len(s.Names) {
					a.Rhs = s.Values[i]
				} else if len(s.Values) == 1 {
					a.Call, _ = ast.Unparen(s.Values[0]).(*ast.CallExpr)
				}
				out = append(out, a)
			}
		case *ast.RangeStmt:
			if s.Key != nil && cgxObj(info, s.Key) == obj {
				out = append(out, cgxAssign{Node: s, Idx: 0})
			}
			if s.Value != nil && cgxObj(info, s.Value) == obj {
				out = append(out, cgxAssign{Node: s, Idx: 1})
			}
		case *ast.IncDecStmt:
			if cgxObj(info, s.X) == obj {
				out = append(out, cgxAssign{Node: s})
			}
		}
		return true
	})
	return out
}

// cgxMentions reports whether n contains an identifier denoting obj.
func cgxMentions(info *types.Info, n ast.Node, obj types.Object) bool {
	found := false
	ast.Inspect(n, func(m ast.Node) bool {
		if id, ok := m.(*ast.Ident); ok && (info.Uses[id] == obj || info.Defs[id] == obj) {
			found = true
		}
		return !found
	})
	return found
}

// ---------------------------------------------------------------------------
// go/cfg: forward walk with cuts

// cgxWalk explores the graph forward starting with node index idx of blk. visit is called for each
// node in execution order and returns true to stop exploring that path. Edges for which cutEdge is
// true are not followed. The start block may be re-entered from its first node through a loop.
func cgxWalk(c *CFGInfo, blk *cfg.Block, idx int, visit func(b *cfg.Block, i int, n ast.Node) bool, cutEdge func(b *cfg.Block, i int) bool) {
	seen := map[*cfg.Block]bool{}
	var walk func(b *cfg.Block, start int)
	walk = func(b *cfg.Block, start int) {
		for i := start; i < len(b.Nodes); i++ {
			if visit(b, i, b.Nodes[i]) {
				return
			}
		}
		for i, s := range b.Succs {
			if cutEdge != nil && cutEdge(b, i) {
				continue
			}
			if !seen[s] {
				seen[s] = true
				walk(s, 0)
			}
		}
	}
	walk(blk, idx)
}

// cgxFirstNodeIn returns the graph node executed first among those lying inside the source range
// of n (the entry of a statement such as an if, which has no node of its own).
func cgxFirstNodeIn(c *CFGInfo, n ast.Node) (*cfg.Block, int) {
	var best *cfg.Block
	bi := -1
	var bestPos token.Pos
	for _, b := range c.G.Blocks {
		for i, m := range b.Nodes {
			if n.Pos() <= m.Pos() && m.End() <= n.End() {
				if best == nil || m.Pos() < bestPos {
					best, bi, bestPos = b, i, m.Pos()
				}
			}
		}
	}
	return best, bi
}

// cgxEdgeHas reports whether some literal of the edge b->Succs[i] satisfies pred.
func cgxEdgeHas(c *CFGInfo, b *cfg.Block, i int, pred func(Lit) bool) bool {
	for _, l := range c.edgeLits(b, i) {
		if pred(l) {
			return true
		}
	}
	return false
}

// cgxReturnsFrom lists the return statements reachable from (blk, idx) under the given cuts;
// stopNode ends a path (the node "kills" what is being tracked).
func cgxReturnsFrom(c *CFGInfo, blk *cfg.Block, idx int, stopNode func(ast.Node) bool, cutEdge func(b *cfg.Block, i int) bool) []*ast.ReturnStmt {
	var out []*ast.ReturnStmt
	cgxWalk(c, blk, idx, func(b *cfg.Block, i int, n ast.Node) bool {
		if stopNode != nil && stopNode(n) {
			return true
		}
		if r, ok := n.(*ast.ReturnStmt); ok {
			out = append(out, r)
			return true
		}
		return false
	}, cutEdge)
	return out
}

// cgxReaches reports whether the node (tb, ti) is executed on some path starting at (blk, idx).
func cgxReaches(c *CFGInfo, blk *cfg.Block, idx int, tb *cfg.Block, ti int, cutEdge func(b *cfg.Block, i int) bool) bool {
	found := false
	cgxWalk(c, blk, idx, func(b *cfg.Block, i int, n ast.Node) bool {
		if b == tb && i == ti {
			found = true
		}
		return found
	}, cutEdge)
	return found
}

// ---------------------------------------------------------------------------
// go/ssa: value flow inside one declared function and its function literals

// cgxFns returns f and, recursively, its anonymous functions.
func cgxFns(f *ssa.Function) []*ssa.Function {
	out := []*ssa.Function{f}
	for _, a := range f.AnonFuncs {
		out = append(out, cgxFns(a)...)
	}
	return out
}

// cgxCell resolves an address to the local cell it denotes: an *ssa.Alloc, possibly reached
// through the free variable of a closure (bound by the MakeClosure of the parent). Addresses of
// fields, elements and globals are not cells (nil).
func cgxCell(v ssa.Value) ssa.Value {
	for depth := 0; depth < 8; depth++ {
		switch x := v.(type) {
		case *ssa.Alloc:
			return x
		case *ssa.FreeVar:
			fn := x.Parent()
			idx := -1
			for i, fv := range fn.FreeVars {
				if fv == x {
					idx = i
				}
			}
			par := fn.Parent()
			if idx < 0 || par == nil {
				return nil
			}
			var bound ssa.Value
			for _, b := range par.Blocks {
				for _, in := range b.Instrs {
					if mc, ok := in.(*ssa.MakeClosure); ok && mc.Fn == fn && idx < len(mc.Bindings) {
						bound = mc.Bindings[idx]
					}
				}
			}
			if bound == nil {
				return nil
			}
			v = bound
		default:
			return nil
		}
	}
	return nil
}

// cgxForward computes the values of fns that may carry one of the seeds: through phi, interface
// and type conversions, tuple extraction, and through local cells (a store of a carrying value
// makes every load of the same cell carrying, across closures). Calls are not followed.
func cgxForward(fns []*ssa.Function, seeds []ssa.Value) map[ssa.Value]bool {
	t := map[ssa.Value]bool{}
	cells := map[ssa.Value]bool{}
	for _, s := range seeds {
		t[s] = true
	}
	for changed := true; changed; {
		changed = false
		mark := func(v ssa.Value) {
			if !t[v] {
				t[v] = true
				changed = true
			}
		}
		for _, fn := range fns {
			for _, b := range fn.Blocks {
				for _, in := range b.Instrs {
					switch x := in.(type) {
					case *ssa.Store:
						if t[x.Val] {
							if c := cgxCell(x.Addr); c != nil && !cells[c] {
								cells[c] = true
								changed = true
							}
						}
					case *ssa.UnOp:
						if x.Op == token.MUL {
							if c := cgxCell(x.X); c != nil && cells[c] {
								mark(x)
							}
						}
					case *ssa.Phi:
						for _, e := range x.Edges {
							if t[e] {
								mark(x)
							}
						}
					case *ssa.ChangeInterface:
						if t[x.X] {
							mark(x)
						}
					case *ssa.MakeInterface:
						if t[x.X] {
							mark(x)
						}
					case *ssa.ChangeType:
						if t[x.X] {
							mark(x)
						}
					case *ssa.Convert:
						if t[x.X] {
							mark(x)
						}
					case *ssa.TypeAssert:
						if t[x.X] {
							mark(x)
						}
					case *ssa.Extract:
						if t[x.Tuple] {
							mark(x)
						}
					case *ssa.Call:
						// a function of the module that may hand back its argument (`stopToNil(err)`)
						if cal := x.Call.StaticCallee(); cal != nil && !x.Call.IsInvoke() && inModule(cal) && len(cal.Blocks) > 0 {
							for i, a := range x.Call.Args {
								if t[a] && i < len(cal.Params) && cgxMayReturnParam(cal, cal.Params[i]) {
									mark(x)
								}
							}
						}
					}
				}
			}
		}
	}
	return t
}

// cgxMayReturnParam: some return of fn yields the parameter itself (through phis and interface changes).
func cgxMayReturnParam(fn *ssa.Function, p *ssa.Parameter) bool {
	seen := map[ssa.Value]bool{}
	var is func(v ssa.Value) bool
	is = func(v ssa.Value) bool {
		if seen[v] {
			return false
		}
		seen[v] = true
		switch x := v.(type) {
		case *ssa.Parameter:
			return x == p
		case *ssa.Phi:
			for _, e := range x.Edges {
				if is(e) {
					return true
				}
			}
		case *ssa.ChangeInterface:
			return is(x.X)
		case *ssa.MakeInterface:
			return is(x.X)
		case *ssa.ChangeType:
			return is(x.X)
		}
		return false
	}
	for _, b := range fn.Blocks {
		for _, in := range b.Instrs {
			if ret, ok := in.(*ssa.Return); ok {
				for _, res := range ret.Results {
					if is(res) {
						return true
					}
				}
			}
		}
	}
	return false
}

// cgxStoresTo lists the values stored into cell by any of fns.
func cgxStoresTo(fns []*ssa.Function, cell ssa.Value) []ssa.Value {
	var out []ssa.Value
	for _, fn := range fns {
		for _, b := range fn.Blocks {
			for _, in := range b.Instrs {
				if st, ok := in.(*ssa.Store); ok && cgxCell(st.Addr) == cell {
					out = append(out, st.Val)
				}
			}
		}
	}
	return out
}

// cgxIsParamValue reports whether v can only be the parameter p: p itself, or a load of a local
// cell into which only p is stored (the form a captured parameter takes).
func cgxIsParamValue(fns []*ssa.Function, v ssa.Value, p *ssa.Parameter) bool {
	if v == ssa.Value(p) {
		return true
	}
	u, ok := v.(*ssa.UnOp)
	if !ok || u.Op != token.MUL {
		return false
	}
	c := cgxCell(u.X)
	if c == nil {
		return false
	}
	st := cgxStoresTo(fns, c)
	if len(st) == 0 {
		return false
	}
	for _, s := range st {
		if s != ssa.Value(p) {
			return false
		}
	}
	return true
}

// cgxDescribe renders an SSA value for a report.
func cgxDescribe(v ssa.Value) string {
	switch x := v.(type) {
	case *ssa.Const:
		return "constant " + x.String()
	case *ssa.Phi:
		s := "phi("
		for i, e := range x.Edges {
			if i > 0 {
				s += ", "
			}
			if c, ok := e.(*ssa.Const); ok {
				s += c.String()
			} else {
				s += e.Name()
			}
		}
		return s + ")"
	}
	return v.Name() + " = " + v.String()
}
