package main

// C15 R-7 (added after seeded change C15-6): what lets the renderer alter literal text does not outlive
// the URL it was set in.
//
// The renderer writes template text unchanged, except inside a URL, where two things can happen to a text
// piece: a leading byte is dropped (the text is re-sliced) and something that is not the text is written in
// front of it ("&amp;"). Both are gated by bool fields of the renderer that the URL-showing code raises when
// a shown value contains '?'. Those fields describe ONE url. The renderer switches its in-URL state in a
// block guarded by the comparison of its in-URL field with the incoming value; if that block does not clear a
// gating field, a URL that ends right after such a show leaves it raised, and in a later, unrelated URL a
// literal '?' is removed and "&amp;" inserted: literal template text is altered.
//
// Roles, found by shape and types only:
//   * the text method: the method of package runtime with a []byte parameter and a bool parameter (is the
//     text inside a URL) that passes the []byte to Write of an interface-typed field of its receiver;
//   * alterations in it: an assignment to that parameter; a call involving the writer field that does not
//     pass the parameter;
//   * gating fields: the bool fields of the receiver that are conjuncts of the condition of the innermost
//     if around an alteration;
//   * state-switch blocks: in the methods of the receiver type, the body of `if recv.f != x` (f a bool field,
//     x a bool variable), or the statements after `if recv.f == x { return }`;
//   * cleared: `recv.g = false` in the block or in a method of the receiver type called from it.

import (
	"go/ast"
	"go/token"
	"go/types"
	"sort"
	"strings"
)

func init() {
	p := registry["C15"]
	if p == nil {
		return
	}
	run := p.run
	p.run = func(r *Run) { run(r); c15URLStateReset(r) }
	p.explain += " R-7: every block in which the renderer switches its in-URL state clears each bool field that gates an alteration of the text in the renderer's text method (dropping a byte of the text, writing something else before it)."
}

func c15URLStateReset(r *Run) {
	const R = "R-7"
	const rel = "internal/runtime"
	var fns []*FuncInfo
	for _, fi := range r.P.Funcs(rel) {
		if !r.P.isTestFile(fi.File) && fi.Obj != nil {
			fns = append(fns, fi)
		}
	}
	recvOf := func(fi *FuncInfo) (*types.Named, types.Object) {
		sig := fi.Obj.Type().(*types.Signature)
		if sig.Recv() == nil || fi.Decl.Recv == nil || len(fi.Decl.Recv.List) == 0 || len(fi.Decl.Recv.List[0].Names) == 0 {
			return nil, nil
		}
		return c10NamedOf(sig.Recv().Type()), fi.Pkg.TypesInfo.Defs[fi.Decl.Recv.List[0].Names[0]]
	}
	isRecvField := func(info *types.Info, recv types.Object, e ast.Expr) *types.Var {
		sel, ok := ast.Unparen(e).(*ast.SelectorExpr)
		if !ok {
			return nil
		}
		id, ok := ast.Unparen(sel.X).(*ast.Ident)
		if !ok || info.Uses[id] != recv {
			return nil
		}
		v, _ := info.Uses[sel.Sel].(*types.Var)
		if v != nil && v.IsField() {
			return v
		}
		return nil
	}
	isBool := func(t types.Type) bool {
		b, ok := t.Underlying().(*types.Basic)
		return ok && b.Kind() == types.Bool
	}

	// the text method
	type textM struct {
		fi     *FuncInfo
		typ    *types.Named
		recv   types.Object
		param  types.Object
		writer *types.Var
	}
	var tms []textM
	for _, fi := range fns {
		typ, recv := recvOf(fi)
		if typ == nil || recv == nil {
			continue
		}
		info := fi.Pkg.TypesInfo
		sig := fi.Obj.Type().(*types.Signature)
		hasBoolParam := false
		for i := 0; i < sig.Params().Len(); i++ {
			if isBool(sig.Params().At(i).Type()) {
				hasBoolParam = true
			}
		}
		for i := 0; i < sig.Params().Len() && hasBoolParam; i++ {
			pv := sig.Params().At(i)
			if typeStr(pv.Type()) != "[]byte" {
				continue
			}
			var writer *types.Var
			ast.Inspect(fi.Decl.Body, func(n ast.Node) bool {
				c, ok := n.(*ast.CallExpr)
				if !ok || len(c.Args) != 1 {
					return true
				}
				sel, ok := ast.Unparen(c.Fun).(*ast.SelectorExpr)
				if !ok || sel.Sel.Name != "Write" {
					return true
				}
				fv := isRecvField(info, recv, sel.X)
				if fv == nil {
					return true
				}
				if _, isIface := fv.Type().Underlying().(*types.Interface); !isIface {
					return true
				}
				if id, ok := ast.Unparen(c.Args[0]).(*ast.Ident); ok && info.Uses[id] == pv {
					writer = fv
				}
				return true
			})
			if writer != nil {
				tms = append(tms, textM{fi, typ, recv, pv, writer})
			}
		}
	}
	if !r.Anchor(R, "the renderer's text method (method of runtime writing its []byte parameter to a writer field of the receiver)", len(tms) == 1) {
		return
	}
	tm := tms[0]
	info := tm.fi.Pkg.TypesInfo
	par := r.P.Parents(tm.fi.File)

	// alterations and their gating fields
	type alt struct {
		node ast.Node
		what string
	}
	var alts []alt
	ast.Inspect(tm.fi.Decl.Body, func(n ast.Node) bool {
		switch x := n.(type) {
		case *ast.AssignStmt:
			for _, l := range x.Lhs {
				if id, ok := ast.Unparen(l).(*ast.Ident); ok && info.Uses[id] == tm.param {
					alts = append(alts, alt{x, "the text is re-sliced (" + exprStr(x.Lhs[0]) + " = " + exprStr(x.Rhs[0]) + ")"})
				}
			}
		case *ast.CallExpr:
			usesWriter, passesParam := false, false
			ast.Inspect(x, func(m ast.Node) bool {
				if e, ok := m.(ast.Expr); ok {
					if fv := isRecvField(info, tm.recv, e); fv == tm.writer {
						usesWriter = true
					}
					if id, ok := e.(*ast.Ident); ok && info.Uses[id] == tm.param {
						passesParam = true
					}
				}
				return true
			})
			if usesWriter && !passesParam {
				alts = append(alts, alt{x, "something other than the text is written (" + exprStr(x) + ")"})
			}
			if usesWriter {
				return false
			}
		}
		return true
	})
	gates := map[*types.Var][]string{}
	ungated := []string{}
	for _, a := range alts {
		var cond ast.Expr
		child := a.node
		for p := par[a.node]; p != nil && p != ast.Node(tm.fi.Decl.Body); child, p = p, par[p] {
			if is, ok := p.(*ast.IfStmt); ok && child == ast.Node(is.Body) {
				cond = is.Cond
				break
			}
		}
		found := false
		if cond != nil {
			for _, cj := range splitAnd(cond) {
				if fv := isRecvField(info, tm.recv, cj); fv != nil && isBool(fv.Type()) {
					gates[fv] = append(gates[fv], a.what)
					found = true
				}
			}
		}
		if !found {
			ungated = append(ungated, a.what)
		}
	}
	if len(alts) == 0 {
		r.Ob(R, tm.fi.Name()+"#alterations", tm.fi.Decl.Pos()).Trivial("the text method writes its text and nothing else")
		r.Require(R, 1)
		return
	}
	if len(ungated) > 0 {
		r.Ob(R, tm.fi.Name()+"#alterations", tm.fi.Decl.Pos()).Unknown("an alteration of the text is not directly under an if with a bool field of the receiver as a conjunct: %s", strings.Join(ungated, "; "))
		r.Require(R, 1)
		return
	}

	// methods of the receiver type
	methods := map[*types.Func]*FuncInfo{}
	for _, fi := range fns {
		if typ, _ := recvOf(fi); typ == tm.typ {
			methods[fi.Obj] = fi
		}
	}
	// fields cleared by a node (directly or through methods of the type)
	var clearedBy func(fi *FuncInfo, n ast.Node, depth int, out map[*types.Var]bool)
	clearedBy = func(fi *FuncInfo, n ast.Node, depth int, out map[*types.Var]bool) {
		inf := fi.Pkg.TypesInfo
		_, recv := recvOf(fi)
		ast.Inspect(n, func(m ast.Node) bool {
			switch x := m.(type) {
			case *ast.FuncLit:
				return false
			case *ast.AssignStmt:
				if len(x.Lhs) == len(x.Rhs) && x.Tok == token.ASSIGN {
					for i, l := range x.Lhs {
						if fv := isRecvField(inf, recv, l); fv != nil {
							if tv, ok := inf.Types[x.Rhs[i]]; ok && tv.Value != nil && tv.Value.String() == "false" {
								out[fv] = true
							}
						}
					}
				}
			case *ast.CallExpr:
				if fn := callee(inf, x); fn != nil && depth < 3 {
					if mfi := methods[fn]; mfi != nil {
						// the call must be on the same receiver
						if sel, ok := ast.Unparen(x.Fun).(*ast.SelectorExpr); ok {
							if id, ok := ast.Unparen(sel.X).(*ast.Ident); ok && inf.Uses[id] == recv {
								clearedBy(mfi, mfi.Decl.Body, depth+1, out)
							}
						}
					}
				}
			}
			return true
		})
	}

	// state-switch blocks
	nblocks := 0
	var gateNames []string
	for g := range gates {
		gateNames = append(gateNames, g.Name())
	}
	sort.Strings(gateNames)
	for _, fi := range fns {
		typ, recv := recvOf(fi)
		if typ != tm.typ || recv == nil {
			continue
		}
		inf := fi.Pkg.TypesInfo
		idx := 0
		ast.Inspect(fi.Decl.Body, func(n ast.Node) bool {
			blk, ok := n.(*ast.BlockStmt)
			if !ok {
				return true
			}
			for i, s := range blk.List {
				is, ok := s.(*ast.IfStmt)
				if !ok || is.Init != nil {
					continue
				}
				be, ok := ast.Unparen(is.Cond).(*ast.BinaryExpr)
				if !ok || (be.Op != token.NEQ && be.Op != token.EQL) {
					continue
				}
				var fv *types.Var
				var other ast.Expr
				if v := isRecvField(inf, recv, be.X); v != nil {
					fv, other = v, be.Y
				} else if v := isRecvField(inf, recv, be.Y); v != nil {
					fv, other = v, be.X
				}
				if fv == nil || !isBool(fv.Type()) {
					continue
				}
				oid, ok := ast.Unparen(other).(*ast.Ident)
				if !ok {
					continue
				}
				if ov, ok := inf.Uses[oid].(*types.Var); !ok || !isBool(ov.Type()) {
					continue
				}
				var region []ast.Node
				if be.Op == token.NEQ {
					region = []ast.Node{is.Body}
					if is.Else != nil {
						continue
					}
				} else {
					// if recv.f == x { return } ; rest
					if len(is.Body.List) != 1 || is.Else != nil {
						continue
					}
					if _, isRet := is.Body.List[0].(*ast.ReturnStmt); !isRet {
						continue
					}
					for _, rest := range blk.List[i+1:] {
						region = append(region, rest)
					}
				}
				// the block must store the new state into the field (it is the switch, not a mere test)
				stores := false
				for _, rn := range region {
					ast.Inspect(rn, func(m ast.Node) bool {
						if as, ok := m.(*ast.AssignStmt); ok {
							for _, l := range as.Lhs {
								if isRecvField(inf, recv, l) == fv {
									stores = true
								}
							}
						}
						return true
					})
				}
				if !stores {
					continue
				}
				nblocks++
				idx++
				key := fi.Name() + "#url-state-switch"
				if idx > 1 {
					key += "-" + string(rune('0'+idx))
				}
				o := r.Ob(R, key, is.Pos())
				cleared := map[*types.Var]bool{}
				for _, rn := range region {
					clearedBy(fi, rn, 0, cleared)
				}
				var missing []string
				for g, whats := range gates {
					if g == fv {
						continue
					}
					if !cleared[g] {
						missing = append(missing, g.Name()+" (gates: "+strings.Join(whats, "; ")+")")
					}
				}
				sort.Strings(missing)
				if len(missing) > 0 {
					o.Bad("the block of %s that switches %s.%s does not clear %s: raised while showing a value in one URL, it survives the end of that URL and makes %s alter the literal text of a later URL", fi.Name(), tm.typ.Obj().Name(), fv.Name(), strings.Join(missing, ", "), tm.fi.Name())
				} else {
					o.OK("the block that switches %s.%s clears every field gating an alteration of the text in %s: %s", tm.typ.Obj().Name(), fv.Name(), tm.fi.Name(), strings.Join(gateNames, ", "))
				}
			}
			return true
		})
	}
	if nblocks == 0 {
		r.Ob(R, tm.fi.Name()+"#url-state-switch", tm.fi.Decl.Pos()).Unknown("no block of the form `if recv.f != x { … recv.f = x }` (or its early-return form) found in the methods of %s: the place where the in-URL state is switched is not recognised", tm.typ.Obj().Name())
	}
	r.Require(R, 2)
}
