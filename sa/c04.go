package main

// C04 — building never crashes, hangs or leaks (DESIGN.md §5 C04).

import (
	"go/ast"
	"go/token"
	"go/types"
	"strings"
)

func init() {
	register("C04", &ruleSet{
		explain: "R-1: every function that starts the lexer goroutine's owner registers, immediately after, a deferred call that drains the token channel, and the goroutine closes that channel on every non-panicking exit (no leaked goroutine). " +
			"R-2: every index and one-bound slice expression on the scanned buffer in the functions reachable from the lexer goroutine entry (which runs with no recover, so a fault kills the process) is in range on every path, by a linear guard fact, by a precondition discharged at every call site, or by a nil-return postcondition of the callee. " +
			"R-3: the disassembler's name tables are total over the opcode and condition enums and are indexed with non-negative values.",
		notCov:  []string{"internal panics of parser/checker/emitter on the calling goroutine (no catch-all exists in Build*; declared 'not implemented' gaps are listed in DESIGN.md §7, not decided here)", "termination of lexer and parser loops", "slices with two symbolic bounds (listed in notes)", "index faults outside the lexer (parser/checker/emitter run on the caller's goroutine)"},
		trusted: []string{"bytes.Index*/HasPrefix and utf8.DecodeRune result contracts", "the reviewed exception table c04Exceptions (one symbol, one reason each)"},
		run:     runC04,
	})
}

// Sites of the lexer that are in range by an invariant the engine cannot express (a postcondition of
// another function or a character-class argument). One symbol, one reason; each was confirmed by reading.
var c04Exceptions = []boundsException{
	{"compiler.(*lexer).scan#call:$1.emitAtLineColumn($2, $3, tokenText, $4)~8",
		"loop invariant p ≤ len(l.src) of the template text loop: p grows only by amounts that are obligations of their own (all discharged) or is assigned a position returned by scanTag / scanAttribute / scanCodeBlock / skipRawContent, each of which returns an index ≤ len(l.src); the call is the flush after the loop ended with p ≥ len(l.src)"},
	{"compiler.(*lexer).lexCode#$1.src[utf8.RuneLen(BOM):]",
		"under r == BOM where r, s := utf8.DecodeRune(l.src): decoding U+FEFF consumed utf8.RuneLen(BOM) = 3 bytes of l.src"},
	{"compiler.(*lexer).lexNumber#$1.src[$2 - 1]",
		"character-class argument: lexNumber is called only when l.src[0] is '0'..'9' or '.' followed by a digit (the two call sites in lexCode), and that first byte is consumed by the base-prefix switch, the '.' branch or the first iteration of the DIGITS loop, so p ≥ 1; p - 1 < len(l.src) is proved"},
	{"compiler.(*lexer).skipRawContent#$1.src[$2]",
		"postcondition of endRawIndex: it returns -1 (then p = len(l.src)) or the position of a '{' found by bytes.IndexByte in src, hence < len(l.src); the loop runs i < p"},
	{"compiler.endRawIndex#$1[$2 - 1]",
		"i ≥ 5 here: i was advanced by 2 and 3 past checked bytes and skipRawSpaces(src, i) returns a value ≥ i and ≤ max(i, len(src)), with i + 3 ≤ len(src) checked just before"},
}

func runC04(r *Run) {
	all := r.P.Funcs("internal/compiler")
	var nonTest []*FuncInfo
	for _, f := range all {
		if !r.P.isTestFile(f.File) {
			nonTest = append(nonTest, f)
		}
	}
	entry := c04GoroutineEntry(r, nonTest)
	if entry == nil {
		return
	}
	c04R1(r, nonTest, entry)
	fns := funcsReachableInPkg(r.P, nonTest, entry)
	runBounds(r, boundsConfig{rule: "R-2", funcs: fns, allFuncs: nonTest, exceptions: c04Exceptions,
		noLift: map[*types.Func]bool{entry.Obj: true}})
	r.Require("R-2", 150)
	c04R3(r)
}

// c04GoroutineEntry resolves, by role, the method started by the `go` statements of package compiler.
func c04GoroutineEntry(r *Run, fns []*FuncInfo) *FuncInfo {
	found := map[*types.Func]bool{}
	for _, fi := range fns {
		ast.Inspect(fi.Decl.Body, func(n ast.Node) bool {
			if g, ok := n.(*ast.GoStmt); ok {
				if c := callee(fi.Pkg.TypesInfo, g.Call); c != nil {
					found[c] = true
				}
			}
			return true
		})
	}
	if len(found) != 1 {
		r.Anchor("R-1", "the single function started with `go` in package compiler (the lexer's scan)", false)
		return nil
	}
	for f := range found {
		for _, fi := range fns {
			if fi.Obj == f {
				return fi
			}
		}
	}
	r.Anchor("R-1", "declaration of the goroutine entry", false)
	return nil
}

// c04R1: goroutine lifetime pairing.
func c04R1(r *Run, fns []*FuncInfo, entry *FuncInfo) {
	const R = "R-1"
	info := entry.Pkg.TypesInfo
	// (a) the channel the goroutine closes, and that it closes it on every non-panicking exit
	var chanField *types.Var
	isClose := func(n ast.Node) bool {
		ok := false
		ast.Inspect(n, func(m ast.Node) bool {
			if c, isCall := m.(*ast.CallExpr); isCall && isBuiltinCall(info, c, "close") && len(c.Args) == 1 {
				if sel, isSel := ast.Unparen(c.Args[0]).(*ast.SelectorExpr); isSel {
					if v, isVar := info.Uses[sel.Sel].(*types.Var); isVar && v.IsField() {
						chanField = v
						ok = true
					}
				}
			}
			return true
		})
		return ok
	}
	g := r.P.CFGOf(entry)
	exits := g.ExitsWithout(g.G.Blocks[0], 0, isClose)
	o := r.Ob(R, entry.Name()+"#close-on-every-exit", entry.Decl.Pos())
	if chanField == nil {
		o.Unknown("the goroutine entry closes no channel field: the stop protocol changed shape")
		return
	}
	if len(exits) == 0 {
		o.OK("every return of %s is preceded by close(%s)", entry.Name(), chanField.Name())
	} else {
		o.Bad("return at %s is reachable without close(%s): a reader ranging over the channel would block forever", r.P.Pos(exits[0].Pos()), chanField.Name())
	}
	// (b) the stop method: drains that channel (for range over the field)
	var stop *FuncInfo
	for _, fi := range fns {
		if fi.Decl.Recv == nil || fi.Obj == entry.Obj {
			continue
		}
		drains := false
		ast.Inspect(fi.Decl.Body, func(n ast.Node) bool {
			if rs, ok := n.(*ast.RangeStmt); ok {
				if sel, ok := ast.Unparen(rs.X).(*ast.SelectorExpr); ok && fi.Pkg.TypesInfo.Uses[sel.Sel] == chanField {
					drains = true
				}
			}
			return true
		})
		if drains {
			if stop != nil {
				stop = nil
				break
			}
			stop = fi
		}
	}
	if !r.Anchor(R, "the method draining the token channel until it is closed (lexer.Stop)", stop != nil) {
		return
	}
	// (c) spawners and their callers
	var spawners []*FuncInfo
	for _, fi := range fns {
		has := false
		ast.Inspect(fi.Decl.Body, func(n ast.Node) bool {
			if gs, ok := n.(*ast.GoStmt); ok && callee(fi.Pkg.TypesInfo, gs.Call) == entry.Obj {
				has = true
			}
			return true
		})
		if has {
			spawners = append(spawners, fi)
		}
	}
	r.Stats["R-1_spawners"] = len(spawners)
	ncallers := 0
	for _, fi := range fns {
		inf := fi.Pkg.TypesInfo
		var spawnCalls []*ast.CallExpr
		ast.Inspect(fi.Decl.Body, func(n ast.Node) bool {
			if c, ok := n.(*ast.CallExpr); ok {
				for _, sp := range spawners {
					if callee(inf, c) == sp.Obj {
						spawnCalls = append(spawnCalls, c)
					}
				}
			}
			return true
		})
		for _, sc := range spawnCalls {
			ncallers++
			o := r.Ob(R, fi.Name()+"#stop-deferred-after-"+exprStr(sc.Fun), sc.Pos())
			cg := r.P.CFGOf(fi)
			blk, idx := cg.Locate(sc)
			if blk == nil {
				o.Unknown("spawn call not found in the control-flow graph (inside a function literal?)")
				continue
			}
			// the next CFG node that contains a call or can leave the function must be the defer
			okDefer := false
			why := "no deferred call to " + stop.Name() + " follows the spawn in the same basic block"
			for i := idx + 1; i < len(blk.Nodes); i++ {
				n := blk.Nodes[i]
				if d, ok := n.(*ast.DeferStmt); ok {
					if c04DeferStops(inf, d, stop.Obj, fns) {
						okDefer = true
					} else {
						why = "the first deferred call after the spawn does not call " + stop.Name() + " unconditionally"
					}
					break
				}
				if len(calls(n, true)) > 0 {
					why = "a call at " + r.P.Pos(n.Pos()) + " can panic between the spawn and the deferred stop"
					break
				}
				if _, isRet := n.(*ast.ReturnStmt); isRet {
					why = "the function can return before the stop is deferred"
					break
				}
			}
			if okDefer {
				o.OK("defer calling %s is registered right after the spawn, before any call or return", stop.Name())
			} else {
				o.Bad("%s: the lexer goroutine would stay blocked on its token channel after %s returns or panics", why, fi.Name())
			}
		}
	}
	r.Require(R, 3)
	_ = ncallers
}

// c04DeferStops: the deferred function calls stop as an unconditional top-level statement (or is the call itself).
func c04DeferStops(info *types.Info, d *ast.DeferStmt, stop *types.Func, fns []*FuncInfo) bool {
	if callee(info, d.Call) == stop {
		return true
	}
	var body *ast.BlockStmt
	if lit, ok := ast.Unparen(d.Call.Fun).(*ast.FuncLit); ok {
		body = lit.Body
	} else if hf := callee(info, d.Call); hf != nil {
		// a handler written as a function of the package: `defer p.stopAndRecover(&tree, &err)`
		for _, h := range fns {
			if h.Obj == hf {
				body = h.Decl.Body
			}
		}
	}
	if body == nil {
		return false
	}
	for _, st := range body.List {
		if es, ok := st.(*ast.ExprStmt); ok {
			if c, ok := es.X.(*ast.CallExpr); ok && callee(info, c) == stop {
				return true
			}
		}
		// statements before the stop call must not be able to leave the closure
		switch st.(type) {
		case *ast.AssignStmt, *ast.DeclStmt:
			if len(calls(st, true)) > 0 {
				return false
			}
		default:
			return false
		}
	}
	return false
}

// c04R3: disassembler tables.
func c04R3(r *Run) {
	const R = "R-3"
	pk := r.P.Pkg("internal/compiler")
	for _, tc := range []struct{ enum, table string }{{"Operation", "operationName"}, {"Condition", "conditionName"}} {
		enum := r.P.Named("internal/runtime", tc.enum)
		// the table: a package-level array of strings whose composite literal is keyed by constants of the enum
		var lit *ast.CompositeLit
		var tvar *types.Var
		for _, f := range pk.Syntax {
			for _, d := range f.Decls {
				gd, ok := d.(*ast.GenDecl)
				if !ok || gd.Tok != token.VAR {
					continue
				}
				for _, sp := range gd.Specs {
					vs := sp.(*ast.ValueSpec)
					for i, v := range vs.Values {
						cl, ok := v.(*ast.CompositeLit)
						if !ok || i >= len(vs.Names) {
							continue
						}
						keyed := 0
						for _, el := range cl.Elts {
							if kv, ok := el.(*ast.KeyValueExpr); ok {
								if c := constOf(pk.TypesInfo, kv.Key); c != nil && enum != nil && types.Identical(c.Type(), enum) {
									keyed++
								}
							}
						}
						if keyed > 0 && keyed == len(cl.Elts) {
							if _, isArr := pk.TypesInfo.TypeOf(cl).Underlying().(*types.Array); isArr {
								if lit != nil && vs.Names[i].Name != tc.table {
									continue
								}
								lit = cl
								tvar, _ = pk.TypesInfo.Defs[vs.Names[i]].(*types.Var)
							}
						}
					}
				}
			}
		}
		if !r.Anchor(R, "array literal keyed by runtime."+tc.enum+" in package compiler ("+tc.table+")", lit != nil && enum != nil && tvar != nil) {
			continue
		}
		elems, _ := keyedElems(pk.TypesInfo, lit)
		arr := pk.TypesInfo.TypeOf(lit).Underlying().(*types.Array)
		for _, c := range EnumConsts(enum) {
			v, _ := constantInt64(c)
			o := r.Ob(R, tvar.Name()+"["+c.Name()+"]", lit.Pos())
			e, has := elems[v]
			switch {
			case v < 0 || v >= arr.Len():
				o.Bad("constant %s = %d is outside the array (length %d): indexing %s with it panics in Disassemble", c.Name(), v, arr.Len(), tvar.Name())
			case !has:
				// inside the array: indexing yields "", which is wrong output but not a panic — outside C04
				o.OK("inside the array (length %d) but without an entry: disassembled with an empty name, no panic", arr.Len())
				r.Note("cosmetic: %s has no entry for %s (empty name in the disassembly); not a violation of C04", tvar.Name(), c.Name())
			default:
				s, _ := stringValue(pk.TypesInfo, e)
				o.OK("entry %q", s)
			}
		}
		// index sites: the index is a constant-case of a switch on the same value, or provably ≥ 0
		for _, fi := range r.P.Funcs("internal/compiler") {
			if r.P.isTestFile(fi.File) {
				continue
			}
			info := fi.Pkg.TypesInfo
			var ba *boundsAnalysis
			ast.Inspect(fi.Decl.Body, func(n ast.Node) bool {
				ix, ok := n.(*ast.IndexExpr)
				if !ok {
					return true
				}
				id, ok := ast.Unparen(ix.X).(*ast.Ident)
				if !ok || info.Uses[id] != tvar {
					return true
				}
				// only values of the enum type itself are negated by the emitter (constant-operand opcodes);
				// operands holding a condition are emitted from runtime.Condition values and stay ≥ 0
				if it := info.TypeOf(ix.Index); it == nil || !types.Identical(it, enum) {
					r.Stats[R+"_operand_indexed_sites"]++
					return true
				}
				o := r.Ob(R, fi.Name()+"#"+exprStr(ix), ix.Pos())
				if why, ok := c04InConstCase(r.P, fi, ix); ok {
					o.OK("%s", why)
					return true
				}
				if ba == nil {
					ba = newBoundsAnalysis(r.P, []*FuncInfo{fi})
					ba.analyse(fi, nil)
				}
				bf := ba.results[fi.Obj]
				if e, ok := bf.linOf(ix.Index); ok {
					if st := bf.stateAt(ix); st != nil {
						if ok, fact := st.proves(newLin().add(e, -1)); ok {
							o.OK("index is non-negative: %s", fact)
							return true
						}
					}
				}
				o.Bad("index %s of %s can be negative here (constant-operand instructions carry the negated opcode): nothing on every path normalises it", exprStr(ix.Index), tvar.Name())
				return true
			})
		}
	}
	r.Require(R, 100)
}

// c04InConstCase: the index expression (modulo a conversion) is the tag of an enclosing switch and the
// site lies in a clause listing only non-negative constants.
func c04InConstCase(p *Prog, fi *FuncInfo, ix *ast.IndexExpr) (string, bool) {
	info := fi.Pkg.TypesInfo
	par := p.Parents(fi.File)
	strip := func(e ast.Expr) string {
		e = ast.Unparen(e)
		if c, ok := e.(*ast.CallExpr); ok && len(c.Args) == 1 {
			if tv, ok := info.Types[c.Fun]; ok && tv.IsType() {
				e = ast.Unparen(c.Args[0])
			}
		}
		return exprStr(e)
	}
	want := strip(ix.Index)
	var child ast.Node = ix
	for n := par[ix]; n != nil; n = par[n] {
		if cc, ok := n.(*ast.CaseClause); ok {
			if sw, ok := par[par[cc]].(*ast.SwitchStmt); ok && sw.Tag != nil && strip(sw.Tag) == want && len(cc.List) > 0 {
				all := true
				for _, e := range cc.List {
					if v, ok := intValue(info, e); !ok || v < 0 {
						all = false
					}
				}
				if all {
					return "inside a clause of `switch " + exprStr(sw.Tag) + "` listing non-negative constants only", true
				}
			}
		}
		if _, ok := n.(*ast.FuncLit); ok {
			break
		}
		child = n
	}
	_ = child
	_ = strings.TrimSpace
	return "", false
}
