package main

// C04 — building never crashes, hangs or leaks (DESIGN.md §5 C04).

import "go/types"

func init() {
	register("C04", &ruleSet{
		explain: "R-2: every index and one-bound slice expression on the scanned buffer in the functions reachable from the lexer goroutine entry (which runs with no recover, so a fault kills the process) is in range on every path, by a linear guard fact or by a precondition discharged at every call site.",
		notCov:  []string{"internal panics of parser/checker/emitter on the calling goroutine", "termination of lexer and parser loops", "slices with two symbolic bounds (listed in notes)"},
		run:     runC04,
	})
}

// Sites of the lexer that are in range by an invariant the engine cannot express (a postcondition of
// another function or a character-class argument). One symbol, one reason; each was confirmed by reading.
var c04Exceptions = []boundsException{
	{"compiler.(*lexer).scan#call:l.emitAtLineColumn(lin, col, tokenText, p)~8",
		"loop invariant p ≤ len(l.src) of the template text loop: p grows only by amounts that are obligations of their own (all discharged) or is assigned a position returned by scanTag / scanAttribute / scanCodeBlock / skipRawContent, each of which returns an index ≤ len(l.src); the call is the flush after the loop ended with p ≥ len(l.src)"},
	{"compiler.(*lexer).lexCode#l.src[utf8.RuneLen(BOM):]",
		"under r == BOM where r, s := utf8.DecodeRune(l.src): decoding U+FEFF consumed utf8.RuneLen(BOM) = 3 bytes of l.src"},
	{"compiler.(*lexer).lexNumber#l.src[p - 1]",
		"character-class argument: lexNumber is called only when l.src[0] is '0'..'9' or '.' followed by a digit (the two call sites in lexCode), and that first byte is consumed by the base-prefix switch, the '.' branch or the first iteration of the DIGITS loop, so p ≥ 1; p - 1 < len(l.src) is proved"},
	{"compiler.(*lexer).skipRawContent#l.src[i]",
		"postcondition of endRawIndex: it returns -1 (then p = len(l.src)) or the position of a '{' found by bytes.IndexByte in src, hence < len(l.src); the loop runs i < p"},
	{"compiler.endRawIndex#src[i - 1]",
		"i ≥ 5 here: i was advanced by 2 and 3 past checked bytes and skipRawSpaces(src, i) returns a value ≥ i and ≤ max(i, len(src)), with i + 3 ≤ len(src) checked just before"},
}

func runC04(r *Run) {
	all := r.P.Funcs("internal/compiler")
	var nonTest []*FuncInfo
	for _, f := range all {
		if !r.P.isTestFile(f.File) {
			nonTest = append(nonTest, f)
		}
	}
	scan := r.NeedFunc("R-2", "internal/compiler", "(*lexer).scan")
	if scan == nil {
		return
	}
	fns := funcsReachableInPkg(r.P, nonTest, scan)
	runBounds(r, boundsConfig{rule: "R-2", funcs: fns, allFuncs: nonTest, exceptions: c04Exceptions,
		noLift: map[*types.Func]bool{scan.Obj: true}})
}
