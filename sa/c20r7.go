package main

// C20 R-7: an operand that the emitter computes with wrapping int8 arithmetic is decoded modulo 256 by the VM.
//
// Registers are numbered 1…127 and instruction operands are int8. When the emitter passes "one past the last
// register of a run" (first + count) the sum reaches 128 for a program that uses its last register, and is
// stored as -128. That is within the limits: the VM must therefore never read such an operand as a signed
// number. It may only take its difference with the operand that holds the other addend's base, in int8
// arithmetic (the wrap cancels: (first+count)-first == count, which fits), or convert it with uint8 first.
// Widening it (int(b)), comparing it, or using it as a register makes a program that is within the 127
// registers limit fail at run time ("slice overflow", wrong element count) instead of behaving as under gc.
//
// The rule is the agreement between how the emitter narrows an operand and how the VM widens the same operand of
// the same opcode:
//
//	emitter   every argument of a function that writes an instruction (a composite literal of
//	          runtime.Instruction) which is an int8 sum whose ideal value can exceed 127, and the instruction
//	          field / opcode it is stored in (read from the literal);
//	VM        every case clause of a switch on a runtime.Operation in package runtime that lists that opcode:
//	          each use of the variable holding that field (found from the assignment that reads the field of
//	          the Instruction) is the minuend of an int8 subtraction whose subtrahend is the variable holding the
//	          field in which the emitter stores the addend, or is converted to an unsigned 8-bit type; a use as
//	          a plain argument of a module function is followed into the callee.

import (
	"fmt"
	"go/ast"
	"go/token"
	"go/types"
	"sort"
	"strings"
)

func init() {
	p := registry["C20"]
	if p == nil {
		return
	}
	run := p.run
	p.run = func(r *Run) { run(r); c20WrapAgreement(r, "R-7") }
	p.explain += " R-7: every instruction operand that the emitter computes as an int8 sum whose ideal value can exceed 127 (one past the last register of a run) is, in every case clause of package runtime that executes that opcode, used only as the minuend of an int8 subtraction by the operand holding the base addend, or after a conversion to uint8 (followed through helpers); any sign-extending use breaks programs that use register 127."
}

type c20Slot struct {
	opName string
	opVal  int64
	field  *types.Var // field of runtime.Instruction
	lit    *ast.CompositeLit
}

type c20r7 struct {
	x      *c20
	r      *Run
	R      string
	instrT *types.Named
	opT    *types.Named
	fields map[*types.Var]bool
}

func c20WrapAgreement(r *Run, R string) {
	x := c20cur
	if !r.Anchor(R, "the C20 analysis state", x != nil && x.r == r) {
		return
	}
	q := &c20r7{x: x, r: r, R: R, fields: map[*types.Var]bool{}}
	q.instrT = r.P.Named("internal/runtime", "Instruction")
	q.opT = r.P.Named("internal/runtime", "Operation")
	if !r.Anchor(R, "runtime.Instruction and runtime.Operation", q.instrT != nil && q.opT != nil) {
		return
	}
	st, _ := q.instrT.Underlying().(*types.Struct)
	if !r.Anchor(R, "runtime.Instruction is a struct", st != nil) {
		return
	}
	for i := 0; i < st.NumFields(); i++ {
		if f := st.Field(i); c20isInt(f.Type()) && c20bits(f.Type()) == 8 && !types.Identical(f.Type(), q.opT) {
			q.fields[f] = true
		}
	}
	if !r.Anchor(R, "8-bit operand fields of runtime.Instruction", len(q.fields) >= 2) {
		return
	}

	// 1. functions writing instructions: parameter -> slots
	slots := map[*types.Var][]c20Slot{}
	writers := 0
	for _, fi := range r.P.Funcs("internal/compiler") {
		if r.P.isTestFile(fi.File) || fi.Obj == nil {
			continue
		}
		info := fi.Pkg.TypesInfo
		found := false
		ast.Inspect(fi.Decl.Body, func(m ast.Node) bool {
			cl, ok := m.(*ast.CompositeLit)
			if !ok || !types.Identical(types.Unalias(info.TypeOf(cl)), q.instrT) {
				return true
			}
			found = true
			var opName string
			var opVal int64
			opKnown := false
			type fv struct {
				f *types.Var
				e ast.Expr
			}
			var vals []fv
			for _, el := range cl.Elts {
				kv, ok := el.(*ast.KeyValueExpr)
				if !ok {
					return true // positional literal: not read
				}
				id, _ := kv.Key.(*ast.Ident)
				if id == nil {
					continue
				}
				f, _ := info.Uses[id].(*types.Var)
				if f == nil {
					continue
				}
				if types.Identical(f.Type(), q.opT) {
					if v, ok := intValue(info, kv.Value); ok {
						opVal, opKnown = v, true
						opName = exprStr(kv.Value)
						if c := constOf(info, kv.Value); c != nil {
							opName = c.Name()
						}
					}
					continue
				}
				if q.fields[f] {
					vals = append(vals, fv{f, kv.Value})
				}
			}
			for _, v := range vals {
				id, ok := ast.Unparen(v.e).(*ast.Ident)
				if !ok {
					continue
				}
				pv, _ := info.Uses[id].(*types.Var)
				if pv == nil || x.paramIndex(fi, pv) < 0 {
					continue
				}
				s := c20Slot{field: v.f, lit: cl}
				if opKnown {
					s.opName, s.opVal = opName, opVal
				}
				slots[pv] = append(slots[pv], s)
			}
			return true
		})
		if found {
			writers++
		}
	}
	if !r.Anchor(R, "functions of package compiler that write a runtime.Instruction literal", writers >= 10) {
		return
	}

	// 2. wrapping sums passed to them
	n := 0
	for _, fi := range r.P.Funcs("internal/compiler") {
		if r.P.isTestFile(fi.File) {
			continue
		}
		info := fi.Pkg.TypesInfo
		ast.Inspect(fi.Decl.Body, func(m ast.Node) bool {
			call, ok := m.(*ast.CallExpr)
			if !ok {
				return true
			}
			fn := callee(info, call)
			wfi := x.funcOf[fn]
			if fn == nil || wfi == nil || call.Ellipsis.IsValid() {
				return true
			}
			sig := fn.Type().(*types.Signature)
			if !q.isWriterParam(slots, sig) {
				return true
			}
			for i, arg := range call.Args {
				if i >= sig.Params().Len() {
					continue
				}
				sum := q.wrappingSum(fi, arg)
				if sum == nil {
					continue
				}
				n++
				q.checkOperand(fi, wfi, call, i, sum, slots)
			}
			return true
		})
	}
	r.Stats["R-7 wrapping operands"] = n
	r.Require(R, 1)
	c20dump(r, R)
}

func (q *c20r7) isWriterParam(slots map[*types.Var][]c20Slot, sig *types.Signature) bool {
	for i := 0; i < sig.Params().Len(); i++ {
		if len(slots[sig.Params().At(i)]) > 0 {
			return true
		}
	}
	return false
}

// wrappingSum returns e (or the single definition of the local e) when it is a non-constant signed 8-bit sum whose
// ideal value can exceed the type.
func (q *c20r7) wrappingSum(fi *FuncInfo, e ast.Expr) *ast.BinaryExpr {
	info := fi.Pkg.TypesInfo
	e = ast.Unparen(e)
	if id, ok := e.(*ast.Ident); ok {
		if d := q.x.singleDef(fi, info.Uses[id]); d != nil {
			e = ast.Unparen(d)
		}
	}
	be, ok := e.(*ast.BinaryExpr)
	if !ok || be.Op != token.ADD {
		return nil
	}
	tv := info.Types[be]
	if tv.Value != nil || tv.Type == nil || !c20isInt(tv.Type) || c20bits(tv.Type) != 8 || c20unsigned(tv.Type) {
		return nil
	}
	ctx := &c20ctx{fi: fi}
	a, b := q.x.ub(ctx, be.X), q.x.ub(ctx, be.Y)
	if a.max < c20Inf && b.max < c20Inf && a.max+b.max <= c20typeMax(tv.Type) {
		return nil
	}
	return be
}

func (q *c20r7) checkOperand(fi, wfi *FuncInfo, call *ast.CallExpr, argIdx int, sum *ast.BinaryExpr, slots map[*types.Var][]c20Slot) {
	r, R := q.r, q.R
	sig := wfi.Obj.Type().(*types.Signature)
	param := sig.Params().At(argIdx)
	keyBase := fmt.Sprintf("%s#%s(%s)", fi.Name(), wfi.Obj.Name(), param.Name())
	ss := slots[param]
	if len(ss) == 0 {
		r.Ob(R, keyBase, call.Pos()).Unknown("the int8 sum %s can exceed 127 and wrap, and it is passed to %s, which writes instructions, in a parameter that is not stored as such in an operand: the decoder that must undo the wrap cannot be identified", exprStr(sum), wfi.Name())
		return
	}
	// the base: another argument of the call equal to one of the addends
	baseArg := -1
	var baseExpr ast.Expr
	for _, add := range []ast.Expr{sum.X, sum.Y} {
		for j, a := range call.Args {
			if j != argIdx && q.x.norm(fi, a) == q.x.norm(fi, add) {
				baseArg, baseExpr = j, add
			}
		}
	}
	for _, s := range ss {
		if s.opName == "" {
			r.Ob(R, keyBase+"->"+s.field.Name(), call.Pos()).Unknown("the int8 sum %s can exceed 127 and wrap; it is stored in operand %s of an instruction whose opcode is not a constant", exprStr(sum), s.field.Name())
			continue
		}
		// the field holding the base in the same literal
		var baseField *types.Var
		if baseArg >= 0 && baseArg < sig.Params().Len() {
			for _, bs := range slots[sig.Params().At(baseArg)] {
				if bs.lit == s.lit {
					baseField = bs.field
				}
			}
		}
		q.checkDecoders(keyBase, call, sum, baseExpr, s, baseField)
	}
}

// checkDecoders finds the case clauses of package runtime executing the opcode and audits the uses of the operand.
func (q *c20r7) checkDecoders(keyBase string, call *ast.CallExpr, sum *ast.BinaryExpr, baseExpr ast.Expr, s c20Slot, baseField *types.Var) {
	r, R := q.r, q.R
	clauses := 0
	for _, fi := range r.P.Funcs("internal/runtime") {
		if r.P.isTestFile(fi.File) {
			continue
		}
		info := fi.Pkg.TypesInfo
		for _, sw := range switchesOn(info, fi.Decl.Body, q.opT) {
			for _, st := range sw.Body.List {
				cc, ok := st.(*ast.CaseClause)
				if !ok {
					continue
				}
				lists := false
				for _, e := range cc.List {
					if v, ok := intValue(info, e); ok && (v == s.opVal || v == -s.opVal) {
						lists = true
					}
				}
				if !lists {
					continue
				}
				clauses++
				key := fmt.Sprintf("%s->%s.%s@%s", keyBase, s.opName, s.field.Name(), fi.Name())
				o := r.Ob(R, key, cc.Pos())
				vars := q.operandVars(fi, s.field)
				var baseVars map[types.Object]bool
				if baseField != nil {
					baseVars = q.operandVars(fi, baseField)
				}
				var body ast.Node = &ast.BlockStmt{List: cc.Body, Lbrace: cc.Colon, Rbrace: cc.End()}
				good, bad := q.auditUses(fi, body, vars, s.field, baseVars, baseField, 0)
				what := fmt.Sprintf("operand %s of %s is computed by the emitter as the int8 sum %s, which is 128 -> -128 when the last register is 127", s.field.Name(), s.opName, exprStr(sum))
				switch {
				case len(bad) > 0:
					o.Bad("%s; the VM must undo the wrap but %s: a program within the registers limit is executed wrongly", what, strings.Join(bad, "; "))
				case len(good) == 0:
					o.OK("%s; the case clause does not read the operand", what)
				default:
					o.OK("%s; every use in the VM is modulo 256: %s", what, strings.Join(c20uniq(sortStrings(good)), "; "))
				}
			}
		}
	}
	if clauses == 0 {
		r.Ob(R, fmt.Sprintf("%s->%s.%s", keyBase, s.opName, s.field.Name()), call.Pos()).Unknown("no case clause of a switch on runtime.Operation in package runtime lists %s: the decoder of the wrapping operand %s was not found", s.opName, s.field.Name())
	}
}

// operandVars: the variables of fi assigned from the given field of an Instruction value.
func (q *c20r7) operandVars(fi *FuncInfo, field *types.Var) map[types.Object]bool {
	info := fi.Pkg.TypesInfo
	out := map[types.Object]bool{}
	isField := func(e ast.Expr) bool {
		se, ok := ast.Unparen(e).(*ast.SelectorExpr)
		if !ok {
			return false
		}
		sel := info.Selections[se]
		return sel != nil && sel.Obj() == types.Object(field)
	}
	ast.Inspect(fi.Decl.Body, func(m ast.Node) bool {
		switch s := m.(type) {
		case *ast.AssignStmt:
			if len(s.Lhs) != len(s.Rhs) {
				return true
			}
			for i, rhs := range s.Rhs {
				if !isField(rhs) {
					continue
				}
				if id, ok := ast.Unparen(s.Lhs[i]).(*ast.Ident); ok {
					if o := info.Defs[id]; o != nil {
						out[o] = true
					} else if o := info.Uses[id]; o != nil {
						out[o] = true
					}
				}
			}
		case *ast.ValueSpec:
			if len(s.Names) == len(s.Values) {
				for i, v := range s.Values {
					if isField(v) {
						out[info.Defs[s.Names[i]]] = true
					}
				}
			}
		}
		return true
	})
	return out
}

// auditUses classifies every use of the operand inside body.
func (q *c20r7) auditUses(fi *FuncInfo, body ast.Node, vars map[types.Object]bool, field *types.Var, baseVars map[types.Object]bool, baseField *types.Var, depth int) (good, bad []string) {
	info := fi.Pkg.TypesInfo
	par := q.r.P.Parents(fi.File)
	isUse := func(e ast.Expr, vs map[types.Object]bool, f *types.Var) bool {
		switch v := ast.Unparen(e).(type) {
		case *ast.Ident:
			return vs[info.Uses[v]]
		case *ast.SelectorExpr:
			if sel := info.Selections[v]; sel != nil && f != nil && sel.Obj() == types.Object(f) {
				return true
			}
		}
		return false
	}
	var uses []ast.Expr
	ast.Inspect(body, func(m ast.Node) bool {
		switch v := m.(type) {
		case *ast.SelectorExpr:
			if isUse(v, nil, field) {
				uses = append(uses, v)
				return false
			}
		case *ast.Ident:
			if vars[info.Uses[v]] {
				uses = append(uses, v)
			}
		}
		return true
	})
	for _, u := range uses {
		var child ast.Node = u
		p := par[u]
		for {
			if pe, ok := p.(*ast.ParenExpr); ok {
				child, p = pe, par[pe]
				continue
			}
			break
		}
		where := q.r.P.Pos(u.Pos())
		switch pn := p.(type) {
		case *ast.BinaryExpr:
			t := info.TypeOf(pn)
			if pn.Op == token.SUB && pn.X == child && t != nil && c20isInt(t) && c20bits(t) == 8 && (baseVars != nil || baseField != nil) && isUse(pn.Y, baseVars, baseField) {
				good = append(good, fmt.Sprintf("%s in %s arithmetic, the subtrahend being the operand that holds the base", exprStr(pn), typeStr(t)))
				continue
			}
			bad = append(bad, fmt.Sprintf("%s at %s is not its int8 difference with the operand holding the base addend", exprStr(pn), where))
			continue
		case *ast.CallExpr:
			if tv, ok := info.Types[pn.Fun]; ok && tv.IsType() && len(pn.Args) == 1 {
				if c20isInt(tv.Type) && c20bits(tv.Type) == 8 && c20unsigned(tv.Type) {
					good = append(good, fmt.Sprintf("%s", exprStr(pn)))
					continue
				}
				if c20isInt(tv.Type) && c20bits(tv.Type) == 8 {
					// same width, signed: nothing happens yet; follow the converted value
					bad = append(bad, fmt.Sprintf("%s at %s keeps it signed", exprStr(pn), where))
					continue
				}
				bad = append(bad, fmt.Sprintf("%s at %s sign-extends the wrapped value", exprStr(pn), where))
				continue
			}
			// plain argument of a module function: follow
			if fn := callee(info, pn); fn != nil && depth < 3 {
				if cfi := q.x.funcOf[fn]; cfi != nil && !pn.Ellipsis.IsValid() {
					sig := fn.Type().(*types.Signature)
					idx, bidx := -1, -1
					for i, a := range pn.Args {
						if a == child {
							idx = i
						} else if (baseVars != nil || baseField != nil) && isUse(a, baseVars, baseField) {
							bidx = i
						}
					}
					if idx >= 0 && idx < sig.Params().Len() && !(sig.Variadic() && idx >= sig.Params().Len()-1) {
						pv := map[types.Object]bool{sig.Params().At(idx): true}
						var bv map[types.Object]bool
						if bidx >= 0 && bidx < sig.Params().Len() {
							bv = map[types.Object]bool{sig.Params().At(bidx): true}
						}
						if len(q.x.defsOf(cfi, sig.Params().At(idx))) == 0 {
							g, b := q.auditUses(cfi, cfi.Decl.Body, pv, nil, bv, nil, depth+1)
							for _, s := range g {
								good = append(good, s+" (in "+cfi.Name()+")")
							}
							bad = append(bad, b...)
							if len(g) == 0 && len(b) == 0 {
								good = append(good, "passed to "+cfi.Name()+", which does not read it")
							}
							continue
						}
					}
				}
			}
			bad = append(bad, fmt.Sprintf("%s at %s receives it as a signed value", exprStr(pn.Fun), where))
			continue
		case *ast.AssignStmt:
			// the definition of the operand variable itself (a = in.A) is not a use
			isLhs := false
			for _, l := range pn.Lhs {
				if l == child {
					isLhs = true
				}
			}
			if isLhs {
				continue
			}
			if _, ok := u.(*ast.SelectorExpr); ok {
				// in.B on the right-hand side of the assignment defining the operand variable
				defines := false
				for i, rhs := range pn.Rhs {
					if rhs == child && i < len(pn.Lhs) {
						if id, ok := ast.Unparen(pn.Lhs[i]).(*ast.Ident); ok && (vars[info.Uses[id]] || vars[info.Defs[id]]) {
							defines = true
						}
					}
				}
				if defines {
					continue
				}
			}
		}
		bad = append(bad, fmt.Sprintf("it is used as a signed value at %s", where))
	}
	sort.Strings(bad)
	return good, c20uniq(bad)
}
