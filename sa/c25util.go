package main

// helper shared by C25 R-9 and R-12 (from the rule author's R-10, which was not shipped: it reported
// every fast path in front of a forwarded library call as undecided, correct ones included)

import (
	"go/ast"
	"go/token"
	"go/types"
)

// c25SingleDef returns the single right-hand side assigned to o in body, nil if there is none or several.
func c25SingleDef(info *types.Info, body *ast.BlockStmt, o types.Object) ast.Expr {
	var rhs ast.Expr
	n := 0
	ast.Inspect(body, func(m ast.Node) bool {
		switch x := m.(type) {
		case *ast.AssignStmt:
			for i, l := range x.Lhs {
				if objOfIdent(info, l) == o {
					n++
					if len(x.Lhs) == len(x.Rhs) && (x.Tok == token.DEFINE || x.Tok == token.ASSIGN) {
						rhs = x.Rhs[i]
					} else {
						n++
					}
				}
			}
		case *ast.ValueSpec:
			for i, id := range x.Names {
				if info.Defs[id] == o {
					n++
					if len(x.Values) == len(x.Names) {
						rhs = x.Values[i]
					} else if len(x.Values) != 0 {
						n++
					}
				}
			}
		case *ast.IncDecStmt:
			if objOfIdent(info, x.X) == o {
				n += 2
			}
		case *ast.RangeStmt:
			if objOfIdent(info, x.Key) == o || objOfIdent(info, x.Value) == o {
				n += 2
			}
		case *ast.UnaryExpr:
			if x.Op == token.AND && objOfIdent(info, x.X) == o {
				n += 2
			}
		}
		return true
	})
	if n != 1 {
		return nil
	}
	return rhs
}

// c25ForwardOf reads e as a call of a function outside the module with exactly the parameters of sig.
