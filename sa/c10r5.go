package main

// C10 R-5 / C19 R-7 (added after seeded change C19-3): a recycled argument slice carries no decision.
//
// The reflect.Value slots of the argument slice taken from NativeFunction.argsPool still hold what an
// earlier call — of another run, with another environment and print hook — stored in them. Every slot that
// is passed to the native function is overwritten before the call; that overwrite must not depend on the
// slot's previous content. In the function that takes the slice from the pool, no branch condition may
// read the value of a slot (IsNil, IsZero, IsValid, Interface, Int, …; reading its static Type is fine).

import (
	"go/ast"
	"go/types"
	"strings"
)

func init() {
	// (C19 R-7 is chained in c19r6.go, which is initialised after c19.go)
	for _, reg := range []struct{ id, rule string }{{"C10", "R-5"}} {
		p := registry[reg.id]
		if p == nil {
			continue
		}
		run, rule := p.run, reg.rule
		p.run = func(r *Run) { run(r); c10PooledSlots(r, rule) }
		p.explain += " " + reg.rule + ": in the function taking the argument slice from the pool, no branch condition reads the previous value of a slot (stale state of an earlier run)."
	}
}

func c10PooledSlots(r *Run, R string) {
	n := 0
	for _, fi := range r.P.Funcs("internal/runtime") {
		if r.P.isTestFile(fi.File) {
			continue
		}
		info := fi.Pkg.TypesInfo
		// locals assigned from <x>.Get() of a sync.Pool (possibly through a type assertion)
		pooled := map[types.Object]bool{}
		ast.Inspect(fi.Decl.Body, func(m ast.Node) bool {
			as, ok := m.(*ast.AssignStmt)
			if !ok || len(as.Lhs) != 1 || len(as.Rhs) != 1 {
				return true
			}
			rhs := ast.Unparen(as.Rhs[0])
			if ta, ok := rhs.(*ast.TypeAssertExpr); ok {
				rhs = ast.Unparen(ta.X)
			}
			c, ok := rhs.(*ast.CallExpr)
			if !ok {
				return true
			}
			if f := callee(info, c); f != nil && isPkgFunc(f, "sync", "Pool", "Get") {
				if o := objOfIdent(info, as.Lhs[0]); o != nil {
					pooled[o] = true
				}
			}
			return true
		})
		if len(pooled) == 0 {
			continue
		}
		readsSlotValue := func(cond ast.Expr) string {
			bad := ""
			ast.Inspect(cond, func(m ast.Node) bool {
				c, ok := m.(*ast.CallExpr)
				if !ok {
					return true
				}
				sel, ok := c.Fun.(*ast.SelectorExpr)
				if !ok {
					return true
				}
				if rootIdentObj(info, sel.X) == nil || !pooled[rootIdentObj(info, sel.X)] {
					return true
				}
				switch sel.Sel.Name {
				case "Type", "Kind", "CanSet", "CanAddr":
					return true
				}
				bad = exprStr(c)
				return true
			})
			// direct comparisons of a slot
			ast.Inspect(cond, func(m ast.Node) bool {
				if be, ok := m.(*ast.BinaryExpr); ok {
					for _, side := range []ast.Expr{be.X, be.Y} {
						if ix, ok := ast.Unparen(side).(*ast.IndexExpr); ok && pooled[rootIdentObj(info, ix.X)] {
							bad = exprStr(be)
						}
					}
				}
				return true
			})
			return bad
		}
		ncond := 0
		ast.Inspect(fi.Decl.Body, func(m ast.Node) bool {
			var cond ast.Expr
			switch s := m.(type) {
			case *ast.IfStmt:
				cond = s.Cond
			case *ast.SwitchStmt:
				cond = s.Tag
			case *ast.ForStmt:
				cond = s.Cond
			}
			if cond == nil {
				return true
			}
			ncond++
			if bad := readsSlotValue(cond); bad != "" {
				n++
				r.Ob(R, fi.Name()+"#condition-on-pooled-slot:"+strings.ReplaceAll(bad, " ", ""), cond.Pos()).Bad("the branch condition reads %s, the value an earlier call left in the recycled argument slice: what this call does depends on a previous run (its environment, its print hook, its arguments)", bad)
			}
			return true
		})
		n++
		r.Ob(R, fi.Name()+"#pooled-slots", fi.Decl.Pos()).OK("%d branch conditions inspected in the function taking the slice from the pool", ncond)
	}
	r.Require(R, 1)
}
