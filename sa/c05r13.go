package main

// C05 R-13 (added after defects reported on the unmodified tree: plain recursion ending exactly at the top
// of the register stack, a deferred call at the boundary, a go statement near the top).
//
// The registers of a class are addressed regs[fp+1] … regs[fp+NumReg] (register numbers start at 1), and
// vm.st[k] is the length of the k-th register array (R-13c). Hence:
//
//   R-13a  a growth check `if L <op> vm.st[k] { vm.more…Stack() }` must grow when L == vm.st[k]: with `>`
//          the index L — the last register of the new frame, or the last element swapStack moves — is out
//          of range by one and the host panics with "index out of range [1024] with length 1024". The
//          operator must be `>=` (or L must carry a constant addend ≥ 1 with `>`).
//   R-13b  a slice of a register array whose upper bound is the frame pointer plus a constant (a window
//          that is not a set of registers of the current frame) is clamped by the size of the stack
//          (min(…, vm.st[k]) or len of the array): fp+127 exceeds the array near the top of the stack.
//   R-13c  vm.st[k] is only ever assigned the length of the k-th register array (len(vm.regs.X), or the
//          variable the array was just made with), so that the comparisons of R-13a are about the array.

import (
	"go/ast"
	"go/token"
	"go/types"
	"strings"
)

func init() {
	p := registry["C05"]
	if p == nil {
		return
	}
	run := p.run
	p.run = func(r *Run) { run(r); c05StackLimits(r) }
	p.explain += " R-13: the register stack grows whenever the last index used equals its size (registers are 1-based: `>=`, not `>`), windows of fp+constant are clamped by the size, and vm.st is always the length of the register array."
}

func c05StackLimits(r *Run) {
	const R = "R-13"
	nGrow, nSt := 0, 0
	for _, fi := range r.P.Funcs("internal/runtime") {
		if r.P.isTestFile(fi.File) {
			continue
		}
		info := fi.Pkg.TypesInfo
		// vm.st[k]: an index expression on a field named st of type [4]Addr
		isSt := func(e ast.Expr) bool {
			ix, ok := ast.Unparen(e).(*ast.IndexExpr)
			if !ok {
				return false
			}
			sel, ok := ast.Unparen(ix.X).(*ast.SelectorExpr)
			if !ok || sel.Sel.Name != "st" {
				return false
			}
			s, ok := info.Selections[sel]
			if !ok {
				return false
			}
			_, isArr := s.Obj().Type().Underlying().(*types.Array)
			return isArr
		}
		isRegArray := func(e ast.Expr) bool {
			sel, ok := ast.Unparen(e).(*ast.SelectorExpr)
			if !ok {
				return false
			}
			s, ok := info.Selections[sel]
			if !ok {
				return false
			}
			inner, ok := ast.Unparen(sel.X).(*ast.SelectorExpr)
			return ok && inner.Sel.Name == "regs" && s.Obj().(*types.Var).IsField()
		}
		callsGrow := func(b *ast.BlockStmt) bool {
			for _, c := range calls(b, false) {
				if f := callee(info, c); f != nil && strings.HasPrefix(f.Name(), "more") && strings.HasSuffix(f.Name(), "Stack") {
					return true
				}
			}
			return false
		}
		idx := map[string]int{}
		ast.Inspect(fi.Decl.Body, func(m ast.Node) bool {
			switch s := m.(type) {
			case *ast.IfStmt:
				be, ok := ast.Unparen(s.Cond).(*ast.BinaryExpr)
				if !ok || !callsGrow(s.Body) {
					return true
				}
				var L ast.Expr
				op := be.Op
				switch {
				case isSt(be.Y):
					L = be.X
				case isSt(be.X):
					L = be.Y
					// mirror the operator
					switch op {
					case token.LSS:
						op = token.GTR
					case token.LEQ:
						op = token.GEQ
					case token.GTR:
						op = token.LSS
					case token.GEQ:
						op = token.LEQ
					}
				default:
					return true
				}
				nGrow++
				key := fi.Name() + "#grow:" + strings.ReplaceAll(exprStr(s.Cond), " ", "")
				idx[key]++
				if idx[key] > 1 {
					key += "~" + itoa(idx[key])
				}
				o := r.Ob(R, key, s.Pos())
				constAddend := func(e ast.Expr) bool {
					found := false
					var walk func(e ast.Expr)
					walk = func(e ast.Expr) {
						e = ast.Unparen(e)
						if b, ok := e.(*ast.BinaryExpr); ok && b.Op == token.ADD {
							walk(b.X)
							walk(b.Y)
							return
						}
						if v, ok := intValue(info, e); ok && v >= 1 {
							found = true
						}
					}
					walk(e)
					return found
				}
				switch {
				case op == token.GEQ:
					o.OK("grows when %s reaches the size of the stack", exprStr(L))
				case op == token.GTR && constAddend(L):
					o.OK("grows when %s (with its constant addend) exceeds the size", exprStr(L))
				default:
					o.Bad("the stack is grown only when %s %s vm.st: when they are equal no growth happens and the register (or element) at index %s — the last one of the frame, registers being addressed from fp+1 — is one past the end of the array: index out of range in the host", exprStr(L), op, exprStr(L))
				}
			case *ast.SliceExpr:
				if s.High == nil || !isRegArray(s.X) {
					return true
				}
				// upper bound: <frame pointer> + constant ?
				hb, ok := ast.Unparen(s.High).(*ast.BinaryExpr)
				if !ok || hb.Op != token.ADD {
					return true
				}
				if _, isConst := intValue(info, hb.Y); !isConst {
					return true
				}
				nGrow++
				o := r.Ob(R, fi.Name()+"#window:"+strings.ReplaceAll(exprStr(s), " ", ""), s.Pos())
				o.Bad("the upper bound %s of a slice of the register array is the frame pointer plus a constant, with no clamp by the size of the stack: near the top of the stack it exceeds the array (slice bounds out of range in the host)", exprStr(s.High))
			case *ast.AssignStmt:
				for i, l := range s.Lhs {
					if !isSt(l) || len(s.Lhs) != len(s.Rhs) {
						continue
					}
					nSt++
					rhs := ast.Unparen(s.Rhs[i])
					if c, ok := rhs.(*ast.CallExpr); ok && len(c.Args) == 1 {
						if tv, ok := info.Types[c.Fun]; ok && tv.IsType() {
							rhs = ast.Unparen(c.Args[0]) // Addr(x)
						}
					}
					key := fi.Name() + "#st:" + strings.ReplaceAll(exprStr(l), " ", "")
					o := r.Ob(R, key, s.Pos())
					okLen := false
					if c, ok := rhs.(*ast.CallExpr); ok && isBuiltinCall(info, c, "len") && isRegArray(c.Args[0]) {
						okLen = true
					} else if id, ok := rhs.(*ast.Ident); ok {
						// top := …; stack := make([]T, top); vm.regs.X = stack; vm.st[k] = Addr(top)
						obj := info.Uses[id]
						madeWith := false
						ast.Inspect(fi.Decl.Body, func(q ast.Node) bool {
							if c, ok := q.(*ast.CallExpr); ok && isBuiltinCall(info, c, "make") && len(c.Args) == 2 {
								if a, ok := ast.Unparen(c.Args[1]).(*ast.Ident); ok && info.Uses[a] == obj {
									madeWith = true
								}
							}
							return true
						})
						okLen = madeWith
					}
					if okLen {
						o.OK("assigned the length of the register array")
					} else {
						o.Bad("vm.st is assigned %s, which is not visibly the length of the register array: the growth checks compare with a size that is not the array's", exprStr(s.Rhs[i]))
					}
				}
			}
			return true
		})
	}
	// composite literal initialising st together with the arrays (create): checked by R-13c only through
	// the constant both use
	r.Require(R, 20)
	_ = nSt
}

func itoa(n int) string {
	if n == 0 {
		return "0"
	}
	s := ""
	for n > 0 {
		s = string(rune('0'+n%10)) + s
		n /= 10
	}
	return s
}
