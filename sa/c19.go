package main

// C19 — code can reach only the host functionality the embedder supplies.
//
// R-1 (E3+E4+E5) imports: the importer is asked for the path written in the import node, a missing
//                package or an error fails the build, and the only packages turned into declarations
//                are the importer's result, the embedder's globals and packages those declare
// R-2 (E4b+E3)   go gate: the *ast.Go clause of the checker tests the allow flag on every normal path;
//                the Go instruction is emitted only under a flag that is true only in the emitter's
//                *ast.Go clause; the flag is copied from BuildOptions.AllowGoStmt
// R-3 (E3)       reflect.Value.Call/CallSlice only on a compiled NativeFunction's value;
//                reflect.MakeFunc only around the interpreter
// R-4 (E1)       the universe scope holds Go's predeclared names only and no host value
// R-5 (E3+E4)    the print builtin goes through the configured hook
//
// See /verif/DESIGN.md §5 C19.

import (
	"go/ast"
	"go/token"
	"go/types"
	"sort"
	"strings"

	"golang.org/x/tools/go/cfg"
)

func init() {
	register("C19", &ruleSet{
		explain: "Structural conditions of confinement. (R-1) Every invocation of native.Importer.Import outside an importer combinator passes the Path field of the *ast.Import node being checked; from that call no use of the returned package and no success return is reachable on a path where the package may be nil or the error non-nil; every call of a compiler function taking a native.ImportablePackage (toTypeCheckerScope) is given the importer's result, a native.Package literal built from the checker option copied from Options.Globals, or - inside that function - a package obtained from Lookup on its own parameter. (R-2) In each type-switch clause for *ast.Go in a method of the type checker every path that leaves the clause crosses the true edge of the allow flag; every use of runtime.OpGo as a value lies in one emitter whose every call is under the true edge of a bool parameter, and every caller passes false, its own such parameter, or true inside a type-switch clause for *ast.Go; the flag's only writers copy Options.AllowGoStmt, whose only writers copy BuildOptions.AllowGoStmt. (R-3) Every reflect.Value.Call/CallSlice in the module has as receiver the value field of a *runtime.NativeFunction; every reflect.MakeFunc is in a method of runtime.callable around a closure that runs the interpreter; one reviewed exception each. (R-4) Every key of the universe scope literal is a predeclared identifier of Go (go/types.Universe) or a listed Scriggo placeholder, and no entry sets the field that carries host values. (R-5) Every call of the builtin print/println in compiler and runtime is in the function that reads the env's print hook, under the edge hook == nil; the OpPrint clause and Env.Print/Println reach the output only through that function; the hook field is written only by SetPrint.",
		notCov: []string{
			"methods of supplied values invoked directly by the runtime through Go interfaces (Stringer, error, HTMLStringer, io.Writer, the Markdown converter): supplied functionality by definition",
			"what a supplied function does with the values it receives (reflection on them is the embedder's code)",
			"flow of typeInfo values from toTypeCheckerScope's map into scopes.Declare (deep heap flow, not decided)",
			"conversions and builtins reaching host code through reflect operations other than Call/CallSlice/MakeFunc",
		},
		trusted: []string{"reflect: only Call, CallSlice and a MakeFunc'ed function execute function values", "go/types.Universe as the list of Go's predeclared identifiers"},
		run:     runC19,
	})
}

// c19exceptions: one symbol, one reason.
var c19exceptions = map[string]string{
	"R-3 compiler.(*typechecker).checkMethodExpression#reflect.Value.Call": "method expression I.M on an interface type: the MakeFunc'ed value calls method M (resolved on I by reflect at check time, exported) on the receiver the program passes as first argument; same reach as the method call x.M()",
	"R-3 compiler.(*typechecker).checkMethodExpression#reflect.MakeFunc":   "builds the function value of the method expression above; its closure contains only that call",
	"R-4 itea": "Scriggo's predeclared identifier of the using statement; a placeholder typeInfo without type or value",
}

var c19pkgs = []string{"", "internal/compiler", "internal/compiler/types", "internal/runtime", "native", "builtin", "ast", "ast/astutil"}

type c19 struct {
	r   *Run
	fns []*FuncInfo
}

func runC19(r *Run) {
	x := &c19{r: r}
	for _, rel := range c19pkgs {
		for _, fi := range r.P.Funcs(rel) {
			if fi.Obj != nil && !r.P.isTestFile(fi.File) {
				x.fns = append(x.fns, fi)
			}
		}
	}
	sort.Slice(x.fns, func(i, j int) bool { return x.fns[i].Decl.Pos() < x.fns[j].Decl.Pos() })
	r.Require("R-1", 5)
	r.Require("R-2", 21)
	r.Require("R-3", 6)
	r.Require("R-4", 40)
	r.Require("R-5", 5)
	x.imports()
	x.goGate()
	x.hostCalls()
	x.universe()
	x.printHook()
}

func c19fieldOf(info *types.Info, e ast.Expr) *types.Var {
	sel, ok := ast.Unparen(e).(*ast.SelectorExpr)
	if !ok {
		return nil
	}
	if s := info.Selections[sel]; s != nil && s.Kind() == types.FieldVal {
		v, _ := s.Obj().(*types.Var)
		return v
	}
	return nil
}

func c19structField(t *types.Named, name string) *types.Var {
	if t == nil {
		return nil
	}
	st, ok := t.Underlying().(*types.Struct)
	if !ok {
		return nil
	}
	for i := 0; i < st.NumFields(); i++ {
		if st.Field(i).Name() == name {
			return st.Field(i)
		}
	}
	return nil
}

// fieldWrites lists the value expressions written to field f anywhere in the analysed packages:
// keyed composite literal elements and assignments.
type c19write struct {
	fi  *FuncInfo
	val ast.Expr
	pos token.Pos
}

func (x *c19) fieldWrites(f *types.Var) []c19write {
	var out []c19write
	for _, fi := range x.fns {
		info := fi.Pkg.TypesInfo
		ast.Inspect(fi.Decl.Body, func(n ast.Node) bool {
			switch s := n.(type) {
			case *ast.CompositeLit:
				t := info.TypeOf(s)
				if t == nil {
					return true
				}
				if p, ok := t.Underlying().(*types.Pointer); ok {
					t = p.Elem()
				}
				st, ok := t.Underlying().(*types.Struct)
				if !ok {
					return true
				}
				for i, el := range s.Elts {
					if kv, ok := el.(*ast.KeyValueExpr); ok {
						if id, ok := kv.Key.(*ast.Ident); ok && info.Uses[id] == types.Object(f) {
							out = append(out, c19write{fi, kv.Value, kv.Pos()})
						}
					} else if i < st.NumFields() && st.Field(i) == f {
						out = append(out, c19write{fi, el, el.Pos()})
					}
				}
			case *ast.AssignStmt:
				for i, l := range s.Lhs {
					if c19fieldOf(info, l) == f {
						var v ast.Expr
						if len(s.Rhs) == len(s.Lhs) {
							v = s.Rhs[i]
						}
						out = append(out, c19write{fi, v, s.Pos()})
					}
				}
			case *ast.IncDecStmt:
				if c19fieldOf(info, s.X) == f {
					out = append(out, c19write{fi, nil, s.Pos()})
				}
			case *ast.UnaryExpr:
				if s.Op == token.AND && c19fieldOf(info, s.X) == f {
					out = append(out, c19write{fi, nil, s.Pos()})
				}
			}
			return true
		})
	}
	return out
}

// copyChain checks that every write to field `to` copies field `from`.
func (x *c19) copyChain(rule string, to, from *types.Var, toName, fromName string, min int) {
	r := x.r
	ws := x.fieldWrites(to)
	for _, w := range ws {
		o := r.Ob(rule, funcKey(w.fi.Obj)+"#write:"+toName, w.pos)
		if w.val != nil && c19fieldOf(w.fi.Pkg.TypesInfo, w.val) == from {
			o.OK("%s is written with %s", toName, exprStr(w.val))
		} else if w.val == nil {
			o.Bad("%s is modified or its address is taken in %s", toName, funcKey(w.fi.Obj))
		} else {
			o.Bad("%s is written with %s, not with %s", toName, exprStr(w.val), fromName)
		}
	}
	if len(ws) < min {
		r.Ob(rule, "anchor:write:"+toName, token.NoPos).Unknown("%d writes of %s found, expected at least %d", len(ws), toName, min)
	}
}

// ---------------------------------------------------------------------------
// R-1

func (x *c19) imports() {
	r := x.r
	importer := r.P.Named("native", "Importer")
	ipkg := r.P.Named("native", "ImportablePackage")
	astImport := r.P.Named("ast", "Import")
	if !r.Anchor("R-1", "native.Importer, native.ImportablePackage, ast.Import", importer != nil && ipkg != nil && astImport != nil) {
		return
	}
	iface, _ := importer.Underlying().(*types.Interface)
	pkgIface, _ := ipkg.Underlying().(*types.Interface)
	if !r.Anchor("R-1", "native.Importer is an interface with one method", iface != nil && iface.NumMethods() == 1 && pkgIface != nil) {
		return
	}
	mname := iface.Method(0).Name()
	importResults := map[types.Object]bool{} // variables holding an importer's package result in the compiler

	for _, fi := range x.fns {
		info := fi.Pkg.TypesInfo
		par := r.P.Parents(fi.File)
		for _, c := range calls(fi.Decl.Body, true) {
			sel, ok := ast.Unparen(c.Fun).(*ast.SelectorExpr)
			if !ok || sel.Sel.Name != mname {
				continue
			}
			rt := info.TypeOf(sel.X)
			if rt == nil || !types.Implements(rt, iface) {
				continue
			}
			key := funcKey(fi.Obj)
			// an importer combinator delegating to its elements
			if sig := fi.Obj.Type().(*types.Signature); sig.Recv() != nil && types.Implements(sig.Recv().Type(), iface) {
				r.Ob("R-1", key+"#delegates-Import", c.Pos()).Trivial("importer combinator: %s implements native.Importer and delegates (contract checked by C22 R-5)", typeStr(sig.Recv().Type()))
				continue
			}
			// path provenance
			o := r.Ob("R-1", key+"#import-path", c.Pos())
			okPath := false
			if len(c.Args) == 1 {
				if f := c19fieldOf(info, c.Args[0]); f != nil && f.Name() == "Path" {
					if s, ok := ast.Unparen(c.Args[0]).(*ast.SelectorExpr); ok {
						if pt, ok := info.TypeOf(s.X).(*types.Pointer); ok && types.Identical(pt.Elem(), astImport) {
							okPath = true
						}
					}
				}
			}
			if okPath {
				o.OK("the importer is asked for %s, the path of the import node", exprStr(c.Args[0]))
			} else {
				o.Bad("the importer is asked for %s, not for the Path of the *ast.Import node being checked", exprStr(c.Args[0]))
			}
			// failure fails the build
			o2 := r.Ob("R-1", key+"#missing-package-fails-build", c.Pos())
			as, isAs := par[c].(*ast.AssignStmt)
			if !isAs || len(as.Lhs) != 2 || cgxEnclosingLit(r.P, fi, c) != nil {
				o2.Unknown("the results of Import are not assigned to two variables in the function body")
				continue
			}
			pkgV, errV := cgxObj(info, as.Lhs[0]), cgxObj(info, as.Lhs[1])
			if pkgV == nil || errV == nil || pkgV.Name() == "_" || errV.Name() == "_" {
				o2.Bad("a result of Import is discarded")
				continue
			}
			importResults[pkgV] = true
			if len(cgxAssignsTo(info, fi.Decl.Body, pkgV)) != 1 || len(cgxAssignsTo(info, fi.Decl.Body, errV)) != 1 {
				o2.Unknown("%s or %s is assigned more than once", pkgV.Name(), errV.Name())
				continue
			}
			cg := r.P.CFGOf(fi)
			blk, idx := cg.Locate(c)
			if blk == nil {
				o2.Unknown("Import call not found in the control-flow graph")
				continue
			}
			isNilCmp := func(n ast.Node, v types.Object) bool {
				be, ok := n.(*ast.BinaryExpr)
				if !ok || (be.Op != token.EQL && be.Op != token.NEQ) {
					return false
				}
				return (cgxObj(info, be.X) == v && cgxIsNil(info, be.Y)) || (cgxObj(info, be.Y) == v && cgxIsNil(info, be.X))
			}
			usesPkg := func(n ast.Node) bool {
				// a mention of the package other than inside a comparison with nil
				found := false
				var visit func(m ast.Node) bool
				visit = func(m ast.Node) bool {
					if m == nil || found {
						return false
					}
					if isNilCmp(m, pkgV) {
						return false
					}
					if id, ok := m.(*ast.Ident); ok && info.Uses[id] == pkgV {
						found = true
					}
					return true
				}
				ast.Inspect(n, visit)
				return found
			}
			check := func(cut func(b *cfg.Block, i int) bool) string {
				bad := ""
				cgxWalk(cg, blk, idx+1, func(b *cfg.Block, i int, n ast.Node) bool {
					if ret, ok := n.(*ast.ReturnStmt); ok {
						if len(ret.Results) > 0 && cgxIsNil(info, ret.Results[len(ret.Results)-1]) {
							bad = "a success return"
						}
						return true
					}
					if usesPkg(n) {
						bad = "a use of " + pkgV.Name()
						return true
					}
					return bad != ""
				}, cut)
				return bad
			}
			// paths on which the package may be nil: do not cross edges asserting pkg != nil
			mayNil := func(b *cfg.Block, i int) bool {
				return cgxEdgeHas(cg, b, i, func(l Lit) bool {
					isNil, ok := cgxAssertsNil(info, l, pkgV)
					return ok && !isNil
				})
			}
			mayErr := func(b *cfg.Block, i int) bool {
				return cgxEdgeHas(cg, b, i, func(l Lit) bool {
					isNil, ok := cgxAssertsNil(info, l, errV)
					return ok && isNil
				})
			}
			if bad := check(mayNil); bad != "" {
				o2.Bad("%s is reachable after Import on a path that does not cross %s != nil: a package the importer does not have would not fail the build", bad, pkgV.Name())
			} else if bad := check(mayErr); bad != "" {
				o2.Bad("%s is reachable after Import on a path that does not cross %s == nil: an importer error would not fail the build", bad, errV.Name())
			} else {
				o2.OK("every use of %s and every success return after Import crosses %s != nil and %s == nil", pkgV.Name(), pkgV.Name(), errV.Name())
			}
		}
	}

	// sources of packages turned into declarations
	globalsOpt := c19structField(r.P.Named("internal/compiler", "checkerOptions"), "globals")
	optGlobals := c19structField(r.P.Named("internal/compiler", "Options"), "Globals")
	buildGlobals := c19structField(r.P.Named("", "BuildOptions"), "Globals")
	if r.Anchor("R-1", "checkerOptions.globals, compiler.Options.Globals, scriggo.BuildOptions.Globals", globalsOpt != nil && optGlobals != nil && buildGlobals != nil) {
		x.copyChain("R-1", globalsOpt, optGlobals, "checkerOptions.globals", "Options.Globals", 2)
		x.copyChain("R-1", optGlobals, buildGlobals, "compiler.Options.Globals", "BuildOptions.Globals", 1)
	}
	nConsumers := 0
	for _, fi := range x.fns {
		if relOf(fi.Obj.Pkg()) != "compiler" {
			continue
		}
		sig := fi.Obj.Type().(*types.Signature)
		pi := -1
		for i := 0; i < sig.Params().Len(); i++ {
			if types.Identical(sig.Params().At(i).Type(), ipkg) {
				pi = i
			}
		}
		if pi < 0 {
			continue
		}
		nConsumers++
		consumer := fi
		for _, cf := range x.fns {
			info := cf.Pkg.TypesInfo
			for _, c := range calls(cf.Decl.Body, true) {
				if callee(info, c) != consumer.Obj || pi >= len(c.Args) {
					continue
				}
				o := r.Ob("R-1", funcKey(cf.Obj)+"#package-given-to-"+consumer.Obj.Name(), c.Pos())
				arg := cgxObj(info, c.Args[pi])
				if arg == nil {
					o.Bad("the package given to %s is %s, not a variable whose origin can be decided", consumer.Obj.Name(), exprStr(c.Args[pi]))
					continue
				}
				if importResults[arg] {
					o.OK("the package is %s, the result of Importer.Import", arg.Name())
					continue
				}
				// bound by a type switch on Lookup of the consumer's own parameter
				if cf == consumer {
					if fact := c19fromLookup(r.P, cf, arg, sig.Params().At(pi), pkgIface); fact != "" {
						o.OK("%s", fact)
						continue
					}
				}
				// a native.Package literal holding the embedder's globals
				as := cgxAssignsTo(info, cf.Decl.Body, arg)
				if len(as) == 1 && as[0].Rhs != nil {
					if lit, ok := ast.Unparen(as[0].Rhs).(*ast.CompositeLit); ok {
						bad := ""
						n := 0
						for _, el := range lit.Elts {
							kv, ok := el.(*ast.KeyValueExpr)
							if !ok {
								bad = "unkeyed literal"
								break
							}
							v := info.TypeOf(kv.Value)
							if _, isMap := v.Underlying().(*types.Map); isMap {
								n++
								if c19fieldOf(info, kv.Value) != globalsOpt {
									bad = "its declarations are " + exprStr(kv.Value) + ", not the checker option copied from Options.Globals"
								}
							}
						}
						if bad == "" && n == 1 {
							o.OK("the package is a %s literal whose declarations are the checker option %s", typeStr(info.TypeOf(lit)), globalsOpt.Name())
							continue
						}
						if bad != "" {
							o.Bad("the package given to %s is a literal: %s", consumer.Obj.Name(), bad)
							continue
						}
					}
				}
				o.Bad("the package %s given to %s is neither the importer's result, nor the embedder's globals, nor a package declared by one of them", arg.Name(), consumer.Obj.Name())
			}
		}
	}
	r.Anchor("R-1", "compiler function taking a native.ImportablePackage (toTypeCheckerScope)", nConsumers > 0)
}

// c19fromLookup: v is the variable of a type switch `switch v := P.Lookup(..).(type)` where P is param.
func c19fromLookup(p *Prog, fi *FuncInfo, v types.Object, param *types.Var, pkgIface *types.Interface) string {
	info := fi.Pkg.TypesInfo
	fact := ""
	ast.Inspect(fi.Decl.Body, func(n ast.Node) bool {
		ts, ok := n.(*ast.TypeSwitchStmt)
		if !ok {
			return true
		}
		as, ok := ts.Assign.(*ast.AssignStmt)
		if !ok || len(as.Rhs) != 1 {
			return true
		}
		ta, ok := ast.Unparen(as.Rhs[0]).(*ast.TypeAssertExpr)
		if !ok {
			return true
		}
		call, ok := ast.Unparen(ta.X).(*ast.CallExpr)
		if !ok {
			return true
		}
		sel, ok := ast.Unparen(call.Fun).(*ast.SelectorExpr)
		if !ok || cgxObj(info, sel.X) != types.Object(param) {
			return true
		}
		for _, st := range ts.Body.List {
			cc := st.(*ast.CaseClause)
			if info.Implicits[cc] == v {
				fact = "the package is the value " + param.Name() + "." + sel.Sel.Name + "(...) of the function's own package parameter (a package declared by a supplied package)"
			}
		}
		return true
	})
	return fact
}

// ---------------------------------------------------------------------------
// R-2

func c19isGoClause(info *types.Info, cc *ast.CaseClause) bool {
	for _, e := range cc.List {
		if pt, ok := info.TypeOf(e).(*types.Pointer); ok {
			if nt, ok := pt.Elem().(*types.Named); ok && nt.Obj().Name() == "Go" && relOf(nt.Obj().Pkg()) == "ast" {
				return true
			}
		}
	}
	return false
}

func (x *c19) goGate() {
	r := x.r
	allow := c19structField(r.P.Named("internal/compiler", "checkerOptions"), "allowGoStmt")
	optAllow := c19structField(r.P.Named("internal/compiler", "Options"), "AllowGoStmt")
	buildAllow := c19structField(r.P.Named("", "BuildOptions"), "AllowGoStmt")
	if !r.Anchor("R-2", "checkerOptions.allowGoStmt, compiler.Options.AllowGoStmt, scriggo.BuildOptions.AllowGoStmt", allow != nil && optAllow != nil && buildAllow != nil) {
		return
	}
	opGo := r.P.Pkg("internal/runtime").Types.Scope().Lookup("OpGo")
	if !r.Anchor("R-2", "runtime.OpGo", opGo != nil) {
		return
	}
	// (a) checker clauses
	nClauses := 0
	for _, fi := range x.fns {
		if relOf(fi.Obj.Pkg()) != "compiler" {
			continue
		}
		sig := fi.Obj.Type().(*types.Signature)
		if sig.Recv() == nil || !c19hasFieldOfStruct(sig.Recv().Type(), allow) {
			continue
		}
		info := fi.Pkg.TypesInfo
		var clauses []*ast.CaseClause
		ast.Inspect(fi.Decl.Body, func(n ast.Node) bool {
			if ts, ok := n.(*ast.TypeSwitchStmt); ok {
				for _, st := range ts.Body.List {
					if cc := st.(*ast.CaseClause); c19isGoClause(info, cc) {
						clauses = append(clauses, cc)
					}
				}
			}
			return true
		})
		for _, cc := range clauses {
			nClauses++
			o := r.Ob("R-2", funcKey(fi.Obj)+"#go-clause-tests-allow-flag", cc.Pos())
			if len(cc.Body) == 0 {
				o.Bad("the *ast.Go clause is empty: a go statement is accepted without testing %s", allow.Name())
				continue
			}
			if cgxEnclosingLit(r.P, fi, cc) != nil {
				o.Unknown("the clause is inside a function literal")
				continue
			}
			cg := r.P.CFGOf(fi)
			blk, idx := cgxFirstNodeIn(cg, cc.Body[0])
			if blk == nil {
				o.Unknown("clause body not found in the control-flow graph")
				continue
			}
			escaped := false
			cgxWalk(cg, blk, idx, func(b *cfg.Block, i int, n ast.Node) bool {
				if n.Pos() < cc.Pos() || n.End() > cc.End() {
					escaped = true
					return true
				}
				return escaped
			}, func(b *cfg.Block, i int) bool {
				return cgxEdgeHas(cg, b, i, func(l Lit) bool {
					return l.Tag == nil && l.Truth && c19fieldOf(info, l.Expr) == allow
				})
			})
			// leaving through the end of the function body (no node after the switch) also escapes: detect a
			// clause whose last block falls through to a block without nodes outside; covered when any
			// successor chain ends in a return; a clause with no test at all escapes to the loop head.
			if escaped {
				o.Bad("a path leaves the *ast.Go clause without crossing the true edge of %s: a go statement would be accepted although not allowed", allow.Name())
			} else {
				o.OK("every path leaving the clause crosses the true edge of %s (the others panic with a checking error)", allow.Name())
			}
		}
	}
	if nClauses == 0 {
		r.Ob("R-2", "anchor:checker-go-clause", token.NoPos).Unknown("no type-switch clause for *ast.Go in a method of the type holding %s", allow.Name())
	}
	// (c) provenance of the flag
	x.copyChain("R-2", allow, optAllow, "checkerOptions.allowGoStmt", "Options.AllowGoStmt", 2)
	x.copyChain("R-2", optAllow, buildAllow, "compiler.Options.AllowGoStmt", "BuildOptions.AllowGoStmt", 2)

	// (b) emission
	emitters := map[*types.Func]bool{}
	for _, fi := range x.fns {
		if relOf(fi.Obj.Pkg()) != "compiler" {
			continue
		}
		info := fi.Pkg.TypesInfo
		par := r.P.Parents(fi.File)
		ast.Inspect(fi.Decl.Body, func(n ast.Node) bool {
			id, ok := n.(*ast.Ident)
			if !ok || info.Uses[id] != opGo {
				return true
			}
			// a read: case label, key of a keyed literal, operand of a comparison
			var top ast.Node = id
			if s, ok := par[id].(*ast.SelectorExpr); ok {
				top = s
			}
			switch p := par[top].(type) {
			case *ast.CaseClause:
				return true
			case *ast.KeyValueExpr:
				if p.Key == top {
					if cl, ok := par[p].(*ast.CompositeLit); ok {
						if _, isStruct := info.TypeOf(cl).Underlying().(*types.Struct); !isStruct {
							return true
						}
					}
				}
			case *ast.BinaryExpr:
				if p.Op == token.EQL || p.Op == token.NEQ {
					return true
				}
			}
			emitters[fi.Obj] = true
			return true
		})
	}
	var ems []*types.Func
	for f := range emitters {
		ems = append(ems, f)
	}
	sort.Slice(ems, func(i, j int) bool { return ems[i].Name() < ems[j].Name() })
	if len(ems) != 1 {
		r.Ob("R-2", "anchor:go-emitter", token.NoPos).Unknown("%d functions of compiler use runtime.OpGo as a value, expected one (emitGo)", len(ems))
		return
	}
	emitGo := ems[0]
	// go parameters: function -> index of the bool parameter guarding the emission
	goParam := map[*types.Func]int{}
	type pending struct {
		fi *FuncInfo
		c  *ast.CallExpr
	}
	for _, fi := range x.fns {
		info := fi.Pkg.TypesInfo
		for _, c := range calls(fi.Decl.Body, true) {
			if callee(info, c) != emitGo {
				continue
			}
			o := r.Ob("R-2", funcKey(fi.Obj)+"#emits-Go-under-flag", c.Pos())
			if cgxEnclosingLit(r.P, fi, c) != nil {
				o.Unknown("Go emitted in a function literal")
				continue
			}
			cg := r.P.CFGOf(fi)
			sig := fi.Obj.Type().(*types.Signature)
			pi := -1
			for i := 0; i < sig.Params().Len() && pi < 0; i++ {
				pv := sig.Params().At(i)
				if b, isB := pv.Type().Underlying().(*types.Basic); !isB || b.Kind() != types.Bool || len(cgxAssignsTo(info, fi.Decl.Body, pv)) > 0 {
					continue
				}
				if cg.GuardedBy(c, func(l Lit) bool {
					return l.Tag == nil && l.Truth && cgxObj(info, l.Expr) == types.Object(pv)
				}) {
					pi = i
				}
			}
			if pi < 0 {
				o.Bad("the Go instruction is emitted without the guard of a bool parameter: a plain call could start a goroutine")
				continue
			}
			if old, seen := goParam[fi.Obj]; seen && old != pi {
				o.Unknown("two different parameters guard the emission")
				continue
			}
			goParam[fi.Obj] = pi
			o.OK("emitted only on the true edge of the parameter %s", sig.Params().At(pi).Name())
		}
	}
	// references to the emitter other than calls
	for _, fi := range x.fns {
		info := fi.Pkg.TypesInfo
		par := r.P.Parents(fi.File)
		ast.Inspect(fi.Decl.Body, func(n ast.Node) bool {
			if id, ok := n.(*ast.Ident); ok && info.Uses[id] == types.Object(emitGo) {
				var top ast.Node = id
				if s, ok := par[id].(*ast.SelectorExpr); ok {
					top = s
				}
				if c, ok := par[top].(*ast.CallExpr); !ok || c.Fun != top {
					r.Ob("R-2", funcKey(fi.Obj)+"#go-emitter-as-value", id.Pos()).Unknown("the emitter of the Go instruction is used as a value")
				}
			}
			return true
		})
	}
	// callers of the functions with a go parameter
	for _, fi := range x.fns {
		info := fi.Pkg.TypesInfo
		par := r.P.Parents(fi.File)
		for _, c := range calls(fi.Decl.Body, true) {
			f := callee(info, c)
			pi, isGoFn := goParam[f]
			if f == nil || !isGoFn || pi >= len(c.Args) {
				continue
			}
			o := r.Ob("R-2", funcKey(fi.Obj)+"#go-flag-passed-to-"+f.Name(), c.Pos())
			arg := ast.Unparen(c.Args[pi])
			if tv, ok := info.Types[arg]; ok && tv.Value != nil {
				if tv.Value.String() == "false" {
					o.Trivial("passes false")
					continue
				}
				inGo := false
				for m := par[c]; m != nil; m = par[m] {
					if cc, ok := m.(*ast.CaseClause); ok && c19isGoClause(info, cc) {
						inGo = true
					}
				}
				if inGo {
					o.OK("passes true inside the type-switch clause for *ast.Go")
				} else {
					o.Bad("passes true outside a clause for *ast.Go: a statement that is not a go statement would start a goroutine, and the checker's allow flag would not cover it")
				}
				continue
			}
			if v := cgxObj(info, arg); v != nil {
				if mine, ok := goParam[fi.Obj]; ok && types.Object(fi.Obj.Type().(*types.Signature).Params().At(mine)) == v {
					o.OK("passes on its own go parameter %s", v.Name())
					continue
				}
			}
			o.Unknown("the go flag passed is %s: neither a constant nor the caller's own go parameter", exprStr(arg))
		}
	}
}

func c19hasFieldOfStruct(t types.Type, field *types.Var) bool {
	seen := map[types.Type]bool{}
	var has func(t types.Type, depth int) bool
	has = func(t types.Type, depth int) bool {
		if p, ok := t.(*types.Pointer); ok {
			t = p.Elem()
		}
		if seen[t] || depth > 2 {
			return false
		}
		seen[t] = true
		st, ok := t.Underlying().(*types.Struct)
		if !ok {
			return false
		}
		for i := 0; i < st.NumFields(); i++ {
			if st.Field(i) == field || has(st.Field(i).Type(), depth+1) {
				return true
			}
		}
		return false
	}
	return has(t, 0)
}

// ---------------------------------------------------------------------------
// R-3

func (x *c19) hostCalls() {
	r := x.r
	nativeFn := r.P.Named("internal/runtime", "NativeFunction")
	callableT := r.P.Named("internal/runtime", "callable")
	vmT := r.P.Named("internal/runtime", "VM")
	if !r.Anchor("R-3", "runtime.NativeFunction, runtime.callable, runtime.VM", nativeFn != nil && callableT != nil && vmT != nil) {
		return
	}
	for _, fi := range x.fns {
		info := fi.Pkg.TypesInfo
		par := r.P.Parents(fi.File)
		key := funcKey(fi.Obj)
		// function values of reflect.Value.Call taken without calling
		ast.Inspect(fi.Decl.Body, func(n ast.Node) bool {
			sel, ok := n.(*ast.SelectorExpr)
			if !ok {
				return true
			}
			f, _ := info.Uses[sel.Sel].(*types.Func)
			if f != nil && (isPkgFunc(f, "reflect", "Value", "Call") || isPkgFunc(f, "reflect", "Value", "CallSlice")) {
				if c, ok := par[sel].(*ast.CallExpr); !ok || c.Fun != ast.Expr(sel) {
					r.Ob("R-3", key+"#reflect-call-as-value", sel.Pos()).Unknown("reflect.Value.%s is used as a method value", f.Name())
				}
			}
			return true
		})
		for _, c := range calls(fi.Decl.Body, true) {
			f := callee(info, c)
			switch {
			case isPkgFunc(f, "reflect", "Value", "Call"), isPkgFunc(f, "reflect", "Value", "CallSlice"):
				o := r.Ob("R-3", key+"#reflect.Value.Call", c.Pos())
				if why, ok := c19exceptions["R-3 "+key+"#reflect.Value.Call"]; ok {
					o.Trivial("reviewed exception: %s", why)
					continue
				}
				sel := ast.Unparen(c.Fun).(*ast.SelectorExpr)
				fld := c19fieldOf(info, sel.X)
				ok := false
				if fld != nil {
					if s, isSel := ast.Unparen(sel.X).(*ast.SelectorExpr); isSel {
						if pt, isPtr := info.TypeOf(s.X).(*types.Pointer); isPtr && types.Identical(pt.Elem(), nativeFn) {
							ok = true
						}
					}
				}
				if ok {
					o.OK("%s is applied to the %s field of a *runtime.NativeFunction: a function compiled from a supplied declaration or from a value the program holds", f.Name(), fld.Name())
				} else {
					o.Bad("reflect.Value.%s is applied to %s in %s, not to a compiled NativeFunction's value: a host function is executed outside the native call path", f.Name(), exprStr(sel.X), key)
				}
			case isPkgFunc(f, "reflect", "", "MakeFunc"):
				o := r.Ob("R-3", key+"#reflect.MakeFunc", c.Pos())
				if why, ok := c19exceptions["R-3 "+key+"#reflect.MakeFunc"]; ok {
					o.Trivial("reviewed exception: %s", why)
					continue
				}
				sig := fi.Obj.Type().(*types.Signature)
				isCallable := false
				if sig.Recv() != nil {
					t := sig.Recv().Type()
					if p, ok := t.(*types.Pointer); ok {
						t = p.Elem()
					}
					isCallable = types.Identical(t, callableT)
				}
				runsVM := false
				if len(c.Args) == 2 {
					if lit, ok := ast.Unparen(c.Args[1]).(*ast.FuncLit); ok {
						for _, ic := range calls(lit.Body, true) {
							if g := callee(info, ic); g != nil {
								if gs := g.Type().(*types.Signature); gs.Recv() != nil {
									t := gs.Recv().Type()
									if p, ok := t.(*types.Pointer); ok {
										t = p.Elem()
									}
									if types.Identical(t, vmT) && strings.HasPrefix(g.Name(), "run") {
										runsVM = true
									}
								}
							}
						}
					}
				}
				if isCallable && runsVM {
					o.OK("in a method of runtime.callable; the made function runs the interpreter on the callable's Scriggo function")
				} else {
					o.Bad("reflect.MakeFunc in %s is not the wrapper of a Scriggo function around the interpreter", key)
				}
			}
		}
	}
}

// ---------------------------------------------------------------------------
// R-4

func (x *c19) universe() {
	r := x.r
	// the universe scope: the package-level map literal used as the first scope by the constructor of scopes
	val, v, pk := r.P.pkgVarInit("internal/compiler", "universe")
	if !r.Anchor("R-4", "compiler.universe (package-level map literal)", val != nil && v != nil) {
		return
	}
	lit, ok := ast.Unparen(val).(*ast.CompositeLit)
	if !r.Anchor("R-4", "compiler.universe is a composite literal", ok) {
		return
	}
	info := pk.TypesInfo
	r.Exhaust = true
	valueField := c19structField(r.P.Named("internal/compiler", "typeInfo"), "value")
	if !r.Anchor("R-4", "typeInfo.value", valueField != nil) {
		return
	}
	for _, el := range lit.Elts {
		kv, ok := el.(*ast.KeyValueExpr)
		if !ok {
			r.Ob("R-4", "universe#entry", el.Pos()).Unknown("unkeyed entry")
			continue
		}
		name, ok := stringValue(info, kv.Key)
		if !ok {
			r.Ob("R-4", "universe#entry", el.Pos()).Unknown("non-constant key")
			continue
		}
		o := r.Ob("R-4", "universe#"+name, kv.Pos())
		setsValue := false
		ast.Inspect(kv.Value, func(n ast.Node) bool {
			if k, ok := n.(*ast.KeyValueExpr); ok {
				if id, ok := k.Key.(*ast.Ident); ok && info.Uses[id] == types.Object(valueField) {
					setsValue = true
				}
			}
			return true
		})
		switch {
		case setsValue:
			o.Bad("the universe entry %q carries a host value (typeInfo.value is set): every program could reach it without the embedder supplying it", name)
		case types.Universe.Lookup(name) != nil:
			o.OK("%q is a predeclared identifier of Go and the entry carries no host value", name)
		case c19exceptions["R-4 "+name] != "":
			o.Trivial("reviewed exception: %s", c19exceptions["R-4 "+name])
		default:
			o.Bad("%q is declared in the universe scope but is not a predeclared identifier of Go: it is available to every program without the embedder supplying it", name)
		}
	}
	// the universe is not written after initialisation
	for _, fi := range x.fns {
		if relOf(fi.Obj.Pkg()) != "compiler" {
			continue
		}
		ast.Inspect(fi.Decl.Body, func(n ast.Node) bool {
			as, ok := n.(*ast.AssignStmt)
			if !ok {
				return true
			}
			for _, l := range as.Lhs {
				if ix, ok := ast.Unparen(l).(*ast.IndexExpr); ok && cgxObj(info, ix.X) == types.Object(v) {
					r.Ob("R-4", funcKey(fi.Obj)+"#writes-universe", as.Pos()).Bad("the universe scope is modified at run time")
				}
				if cgxObj(info, l) == types.Object(v) {
					r.Ob("R-4", funcKey(fi.Obj)+"#writes-universe", as.Pos()).Bad("the universe scope is replaced at run time")
				}
			}
			return true
		})
	}
}

// ---------------------------------------------------------------------------
// R-5

func (x *c19) printHook() {
	r := x.r
	envT := r.P.Named("internal/runtime", "env")
	hook := c19structField(envT, "print")
	if !r.Anchor("R-5", "runtime.env.print (the print hook)", hook != nil) {
		return
	}
	// the function that reads the hook and calls it
	var doPrint *FuncInfo
	for _, fi := range x.fns {
		if relOf(fi.Obj.Pkg()) != "runtime" {
			continue
		}
		info := fi.Pkg.TypesInfo
		// a function that reads the hook (any mention that is not the target of an assignment)
		reads := false
		par := r.P.Parents(fi.File)
		ast.Inspect(fi.Decl.Body, func(n ast.Node) bool {
			if sel, ok := n.(*ast.SelectorExpr); ok && c19fieldOf(info, sel) == hook {
				if as, ok := par[sel].(*ast.AssignStmt); ok {
					for _, l := range as.Lhs {
						if l == ast.Expr(sel) {
							return true
						}
					}
				}
				reads = true
			}
			return true
		})
		if reads {
			if doPrint != nil && doPrint != fi {
				r.Ob("R-5", "anchor:hook-caller", fi.Decl.Pos()).Unknown("the print hook is read by several functions")
				return
			}
			doPrint = fi
		}
	}
	if !r.Anchor("R-5", "the runtime function reading env.print (doPrint)", doPrint != nil) {
		return
	}
	// (a)+(b) builtin print/println only in doPrint, under hook == nil
	for _, fi := range x.fns {
		rel := relOf(fi.Obj.Pkg())
		if rel != "runtime" && rel != "compiler" && rel != "scriggo" {
			continue
		}
		info := fi.Pkg.TypesInfo
		for _, c := range calls(fi.Decl.Body, true) {
			if !isBuiltinCall(info, c, "print") && !isBuiltinCall(info, c, "println") {
				continue
			}
			o := r.Ob("R-5", funcKey(fi.Obj)+"#builtin-print", c.Pos())
			if fi != doPrint {
				o.Bad("the Go builtin print is called in %s, outside the function that honours the print hook", funcKey(fi.Obj))
				continue
			}
			cg := r.P.CFGOf(fi)
			ok := cg.GuardedBy(c, func(l Lit) bool {
				be, isBin := ast.Unparen(l.Expr).(*ast.BinaryExpr)
				if !isBin || l.Tag != nil || (be.Op != token.EQL && be.Op != token.NEQ) {
					return false
				}
				isHook := func(e ast.Expr) bool {
					if c19fieldOf(info, e) == hook {
						return true
					}
					// a local copy of the hook
					if v := cgxObj(info, e); v != nil {
						as := cgxAssignsTo(info, fi.Decl.Body, v)
						return len(as) == 1 && as[0].Rhs != nil && c19fieldOf(info, as[0].Rhs) == hook
					}
					return false
				}
				var other ast.Expr
				if isHook(be.X) {
					other = be.Y
				} else if isHook(be.Y) {
					other = be.X
				}
				return other != nil && cgxIsNil(info, other) && (be.Op == token.EQL) == l.Truth
			})
			if ok {
				o.OK("reached only on the edge %s == nil", hook.Name())
			} else {
				o.Bad("the Go builtin print can run although a print hook is configured")
			}
		}
	}
	// the hook call itself is followed by a return before any builtin print: implied by the guard above.
	// (c) the OpPrint clause and Env.Print/Println go through doPrint
	opPrint := r.P.Pkg("internal/runtime").Types.Scope().Lookup("OpPrint")
	run := r.P.Func("internal/runtime", "(*VM).run")
	if r.Anchor("R-5", "runtime.OpPrint and (*VM).run", opPrint != nil && run != nil) {
		info := run.Pkg.TypesInfo
		found := false
		ast.Inspect(run.Decl.Body, func(n ast.Node) bool {
			cc, ok := n.(*ast.CaseClause)
			if !ok {
				return true
			}
			for _, e := range cc.List {
				if c := constOf(info, e); c != nil && types.Object(c) == opPrint {
					found = true
					o := r.Ob("R-5", "runtime.(*VM).run#OpPrint", cc.Pos())
					var other []string
					n := 0
					for _, st := range cc.Body {
						for _, c := range calls(st, true) {
							f := callee(info, c)
							switch {
							case f == doPrint.Obj:
								n++
							case f != nil && f.Pkg() != nil && f.Pkg().Path() == "reflect":
							case f != nil && relOf(f.Pkg()) == "runtime" && (strings.HasPrefix(f.Name(), "general") || strings.HasPrefix(f.Name(), "string") || strings.HasPrefix(f.Name(), "int") || strings.HasPrefix(f.Name(), "float")):
								// register accessors
							default:
								other = append(other, exprStr(c.Fun))
							}
						}
					}
					if n > 0 && len(other) == 0 {
						o.OK("the clause calls %s (%d site(s)) and otherwise only register accessors and reflect.Value methods", funcKey(doPrint.Obj), n)
					} else {
						o.Bad("the OpPrint clause calls %v and %s %d time(s): output does not go only through the hook-honouring function", other, funcKey(doPrint.Obj), n)
					}
				}
			}
			return true
		})
		r.Anchor("R-5", "case OpPrint in (*VM).run", found)
	}
	// hook writers
	for _, w := range x.fieldWrites(hook) {
		o := r.Ob("R-5", funcKey(w.fi.Obj)+"#writes-print-hook", w.pos)
		sig := w.fi.Obj.Type().(*types.Signature)
		if w.val != nil && sig.Params().Len() == 1 && cgxObj(w.fi.Pkg.TypesInfo, w.val) == types.Object(sig.Params().At(0)) && w.fi.Obj.Exported() {
			o.OK("the hook is set from the parameter of the exported setter %s", funcKey(w.fi.Obj))
		} else {
			o.Bad("the print hook is written in %s with %v", funcKey(w.fi.Obj), w.val)
		}
	}
}
