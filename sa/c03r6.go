package main

// C03 R-6: a pure assignment to a variable is not a use of the variable.
//
// "Build never accepts a program that the Go type checker rejects": go/types reports "declared and not
// used" for a local variable that is only ever assigned. In `x = e`, in `x, y := e1, e2` (x already
// declared in the scope) and in `for x = range e`, the identifier x on the left is resolved WITHOUT being
// marked as used (go/types: lhsVar). The checker keeps the "used" mark in its scopes; the mark is set by
// one method of the scopes. Structural necessary condition:
//
//	in every function that checks the left side of a pure assignment (the functions the checker
//	dispatches to for the assignment types `=` and `:=`, and the code that checks the assignment of a
//	range clause), an element of the assignment's Lhs that may be an identifier never reaches a
//	parameter position from which the scopes' use mark is set for an identifier.
//
// "Reaches a marking position" is computed by a summary over package compiler: a function marks its
// parameter p when it passes p.Name to the marking method of the scopes, or passes p (or a local alias of
// p: `x := p`, `x, ok := p.(T)`, the variable of a type switch on p) to a marking parameter of another
// function. Two refinements make the summary exact enough: a call site that is only executed when the
// value is NOT an identifier (false branch of `_, ok := p.(*ast.Identifier)`, clause of a type switch that
// does not list *ast.Identifier, alias asserted to another concrete node type) does not count; a call
// site under `if b` with b a bool parameter makes the mark conditional on that parameter, and a call
// passing the constant false for it does not mark.

import (
	"fmt"
	"go/ast"
	"go/token"
	"go/types"
	"sort"
	"strings"
)

func init() {
	p := registry["C03"]
	if p == nil {
		return
	}
	run := p.run
	p.run = func(r *Run) { run(r); c03AssignIsNotUse(r) }
	p.explain += " R-6: in the functions that check the left side of `=`, of `:=` and of the assignment of a range clause, an element of the Lhs that may be an identifier never reaches a parameter from which the scopes' use mark is set (interprocedural summary with not-an-identifier guards and bool-parameter conditions): a variable that is only assigned stays unused and is reported as such."
}

// c03UseExceptions lists marking call sites on the left side of a pure assignment that are not defects.
// Key: function#callee.
var c03UseExceptions = map[string]string{
	"compiler.(*typechecker).obsoleteForRangeAssign#checkExpr": "the left expression is evaluated as an expression only when the right side is the untyped nil; the only caller (the range clause) passes typed placeholders, so the branch is never taken",
}

const c03AstPath = modulePath + "/ast"

func c03IsAstNamed(t types.Type, name string) bool {
	if p, ok := t.(*types.Pointer); ok {
		t = p.Elem()
	}
	n, ok := t.(*types.Named)
	return ok && n.Obj().Pkg() != nil && n.Obj().Pkg().Path() == c03AstPath && (name == "" || n.Obj().Name() == name)
}

// alias facts ---------------------------------------------------------------

type c03Al struct {
	root     int  // parameter index for summaries, -1 for an Lhs element
	notIdent bool // known not to be an *ast.Identifier
}

type c03UseScan struct {
	fi     *FuncInfo
	info   *types.Info
	alias  map[types.Object]c03Al
	slices map[types.Object]bool // locals holding the Lhs slice itself
	lhsOf  func(e ast.Expr) bool // e denotes the Lhs slice of a pure assignment
	okVars map[types.Object]bool // ok of `_, ok := alias.(*ast.Identifier)`
}

func (s *c03UseScan) objOf(id *ast.Ident) types.Object {
	if o := s.info.Defs[id]; o != nil {
		return o
	}
	return s.info.Uses[id]
}

func (s *c03UseScan) isLhsSlice(e ast.Expr) bool {
	e = ast.Unparen(e)
	if s.lhsOf != nil && s.lhsOf(e) {
		return true
	}
	if id, ok := e.(*ast.Ident); ok {
		return s.slices[s.objOf(id)]
	}
	return false
}

// resolve reports whether e denotes a tracked value.
func (s *c03UseScan) resolve(e ast.Expr) (c03Al, bool) {
	e = ast.Unparen(e)
	switch x := e.(type) {
	case *ast.Ident:
		a, ok := s.alias[s.objOf(x)]
		return a, ok
	case *ast.IndexExpr:
		if s.isLhsSlice(x.X) {
			return c03Al{root: -1}, true
		}
	case *ast.TypeAssertExpr:
		if x.Type == nil {
			return c03Al{}, false
		}
		a, ok := s.resolve(x.X)
		if !ok {
			return a, false
		}
		t := s.info.TypeOf(x.Type)
		if t != nil && !c03IsAstNamed(t, "Identifier") {
			if _, isIface := t.Underlying().(*types.Interface); !isIface {
				a.notIdent = true
			}
		}
		return a, true
	}
	return c03Al{}, false
}

func (s *c03UseScan) set(id *ast.Ident, a c03Al) bool {
	if id == nil || id.Name == "_" {
		return false
	}
	o := s.objOf(id)
	if o == nil {
		return false
	}
	if old, ok := s.alias[o]; ok && (old == a || !old.notIdent) {
		return false
	}
	s.alias[o] = a
	return true
}

// propagate computes the aliases inside region to a fixed point.
func (s *c03UseScan) propagate(region ast.Node) {
	for iter := 0; iter < 6; iter++ {
		changed := false
		ast.Inspect(region, func(n ast.Node) bool {
			switch st := n.(type) {
			case *ast.AssignStmt:
				if len(st.Lhs) == len(st.Rhs) {
					for i, rh := range st.Rhs {
						id, ok := st.Lhs[i].(*ast.Ident)
						if !ok {
							continue
						}
						if a, ok := s.resolve(rh); ok && s.set(id, a) {
							changed = true
						}
						if s.isLhsSlice(rh) && id.Name != "_" {
							if o := s.objOf(id); o != nil && !s.slices[o] {
								s.slices[o] = true
								changed = true
							}
						}
					}
				} else if len(st.Lhs) == 2 && len(st.Rhs) == 1 {
					if ta, ok := ast.Unparen(st.Rhs[0]).(*ast.TypeAssertExpr); ok && ta.Type != nil {
						if a, ok := s.resolve(ta); ok {
							if id, ok := st.Lhs[0].(*ast.Ident); ok && s.set(id, a) {
								changed = true
							}
							if t := s.info.TypeOf(ta.Type); t != nil && c03IsAstNamed(t, "Identifier") {
								if _, isPtr := t.(*types.Pointer); isPtr {
									if id, ok := st.Lhs[1].(*ast.Ident); ok && id.Name != "_" {
										if o := s.objOf(id); o != nil && !s.okVars[o] {
											s.okVars[o] = true
											changed = true
										}
									}
								}
							}
						}
					}
				}
			case *ast.RangeStmt:
				if s.isLhsSlice(st.X) {
					if id, ok := st.Value.(*ast.Ident); ok && s.set(id, c03Al{root: -1}) {
						changed = true
					}
				}
			case *ast.TypeSwitchStmt:
				var subj ast.Expr
				bound := false
				switch as := st.Assign.(type) {
				case *ast.AssignStmt:
					if len(as.Rhs) == 1 {
						if ta, ok := ast.Unparen(as.Rhs[0]).(*ast.TypeAssertExpr); ok {
							subj, bound = ta.X, true
						}
					}
				case *ast.ExprStmt:
					if ta, ok := ast.Unparen(as.X).(*ast.TypeAssertExpr); ok {
						subj = ta.X
					}
				}
				if subj == nil || !bound {
					return true
				}
				a, ok := s.resolve(subj)
				if !ok {
					return true
				}
				someIdent := false
				for _, c := range st.Body.List {
					for _, te := range c.(*ast.CaseClause).List {
						if t := s.info.TypeOf(te); t != nil && c03IsAstNamed(t, "Identifier") {
							someIdent = true
						}
					}
				}
				for _, c := range st.Body.List {
					cc := c.(*ast.CaseClause)
					obj := s.info.Implicits[cc]
					if obj == nil {
						continue
					}
					ca := a
					if cc.List == nil {
						if someIdent {
							ca.notIdent = true
						}
					} else {
						may := false
						for _, te := range cc.List {
							t := s.info.TypeOf(te)
							if t == nil {
								may = true
								continue
							}
							if c03IsAstNamed(t, "Identifier") {
								may = true
							} else if _, isIface := t.Underlying().(*types.Interface); isIface {
								may = true
							}
						}
						if !may {
							ca.notIdent = true
						}
					}
					if old, ok := s.alias[obj]; !ok || old != ca {
						s.alias[obj] = ca
						changed = true
					}
				}
			}
			return true
		})
		if !changed {
			return
		}
	}
}

// site: a tracked value passed as argument k of a call.
type c03UseSite struct {
	call  *ast.CallExpr
	fn    *types.Func
	k     int
	al    c03Al
	viaNm bool // the argument is alias.Name (base case: the marking method itself)
}

func (s *c03UseScan) sites(region ast.Node) []c03UseSite {
	var out []c03UseSite
	for _, c := range calls(region, true) {
		fn := callee(s.info, c)
		if fn == nil {
			continue
		}
		for k, arg := range c.Args {
			if a, ok := s.resolve(arg); ok {
				out = append(out, c03UseSite{call: c, fn: fn, k: k, al: a})
				continue
			}
			if sel, ok := ast.Unparen(arg).(*ast.SelectorExpr); ok && sel.Sel.Name == "Name" {
				if a, ok := s.resolve(sel.X); ok {
					out = append(out, c03UseSite{call: c, fn: fn, k: k, al: a, viaNm: true})
				}
			}
		}
	}
	return out
}

// notIdentAt reports whether the call is executed only when the tracked value is not an identifier.
func (s *c03UseScan) notIdentAt(p *Prog, st c03UseSite) bool {
	if st.al.notIdent {
		return true
	}
	if len(s.okVars) == 0 {
		return false
	}
	cg := p.CFGOf(s.fi)
	return cg.GuardedBy(st.call, func(l Lit) bool {
		if l.Tag != nil || l.Truth {
			return false
		}
		id, ok := ast.Unparen(l.Expr).(*ast.Ident)
		return ok && s.okVars[s.info.Uses[id]]
	})
}

// mark summary --------------------------------------------------------------

type c03Mark struct {
	uncond bool
	on     map[int]bool // marks when bool parameter j is true
}

func (m *c03Mark) any() bool { return m != nil && (m.uncond || len(m.on) > 0) }

func (m *c03Mark) String() string {
	if m == nil || !m.any() {
		return "never"
	}
	if m.uncond {
		return "always"
	}
	var js []string
	for j := range m.on {
		js = append(js, fmt.Sprint(j))
	}
	sort.Strings(js)
	return "when bool parameter #" + strings.Join(js, ",#") + " is true"
}

type c03UseSummary struct {
	P      *Prog
	info   *types.Info
	decls  map[*types.Func]*FuncInfo
	scans  map[*types.Func]*c03UseScan
	sites  map[*types.Func][]c03UseSite
	params map[*types.Func][]types.Object
	marks  map[*types.Func]map[int]*c03Mark
	marker *types.Func
	exc    map[string]token.Pos // listed exceptions met while summarising
	// touches: the parameter reaches a resolver of identifiers, marking or not (for positive evidence)
	touches map[*types.Func]map[int]bool
}

func (u *c03UseSummary) paramsOf(fi *FuncInfo) []types.Object {
	var out []types.Object
	for _, fl := range fi.Decl.Type.Params.List {
		if len(fl.Names) == 0 {
			out = append(out, nil)
			continue
		}
		for _, nm := range fl.Names {
			out = append(out, u.info.Defs[nm])
		}
	}
	return out
}

// effect of one call site given the callee's summary: (marks, conditional on own bool parameter j or -1)
func (u *c03UseSummary) effect(owner *FuncInfo, sc *c03UseScan, st c03UseSite) (marks bool, onOwn int) {
	onOwn = -1
	var cm *c03Mark
	if st.viaNm {
		if st.fn != u.marker || st.k != 0 {
			return false, -1
		}
		cm = &c03Mark{uncond: true}
	} else {
		cm = u.marks[st.fn][st.k]
	}
	if !cm.any() {
		return false, -1
	}
	if _, listed := c03UseExceptions[owner.Name()+"#"+st.fn.Name()]; listed && !sc.notIdentAt(u.P, st) {
		u.exc[owner.Name()+"#"+st.fn.Name()] = st.call.Pos()
		return false, -1
	}
	ownParams := u.params[owner.Obj]
	ownBool := func(e ast.Expr) int {
		id, ok := ast.Unparen(e).(*ast.Ident)
		if !ok {
			return -1
		}
		o := u.info.Uses[id]
		for j, po := range ownParams {
			if po != nil && po == o {
				if b, ok := po.Type().Underlying().(*types.Basic); ok && b.Kind() == types.Bool {
					return j
				}
			}
		}
		return -1
	}
	if !cm.uncond {
		// conditional on the callee's bool parameters: look at the arguments
		eff := false
		for j := range cm.on {
			if j >= len(st.call.Args) {
				eff = true
				continue
			}
			arg := st.call.Args[j]
			if tv, ok := u.info.Types[arg]; ok && tv.Value != nil {
				if tv.Value.String() == "true" {
					eff = true
				}
				continue // constant false: does not mark
			}
			if oj := ownBool(arg); oj >= 0 {
				onOwn = oj
				eff = true
				continue
			}
			eff = true
		}
		if !eff {
			return false, -1
		}
		if onOwn >= 0 && len(cm.on) > 1 {
			onOwn = -1
		}
	}
	if sc.notIdentAt(u.P, st) {
		return false, -1
	}
	if onOwn < 0 {
		// the site itself may be under `if b` with b an own bool parameter
		for j, po := range ownParams {
			if po == nil {
				continue
			}
			if b, ok := po.Type().Underlying().(*types.Basic); !ok || b.Kind() != types.Bool {
				continue
			}
			obj := po
			if u.P.CFGOf(owner).GuardedBy(st.call, func(l Lit) bool {
				id, ok := ast.Unparen(l.Expr).(*ast.Ident)
				return l.Tag == nil && l.Truth && ok && u.info.Uses[id] == obj
			}) {
				onOwn = j
				break
			}
		}
	}
	return true, onOwn
}

func c03NewUseSummary(p *Prog, marker *types.Func) *c03UseSummary {
	pk := p.Pkg(c03Compiler)
	u := &c03UseSummary{P: p, info: pk.TypesInfo, decls: map[*types.Func]*FuncInfo{}, scans: map[*types.Func]*c03UseScan{},
		sites: map[*types.Func][]c03UseSite{}, params: map[*types.Func][]types.Object{}, marks: map[*types.Func]map[int]*c03Mark{}, marker: marker, exc: map[string]token.Pos{}, touches: map[*types.Func]map[int]bool{}}
	for _, fi := range p.Funcs(c03Compiler) {
		if fi.Obj == nil || p.isTestFile(fi.File) {
			continue
		}
		u.decls[fi.Obj] = fi
		ps := u.paramsOf(fi)
		u.params[fi.Obj] = ps
		sc := &c03UseScan{fi: fi, info: u.info, alias: map[types.Object]c03Al{}, slices: map[types.Object]bool{}, okVars: map[types.Object]bool{}}
		tracked := false
		for i, po := range ps {
			if po != nil && c03IsAstNamed(po.Type(), "") {
				a := c03Al{root: i}
				if _, isPtr := po.Type().(*types.Pointer); isPtr && !c03IsAstNamed(po.Type(), "Identifier") {
					a.notIdent = true
				}
				sc.alias[po] = a
				tracked = true
			}
		}
		if !tracked {
			continue
		}
		sc.propagate(fi.Decl.Body)
		u.scans[fi.Obj] = sc
		u.sites[fi.Obj] = sc.sites(fi.Decl.Body)
	}
	// fixed point
	for iter := 0; iter < 20; iter++ {
		changed := false
		for fn, sites := range u.sites {
			fi, sc := u.decls[fn], u.scans[fn]
			for _, st := range sites {
				if st.al.root < 0 {
					continue
				}
				if !u.touches[fn][st.al.root] {
					if (st.viaNm && st.fn == u.marker && st.k == 0) || (!st.viaNm && (u.marks[st.fn][st.k].any() || u.touches[st.fn][st.k])) {
						if u.touches[fn] == nil {
							u.touches[fn] = map[int]bool{}
						}
						u.touches[fn][st.al.root] = true
						changed = true
					}
				}
				cur := u.marks[fn][st.al.root]
				if cur != nil && cur.uncond {
					continue
				}
				m, on := u.effect(fi, sc, st)
				if !m {
					continue
				}
				if u.marks[fn] == nil {
					u.marks[fn] = map[int]*c03Mark{}
				}
				if cur == nil {
					cur = &c03Mark{on: map[int]bool{}}
					u.marks[fn][st.al.root] = cur
				}
				if on < 0 {
					cur.uncond = true
					changed = true
				} else if !cur.on[on] {
					cur.on[on] = true
					changed = true
				}
			}
		}
		if !changed {
			break
		}
	}
	return u
}

// ---------------------------------------------------------------------------

type c03Handler struct {
	fi     *FuncInfo
	region ast.Node
	kind   string // "=", ":=", "range"
}

func c03AssignIsNotUse(r *Run) {
	const R = "R-6"
	pk := r.P.Pkg(c03Compiler)
	if !r.Anchor(R, "package "+c03Compiler, pk != nil) {
		return
	}
	info := pk.TypesInfo
	tcNamed := r.P.Named(c03Compiler, "typechecker")
	if !r.Anchor(R, "type typechecker", tcNamed != nil) {
		return
	}
	// by role: the method of the type of typechecker.scopes, with one string parameter, that sets a field
	// `used` to true
	var scopesT types.Type
	if st, ok := tcNamed.Underlying().(*types.Struct); ok {
		for i := 0; i < st.NumFields(); i++ {
			if st.Field(i).Name() == "scopes" {
				scopesT = st.Field(i).Type()
			}
		}
	}
	if p, ok := scopesT.(*types.Pointer); ok {
		scopesT = p.Elem()
	}
	var marker *FuncInfo
	nMarker := 0
	for _, fi := range r.P.Funcs(c03Compiler) {
		if r.P.isTestFile(fi.File) || fi.Decl.Recv == nil || fi.Obj == nil || scopesT == nil {
			continue
		}
		sig := fi.Obj.Type().(*types.Signature)
		rt := sig.Recv().Type()
		if p, ok := rt.(*types.Pointer); ok {
			rt = p.Elem()
		}
		if !types.Identical(rt, scopesT) || sig.Params().Len() != 1 {
			continue
		}
		if b, ok := sig.Params().At(0).Type().(*types.Basic); !ok || b.Kind() != types.String {
			continue
		}
		sets := false
		ast.Inspect(fi.Decl.Body, func(n ast.Node) bool {
			if as, ok := n.(*ast.AssignStmt); ok && len(as.Lhs) == 1 && len(as.Rhs) == 1 {
				if sel, ok := as.Lhs[0].(*ast.SelectorExpr); ok && sel.Sel.Name == "used" {
					if tv, ok := info.Types[as.Rhs[0]]; ok && tv.Value != nil && tv.Value.String() == "true" {
						sets = true
					}
				}
			}
			return true
		})
		if sets {
			marker = fi
			nMarker++
		}
	}
	if !r.Anchor(R, "the method of the checker's scopes that sets the use mark of a name (one string parameter, assigns .used = true)", marker != nil && nMarker == 1) {
		return
	}
	u := c03NewUseSummary(r.P, marker.Obj)

	// the resolver of identifiers: the function that passes the Name of its identifier parameter to the marker
	var resolvers []*types.Func
	for fn, ms := range u.marks {
		for _, st := range u.sites[fn] {
			if st.viaNm && st.fn == marker.Obj && st.al.root >= 0 && ms[st.al.root].any() {
				resolvers = append(resolvers, fn)
				break
			}
		}
	}
	sort.Slice(resolvers, func(i, j int) bool { return funcKey(resolvers[i]) < funcKey(resolvers[j]) })
	if !r.Anchor(R, "a function passing the name of its identifier parameter to the use marker", len(resolvers) > 0) {
		return
	}
	for _, fn := range resolvers {
		for i, m := range u.marks[fn] {
			o := r.Ob(R, fmt.Sprintf("%s#marks-parameter-%d", funcKey(fn), i), u.decls[fn].Decl.Pos())
			if m.uncond {
				// an unconditional resolver is legitimate (package selectors); recorded for the reader
				o.Trivial("%s marks its parameter #%d as used on every call", funcKey(fn), i)
			} else {
				o.OK("%s marks its parameter #%d as used only %s: the left side of an assignment can be resolved without a use", funcKey(fn), i, m)
			}
		}
	}

	// handlers: the dispatch on the assignment type
	var handlers []c03Handler
	seenH := map[string]bool{}
	for _, fi := range r.P.Funcs(c03Compiler) {
		if r.P.isTestFile(fi.File) {
			continue
		}
		ast.Inspect(fi.Decl.Body, func(n ast.Node) bool {
			sw, ok := n.(*ast.SwitchStmt)
			if !ok || sw.Tag == nil {
				return true
			}
			sel, ok := ast.Unparen(sw.Tag).(*ast.SelectorExpr)
			if !ok || !c03IsAstNamed(info.TypeOf(sw.Tag), "AssignmentType") {
				return true
			}
			if t := info.TypeOf(sel.X); t == nil || !c03IsAstNamed(t, "Assignment") {
				return true
			}
			nodeID, _ := ast.Unparen(sel.X).(*ast.Ident)
			for _, c := range sw.Body.List {
				cc := c.(*ast.CaseClause)
				kind := ""
				for _, e := range cc.List {
					if k := constOf(info, e); k != nil {
						switch k.Name() {
						case "AssignmentSimple":
							kind = "="
						case "AssignmentDeclaration":
							kind = ":="
						}
					}
				}
				if kind == "" {
					continue
				}
				if len(cc.List) > 1 {
					kind = "=" // a clause shared with another assignment type: the weaker form of the rule
				}
				delegated := false
				for _, st := range cc.Body {
					for _, call := range calls(st, false) {
						fn := callee(info, call)
						h := u.decls[fn]
						if h == nil || nodeID == nil {
							continue
						}
						for _, a := range call.Args {
							if id, ok := ast.Unparen(a).(*ast.Ident); ok && info.Uses[id] == info.Uses[nodeID] {
								delegated = true
								key := funcKey(fn) + kind
								if !seenH[key] {
									seenH[key] = true
									handlers = append(handlers, c03Handler{fi: h, region: h.Decl.Body, kind: kind})
								}
							}
						}
					}
				}
				if !delegated && len(cc.Body) > 0 {
					// only the checker's own dispatch has a body that checks; emitter switches are not handlers
					if fi.Decl.Recv != nil && c03RecvIs(fi, tcNamed) {
						handlers = append(handlers, c03Handler{fi: fi, region: cc, kind: kind})
					}
				}
			}
			return true
		})
	}
	// keep the handlers of the type checker only (the emitter dispatches on the same field)
	var hs []c03Handler
	for _, h := range handlers {
		if c03RecvIs(h.fi, tcNamed) {
			hs = append(hs, h)
		}
	}
	handlers = hs
	hasKind := map[string]bool{}
	for _, h := range handlers {
		hasKind[h.kind] = true
	}
	r.Anchor(R, "the function the checker dispatches to for the assignment type AssignmentSimple", hasKind["="])
	r.Anchor(R, "the function the checker dispatches to for the assignment type AssignmentDeclaration", hasKind[":="])
	// range clause: functions of the checker reading <ForRange>.Assignment.Lhs
	for _, fi := range r.P.Funcs(c03Compiler) {
		if r.P.isTestFile(fi.File) || !c03RecvIs(fi, tcNamed) {
			continue
		}
		found := false
		ast.Inspect(fi.Decl.Body, func(n ast.Node) bool {
			if sel, ok := n.(*ast.SelectorExpr); ok && c03IsRangeLhs(info, sel) {
				found = true
			}
			return !found
		})
		if found {
			handlers = append(handlers, c03Handler{fi: fi, region: fi.Decl.Body, kind: "range"})
			hasKind["range"] = true
		}
	}
	r.Anchor(R, "the code checking the assignment of a range clause (<ForRange>.Assignment.Lhs)", hasKind["range"])

	n := 0
	for _, h := range handlers {
		h := h
		sc := &c03UseScan{fi: h.fi, info: info, alias: map[types.Object]c03Al{}, slices: map[types.Object]bool{}, okVars: map[types.Object]bool{}}
		sc.lhsOf = func(e ast.Expr) bool {
			sel, ok := e.(*ast.SelectorExpr)
			if !ok || sel.Sel.Name != "Lhs" {
				return false
			}
			if h.kind == "range" {
				return c03IsRangeLhs(info, sel)
			}
			t := info.TypeOf(sel.X)
			return t != nil && c03IsAstNamed(t, "Assignment") && !c03IsRangeAssignment(info, sel.X)
		}
		sc.propagate(h.region)
		for _, st := range sc.sites(h.region) {
			if st.viaNm && st.fn != marker.Obj {
				continue
			}
			var cm *c03Mark
			if st.viaNm {
				cm = &c03Mark{uncond: true}
			} else {
				cm = u.marks[st.fn][st.k]
			}
			what := map[string]string{"=": "an assignment", ":=": "a short variable declaration", "range": "the assignment of a range clause"}[h.kind]
			key := fmt.Sprintf("%s#lhs(%s)->%s", h.fi.Name(), h.kind, st.fn.Name())
			if !cm.any() {
				if !st.viaNm && u.touches[st.fn][st.k] {
					n++
					r.Ob(R, key, st.call.Pos()).OK("the left operand of %s is resolved through %s, which never marks an identifier received at this parameter as used", what, funcKey(st.fn))
				}
				continue // the callee never marks this parameter
			}
			n++
			o := r.Ob(R, key, st.call.Pos())
			// conditional callee: the constant passed for the bool parameter
			marks := cm.uncond
			if !cm.uncond {
				for j := range cm.on {
					if j >= len(st.call.Args) {
						marks = true
						continue
					}
					if tv, ok := info.Types[st.call.Args[j]]; ok && tv.Value != nil && tv.Value.String() == "false" {
						continue
					}
					marks = true
				}
			}
			switch {
			case !marks:
				o.OK("the left operand of %s is resolved by %s with the use flag false: not marked as used", what, funcKey(st.fn))
			case sc.notIdentAt(r.P, st):
				o.OK("the left operand of %s reaches %s, which marks identifiers as used, only when it is not an identifier", what, funcKey(st.fn))
			default:
				if why, ok := c03UseExceptions[h.fi.Name()+"#"+st.fn.Name()]; ok {
					o.Trivial("listed exception: %s", why)
					continue
				}
				o.Bad("the left operand of %s is passed to %s, which marks an identifier as used (%s): a variable that is only assigned is no longer reported as declared and not used, although the Go type checker rejects the program", what, funcKey(st.fn), cm)
			}
		}
	}
	for _, key := range sortedKeys(u.exc) {
		r.Ob(R, key+"#listed-exception", u.exc[key]).Trivial("listed exception: %s", c03UseExceptions[key])
	}
	r.Require(R, 7)
	r.Stats["R-6 functions with a marking parameter"] = len(u.marks)
	r.Stats["R-6 sites on the left side of pure assignments"] = n
}

func c03RecvIs(fi *FuncInfo, named *types.Named) bool {
	if fi == nil || fi.Obj == nil || named == nil {
		return false
	}
	sig := fi.Obj.Type().(*types.Signature)
	if sig.Recv() == nil {
		return false
	}
	t := sig.Recv().Type()
	if p, ok := t.(*types.Pointer); ok {
		t = p.Elem()
	}
	return types.Identical(t, named)
}

// <X>.Assignment with X a *ast.ForRange
func c03IsRangeAssignment(info *types.Info, e ast.Expr) bool {
	sel, ok := ast.Unparen(e).(*ast.SelectorExpr)
	if !ok || sel.Sel.Name != "Assignment" {
		return false
	}
	t := info.TypeOf(sel.X)
	return t != nil && c03IsAstNamed(t, "ForRange")
}

func c03IsRangeLhs(info *types.Info, sel *ast.SelectorExpr) bool {
	return sel.Sel.Name == "Lhs" && c03IsRangeAssignment(info, sel.X)
}
