package main

// C09 R-4 (added after seeded change C09-4): the static check looks into every field the renderer can
// show. A recursive acceptance function of the type checker (one that takes a reflect.Type, switches on
// its kind and calls itself on the element / field types) may skip a struct field only for a reason that
// is a property of the TYPE and that the renderer applies in exactly the same way: the field is not
// exported. Every other skip (a json tag, a helper predicate) can disagree with the renderer — which
// decides on the exact tag "-" and on run-time emptiness — and then a value builds and fails at run time
// with "cannot show value of type …". In the struct clause of such a function, the recursive call on the
// field's type is guarded, inside the loop over the fields, only by exportedness tests.

import (
	"go/ast"
	"go/token"
	"go/types"
	"strings"
)

func init() {
	p := registry["C09"]
	if p == nil {
		return
	}
	run := p.run
	p.run = func(r *Run) { run(r); c09FieldCoverage(r) }
	p.explain += " R-4: the recursive acceptance functions of the type checker skip a struct field only because it is not exported (the one reason the renderer applies identically)."
}

func c09FieldCoverage(r *Run) {
	const R = "R-4"
	n := 0
	for _, fi := range r.P.Funcs("internal/compiler") {
		if r.P.isTestFile(fi.File) || fi.Obj == nil {
			continue
		}
		info := fi.Pkg.TypesInfo
		sig := fi.Obj.Type().(*types.Signature)
		if sig.Params().Len() == 0 || typeStr(sig.Params().At(0).Type()) != "reflect.Type" {
			continue
		}
		par := r.P.Parents(fi.File)
		for _, c := range calls(fi.Decl.Body, false) {
			if callee(info, c) != fi.Obj || len(c.Args) == 0 {
				continue
			}
			// the argument is <field>.Type with field of type reflect.StructField
			sel, ok := ast.Unparen(c.Args[0]).(*ast.SelectorExpr)
			if !ok || sel.Sel.Name != "Type" || typeStr(info.TypeOf(sel.X)) != "reflect.StructField" {
				continue
			}
			fieldS := exprStr(sel.X)
			// enclosing loop
			var loop ast.Node
			for p := par[ast.Node(c)]; p != nil; p = par[p] {
				if _, ok := p.(*ast.RangeStmt); ok {
					loop = p
					break
				}
				if _, ok := p.(*ast.ForStmt); ok {
					loop = p
					break
				}
			}
			if loop == nil {
				continue
			}
			n++
			o := r.Ob(R, fi.Name()+"#field-recursion:"+fieldS, c.Pos())
			var guards []string
			exported := func(e ast.Expr, truth bool) bool {
				e = ast.Unparen(e)
				if u, ok := e.(*ast.UnaryExpr); ok && u.Op == token.NOT {
					e, truth = ast.Unparen(u.X), !truth
				}
				s := strings.ReplaceAll(exprStr(e), " ", "")
				switch s {
				case fieldS + `.PkgPath==""`, fieldS + ".IsExported()":
					return truth
				case fieldS + `.PkgPath!=""`:
					return !truth
				}
				return false
			}
			bad := ""
			// conditions of the ifs enclosing the call, up to the loop
			child := ast.Node(c)
			for p := par[child]; p != nil && p != loop; p = par[p] {
				if is, ok := p.(*ast.IfStmt); ok {
					inBody := containsNode(is.Body, child)
					if containsNode(is.Cond, child) || (is.Init != nil && containsNode(is.Init, child)) {
						child = p
						continue // the call is the condition itself (if err := f(field.Type); err != nil)
					}
					guards = append(guards, exprStr(is.Cond))
					if !exported(is.Cond, inBody) {
						bad = "the call is under the condition `" + exprStr(is.Cond) + "`"
					}
				}
				child = p
			}
			// `if cond { continue }` statements of the loop body that precede the call
			var body *ast.BlockStmt
			switch l := loop.(type) {
			case *ast.RangeStmt:
				body = l.Body
			case *ast.ForStmt:
				body = l.Body
			}
			ast.Inspect(body, func(m ast.Node) bool {
				is, ok := m.(*ast.IfStmt)
				if !ok || is.Pos() > c.Pos() {
					return true
				}
				skips := false
				ast.Inspect(is.Body, func(q ast.Node) bool {
					if b, ok := q.(*ast.BranchStmt); ok && b.Tok == token.CONTINUE {
						skips = true
					}
					return true
				})
				if skips && !containsNode(is, c) {
					guards = append(guards, "!("+exprStr(is.Cond)+")")
					if !exported(is.Cond, false) {
						bad = "the field is skipped (`continue`) under the condition `" + exprStr(is.Cond) + "`"
					}
				}
				return true
			})
			if bad == "" {
				o.OK("the field type is checked for every exported field (guards: %s)", strings.Join(guards, ", "))
			} else {
				o.Bad("%s, which is not an exportedness test of the field: the renderer decides which fields it shows by the exact tag \"-\" and by run-time emptiness, so a field skipped here can still be shown — a type that builds and fails at run time with 'cannot show value of type …'", bad)
			}
		}
	}
	r.Require(R, 2)
}
