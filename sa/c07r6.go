package main

// C07 R-6 (added after seeded change C07-5): the URL flags the emitter gives to the Text and Show
// instructions describe the URL attribute being emitted, and nothing outside it.
//
// While it emits the nodes of a URL attribute (*ast.URL) the emitter holds two flags in its own state — "in
// a URL" and "the URL is a set (srcset)" — that every Text and Show instruction emitted meanwhile carries to
// the renderer. The renderer escapes a value shown in a URL according to them (in a set a comma in the
// literal text starts a new URL and leaves the query: the next value is path-escaped). The emitter is one
// object for the whole compilation, so a flag that is set for one attribute and neither recomputed for the
// next nor put back is inherited by every URL emitted later, in this file or another: after one dynamic
// srcset, href="/map?ll=45.07,7.68&amp;q={{ v }}" escapes v as a path and "a&b=c" no longer decodes to itself.
//
// For every boolean field f of the emitter assigned in the clause of *ast.URL of the node type switch, with
// E the calls of emitter methods in the clause reached after an assignment of f (the emission of the
// attribute's nodes):
//   A(f)  every path from the clause entry to a call of E assigns f from an expression not reading f;
//   B(f)  f is assigned nowhere else in the package and every path from an assignment of a value other
//         than false to the end of the clause assigns false (or a value saved from f before).
// If the only values f receives before E are the constant true (the flag says "inside"), B(f) is required;
// otherwise A(f) or B(f).

import (
	"go/ast"
	"go/token"
	"go/types"
	"sort"
	"strings"

	"golang.org/x/tools/go/cfg"
)

func init() {
	p := registry["C07"]
	if p == nil {
		return
	}
	run := p.run
	p.run = func(r *Run) { run(r); c07URLScope(r) }
	p.explain += " R-6: each boolean URL flag the emitter sets in the clause of *ast.URL is, while the attribute's nodes are emitted, a function of that node (assigned on every path from the clause entry) or false outside the clause (assigned nowhere else and put back to false on every path to the end of the clause); a flag that is only ever set to true must be put back."
}

func c07URLScope(r *Run) {
	const R = "R-6"
	const rel = "internal/compiler"
	urlT := r.P.Named("ast", "URL")
	if !r.Anchor(R, "ast.URL", urlT != nil) {
		return
	}
	type site struct {
		fi *FuncInfo
		cc *ast.CaseClause
	}
	var sites []site
	for _, fi := range r.P.Funcs(rel) {
		if r.P.isTestFile(fi.File) || fi.Decl.Recv == nil {
			continue
		}
		info := fi.Pkg.TypesInfo
		ast.Inspect(fi.Decl.Body, func(n ast.Node) bool {
			ts, ok := n.(*ast.TypeSwitchStmt)
			if !ok {
				return true
			}
			for _, st := range ts.Body.List {
				cc := st.(*ast.CaseClause)
				for _, e := range cc.List {
					if t := info.TypeOf(e); t != nil {
						if p, ok := t.(*types.Pointer); ok && types.Identical(p.Elem(), urlT) {
							sites = append(sites, site{fi, cc})
						}
					}
				}
			}
			return true
		})
	}
	// the emitting clause: the one assigning boolean fields of the receiver
	n := 0
	for _, s := range sites {
		fi, cc := s.fi, s.cc
		info := fi.Pkg.TypesInfo
		var recv types.Object
		if len(fi.Decl.Recv.List) == 1 && len(fi.Decl.Recv.List[0].Names) == 1 {
			recv = info.Defs[fi.Decl.Recv.List[0].Names[0]]
		}
		if recv == nil {
			continue
		}
		fieldOf := func(e ast.Expr) *types.Var {
			sel, ok := ast.Unparen(e).(*ast.SelectorExpr)
			if !ok {
				return nil
			}
			id, ok := ast.Unparen(sel.X).(*ast.Ident)
			if !ok || info.Uses[id] != recv {
				return nil
			}
			v, _ := info.Uses[sel.Sel].(*types.Var)
			if v == nil || !v.IsField() {
				return nil
			}
			if b, ok := v.Type().Underlying().(*types.Basic); !ok || b.Kind() != types.Bool {
				return nil
			}
			return v
		}
		fields := map[*types.Var]bool{}
		var order []*types.Var
		for _, st := range cc.Body {
			ast.Inspect(st, func(m ast.Node) bool {
				if _, ok := m.(*ast.FuncLit); ok {
					return false
				}
				if as, ok := m.(*ast.AssignStmt); ok {
					for _, l := range as.Lhs {
						if f := fieldOf(l); f != nil && !fields[f] {
							fields[f] = true
							order = append(order, f)
						}
					}
				}
				return true
			})
		}
		if len(order) == 0 {
			continue
		}
		c := r.P.CFGOf(fi)
		inClause := func(nd ast.Node) bool { return nd.Pos() > cc.Colon && nd.End() <= cc.End() }
		// assignment of f in a CFG node: (found, rhs)
		assignOf := func(nd ast.Node, f *types.Var) (bool, ast.Expr) {
			as, ok := nd.(*ast.AssignStmt)
			if !ok {
				return false, nil
			}
			for i, l := range as.Lhs {
				if fieldOf(l) == f {
					if len(as.Lhs) == len(as.Rhs) {
						return true, as.Rhs[i]
					}
					return true, nil
				}
			}
			return false, nil
		}
		isEmit := func(nd ast.Node) bool {
			for _, call := range calls(nd, false) {
				if sel, ok := ast.Unparen(call.Fun).(*ast.SelectorExpr); ok {
					if id, ok := ast.Unparen(sel.X).(*ast.Ident); ok && info.Uses[id] == recv {
						if _, isM := info.Uses[sel.Sel].(*types.Func); isM {
							return true
						}
					}
				}
			}
			return false
		}
		// entry: the CFG node of the clause with the smallest position
		var entry *cfg.Block
		entryIdx := 0
		var best token.Pos = token.Pos(1 << 40)
		for _, b := range c.G.Blocks {
			for i, nd := range b.Nodes {
				if inClause(nd) && nd.Pos() < best {
					entry, entryIdx, best = b, i, nd.Pos()
				}
			}
		}
		if entry == nil {
			continue
		}
		// walk visits the nodes of the clause reachable from (b, idx); stop(nd) ends a path; exit() is called when a path leaves the clause
		type pt struct {
			b *cfg.Block
			i int
		}
		walk := func(b *cfg.Block, idx int, visit func(nd ast.Node) bool, exit func()) {
			seen := map[pt]bool{}
			var rec func(b *cfg.Block, idx int)
			rec = func(b *cfg.Block, idx int) {
				if seen[pt{b, idx}] {
					return
				}
				seen[pt{b, idx}] = true
				for i := idx; i < len(b.Nodes); i++ {
					if !inClause(b.Nodes[i]) {
						exit()
						return
					}
					if visit(b.Nodes[i]) {
						return
					}
				}
				if len(b.Succs) == 0 {
					exit()
					return
				}
				for _, s := range b.Succs {
					rec(s, 0)
				}
			}
			rec(b, idx)
		}
		// assignments of f elsewhere in the package
		elsewhere := func(f *types.Var) string {
			for _, g := range r.P.Funcs(rel) {
				if r.P.isTestFile(g.File) {
					continue
				}
				where := ""
				ast.Inspect(g.Decl.Body, func(m ast.Node) bool {
					if as, ok := m.(*ast.AssignStmt); ok {
						for _, l := range as.Lhs {
							if sel, ok := ast.Unparen(l).(*ast.SelectorExpr); ok && g.Pkg.TypesInfo.Uses[sel.Sel] == types.Object(f) {
								if !(g == fi || g.Obj == fi.Obj) || !inClause(as) {
									where = r.P.Pos(as.Pos())
								}
							}
						}
					}
					return true
				})
				if where != "" {
					return where
				}
			}
			return ""
		}
		for _, f := range order {
			n++
			o := r.Ob(R, fi.Name()+"#URL:"+f.Name(), cc.Pos())
			// assignments of f in the clause and the emission calls after them
			type asg struct {
				b   *cfg.Block
				i   int
				rhs ast.Expr
				pos token.Pos
			}
			var asgs []asg
			for _, b := range c.G.Blocks {
				if !b.Live {
					continue
				}
				for i, nd := range b.Nodes {
					if inClause(nd) {
						if ok, rhs := assignOf(nd, f); ok {
							asgs = append(asgs, asg{b, i, rhs, nd.Pos()})
						}
					}
				}
			}
			sort.Slice(asgs, func(i, j int) bool { return asgs[i].pos < asgs[j].pos })
			emits := map[ast.Node]bool{}
			onlyTrue := true
			anyBefore := false
			for _, a := range asgs {
				reaches := false
				walk(a.b, a.i+1, func(nd ast.Node) bool {
					if isEmit(nd) {
						emits[nd] = true
						reaches = true
					}
					return false
				}, func() {})
				if reaches {
					anyBefore = true
					if b, ok := c07BoolConst(info, a.rhs); a.rhs == nil || !ok || !b {
						onlyTrue = false
					}
				}
			}
			if !anyBefore {
				o.Trivial("%s is assigned in the clause but no node is emitted afterwards", f.Name())
				continue
			}
			// A(f)
			aWhy := ""
			walk(entry, entryIdx, func(nd ast.Node) bool {
				if ok, rhs := assignOf(nd, f); ok {
					reads := rhs == nil
					if rhs != nil {
						ast.Inspect(rhs, func(m ast.Node) bool {
							if e, ok := m.(ast.Expr); ok && fieldOf(e) == f {
								reads = true
							}
							return true
						})
					}
					if reads {
						aWhy = "it is assigned from its own previous value at " + r.P.Pos(nd.Pos())
					}
					return true
				}
				if emits[nd] && aWhy == "" {
					aWhy = "the nodes of the attribute are emitted at " + r.P.Pos(nd.Pos()) + " on a path that does not assign it (it keeps the value left by the previous URL)"
				}
				return false
			}, func() {})
			// B(f)
			bWhy := elsewhere(f)
			if bWhy != "" {
				bWhy = "it is also assigned at " + bWhy
			} else {
				saved := func(rhs ast.Expr) bool { // a local saved from f
					id, ok := ast.Unparen(rhs).(*ast.Ident)
					if !ok {
						return false
					}
					defs := c06Defs(info, fi.Decl.Body, c06Obj(info, id))
					return len(defs) == 1 && defs[0].Rhs != nil && fieldOf(defs[0].Rhs) == f
				}
				for _, a := range asgs {
					if b, ok := c07BoolConst(info, a.rhs); ok && !b {
						continue
					}
					if a.rhs != nil && saved(a.rhs) {
						continue
					}
					walk(a.b, a.i+1, func(nd ast.Node) bool {
						if ok, rhs := assignOf(nd, f); ok {
							if b, isC := c07BoolConst(info, rhs); (isC && !b) || (rhs != nil && saved(rhs)) {
								return true
							}
						}
						return false
					}, func() {
						if bWhy == "" {
							bWhy = "after the assignment at " + r.P.Pos(a.pos) + " the clause can end without putting it back to false"
						}
					})
				}
			}
			switch {
			case onlyTrue && bWhy == "":
				o.OK("%s is set to true for the nodes of the attribute and put back to false on every path to the end of the clause; it is assigned nowhere else", f.Name())
			case onlyTrue:
				o.Bad("the emitter flag %s is only ever set to true in the clause of *ast.URL and %s: once set it is carried by the Text and Show instructions of every URL emitted later in the compilation (other attributes, other files, macro bodies), whose values are then escaped for the wrong part of the URL", f.Name(), bWhy)
			case aWhy == "":
				o.OK("%s is assigned from the node on every path before the nodes of the attribute are emitted", f.Name())
			case bWhy == "":
				o.OK("%s is false outside the clause: assigned nowhere else and put back to false on every path to its end", f.Name())
			default:
				o.Bad("the emitter flag %s is neither recomputed for each URL attribute (%s) nor false outside the clause (%s): the Text and Show instructions of a later URL carry the value left by an earlier one and its values are escaped for the wrong part of the URL", f.Name(), aWhy, bWhy)
			}
		}
	}
	if n == 0 {
		r.Ob(R, "compiler#URL-clause", token.NoPos).Unknown("no clause of *ast.URL assigning boolean fields of its receiver was found (%d clauses of *ast.URL): %s", len(sites), strings.TrimSpace("the emitter's URL state was reshaped, the rule must be re-confirmed"))
	}
	r.Require(R, 2)
}
