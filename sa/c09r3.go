package main

// C09 R-3 (added after seeded changes C09-2 and C09-3): every shown expression reaches the static
// show check, with its own type and the context of its show statement.
//
// R-1 compares the acceptance table with the runtime's; it is worth nothing if a show can get past
// the table. In the clause that type checks a show statement: (a) the loop over the statement's
// expressions type checks the loop variable itself (not a part of it), (b) the type given to the show
// check is the type just computed and the context is the statement's, (c) nothing but a nil test of the
// type information lets an expression skip the check (no cache, no early continue on another condition).

import (
	"go/ast"
	"go/types"
)

func init() {
	prev := registry["C09"]
	if prev == nil {
		return
	}
	run := prev.run
	prev.run = func(r *Run) {
		run(r)
		c09CheckReached(r)
	}
	prev.explain += " R-3: in the type checker's show clause every expression of the statement is type checked as a whole and its type reaches the static show check with the statement's context; only a nil test of the type information can skip the check."
}

func c09CheckReached(r *Run) {
	const R = "R-3"
	x := &c09{r: r}
	x.kindT = r.P.ExtNamed("reflect", "Kind")
	x.ctxT = r.P.Named("ast", "Context")
	if x.kindT == nil || x.ctxT == nil {
		return
	}
	chk := x.findCheckShow()
	if !r.Anchor(R, "compiler.checkShow", chk != nil) {
		return
	}
	nsites := 0
	for _, fi := range r.P.Funcs("internal/compiler") {
		if r.P.isTestFile(fi.File) || fi.Obj == chk.Obj {
			continue
		}
		info := fi.Pkg.TypesInfo
		par := r.P.Parents(fi.File)
		for _, call := range calls(fi.Decl.Body, true) {
			if callee(info, call) != chk.Obj || len(call.Args) != 2 {
				continue
			}
			nsites++
			key := fi.Name() + "#checkShow"
			// enclosing range over the Expressions of a show statement
			var outer *ast.RangeStmt
			var inner *ast.RangeStmt
			for p := par[ast.Node(call)]; p != nil; p = par[p] {
				if rs, ok := p.(*ast.RangeStmt); ok {
					if sel, ok := ast.Unparen(rs.X).(*ast.SelectorExpr); ok && sel.Sel.Name == "Expressions" && outer == nil {
						outer = rs
						break
					}
					if inner == nil {
						inner = rs
					}
				}
			}
			if outer == nil {
				r.Ob(R, key+":loop", call.Pos()).Unknown("the show check is not inside a loop over the Expressions of the show statement: shape not recognised")
				continue
			}
			exprVar := objOfIdent(info, outer.Value)
			// (b) context argument: <show node>.Context with the same node as outer.X's base
			oc := r.Ob(R, key+":context", call.Args[1].Pos())
			if cs, ok := ast.Unparen(call.Args[1]).(*ast.SelectorExpr); ok && cs.Sel.Name == "Context" &&
				exprStr(cs.X) == exprStr(ast.Unparen(outer.X).(*ast.SelectorExpr).X) {
				oc.OK("context is %s, the context of the statement whose expressions are checked", exprStr(call.Args[1]))
			} else {
				oc.Bad("the context given to the show check is %s, not the Context of the show statement being checked", exprStr(call.Args[1]))
			}
			// (a) the type derives from type checking the loop variable itself
			ot := r.Ob(R, key+":type-of-whole-expression", call.Args[0].Pos())
			tiVar := rootIdentObj(info, call.Args[0])
			okType := false
			why := "the type given to the show check does not come from type checking the expression of the loop"
			if tiVar != nil {
				// tiVar is the value variable of `inner` ranging over tis, or assigned directly from a check call
				var src ast.Expr
				if inner != nil && objOfIdent(info, inner.Value) == tiVar {
					src = inner.X
				}
				srcObj := rootIdentObj(info, src)
				// find the definition of srcObj (or of tiVar) inside the outer loop body: a call whose arguments include exprVar
				target := srcObj
				if target == nil {
					target = tiVar
				}
				ast.Inspect(outer.Body, func(n ast.Node) bool {
					as, ok := n.(*ast.AssignStmt)
					if !ok || len(as.Rhs) != 1 {
						return true
					}
					defines := false
					for _, l := range as.Lhs {
						if objOfIdent(info, l) == target {
							defines = true
						}
					}
					if !defines {
						return true
					}
					if c, ok := ast.Unparen(as.Rhs[0]).(*ast.CallExpr); ok && len(c.Args) > 0 {
						if objOfIdent(info, c.Args[0]) == exprVar && exprVar != nil {
							okType = true
						} else {
							why = "the expression type checked is " + exprStr(c.Args[0]) + ", not the loop variable " + exprStr(outer.Value) + ": a part of the shown expression escapes the show check"
						}
					}
					return true
				})
			}
			if okType {
				ot.OK("the type comes from type checking %s itself", exprStr(outer.Value))
			} else {
				ot.Bad("%s", why)
			}
			// (c) only nil tests of the type information may skip the check
			og := r.Ob(R, key+":no-bypass", call.Pos())
			bad := ""
			allowed := func(cond ast.Expr) bool {
				ok := true
				ast.Inspect(cond, func(n ast.Node) bool {
					if id, isID := n.(*ast.Ident); isID {
						if v, isVar := info.Uses[id].(*types.Var); isVar && v != tiVar {
							ok = false
						}
					}
					return true
				})
				return ok
			}
			// enclosing conditions
			for p := par[ast.Node(call)]; p != nil && p != ast.Node(outer); p = par[p] {
				if is, ok := p.(*ast.IfStmt); ok && !containsNode(is.Cond, call) {
					if !allowed(is.Cond) {
						bad = exprStr(is.Cond)
					}
				}
				// preceding early exits in the same statement list
				if blk, ok := p.(*ast.BlockStmt); ok {
					for _, st := range blk.List {
						if st.End() > call.Pos() {
							break
						}
						is, ok := st.(*ast.IfStmt)
						if !ok || len(is.Body.List) == 0 {
							continue
						}
						if br, ok := is.Body.List[len(is.Body.List)-1].(*ast.BranchStmt); ok && (br.Tok.String() == "continue" || br.Tok.String() == "break" || br.Tok.String() == "goto") {
							if !allowed(is.Cond) {
								bad = exprStr(is.Cond)
							}
						}
					}
				}
			}
			if bad == "" {
				og.OK("only conditions on the type information itself guard the check")
			} else {
				og.Bad("the condition `%s` lets a shown expression skip the static show check: a type not accepted in this context then fails only at run time", bad)
			}
		}
	}
	if nsites == 0 {
		r.Ob(R, "compiler#checkShow-call", chk.Decl.Pos()).Bad("checkShow is never called: no show is checked statically")
	}
	r.Require(R, 3)
}

func objOfIdent(info *types.Info, e ast.Expr) types.Object {
	if e == nil {
		return nil
	}
	id, ok := ast.Unparen(e).(*ast.Ident)
	if !ok {
		return nil
	}
	if o := info.Defs[id]; o != nil {
		return o
	}
	return info.Uses[id]
}

// rootIdentObj returns the variable at the root of x, x.F, x.F.G, x[i].
func rootIdentObj(info *types.Info, e ast.Expr) types.Object {
	for e != nil {
		switch x := ast.Unparen(e).(type) {
		case *ast.Ident:
			return objOfIdent(info, x)
		case *ast.SelectorExpr:
			e = x.X
		case *ast.IndexExpr:
			e = x.X
		default:
			return nil
		}
	}
	return nil
}
