package main

// C17 R-8 (added after seeded change C17-4): the cells of one Run are not kept by anything that outlives it.
//
// Template.Run allocates (or takes from the caller's pointers) one cell per global variable for every
// execution; the compiled code - runtime.Function, runtime.NativeFunction, the Template itself - and the
// package-level variables are shared by all executions of a template, also concurrent ones. A value derived
// from the cells of the running execution (VM.vars, env.globals, the vars of a callable, the result of the
// function that binds Run's variables) that is stored into one of those objects is found again by the next
// Run, whose references then read and write the variables of an earlier Run (and the pointers its caller
// passed), while the other references use the new cells.
//
// The derivation is a small flow analysis on the typed syntax: a local is "of this run" when a value whose
// type can hold a reflect.Value and that mentions a source, or such a local, is assigned to it or to one of
// its elements; a parameter is "of this run" when some call passes such a value.

import (
	"go/ast"
	"go/token"
	"go/types"
	"sort"
	"strings"
)

func init() {
	p := registry["C17"]
	if p == nil {
		return
	}
	run := p.run
	p.run = func(r *Run) { run(r); c17CellsDoNotOutliveRun(r) }
	p.explain += " R-8: in internal/runtime and in the root package no assignment stores a value derived from the cells of the running execution (VM.vars, env.globals, callable.vars, the result of the functions that bind the variables of a Run; followed through locals, elements and parameters) into a field of runtime.Function, runtime.NativeFunction, scriggo.Template or scriggo.Program, or into a package-level variable: those are shared by every Run of a template."
}

type c17cells struct {
	r        *Run
	fns      []*FuncInfo
	byObj    map[*types.Func]*FuncInfo
	sources  map[*types.Var]bool // fields
	binders  map[*types.Func]bool
	longLive []*types.Named
	tainted  map[types.Object]bool // locals and parameters
}

func c17CellsDoNotOutliveRun(r *Run) {
	const R = "R-8"
	r.Require(R, 4)
	x := &c17cells{r: r, byObj: map[*types.Func]*FuncInfo{}, sources: map[*types.Var]bool{}, tainted: map[types.Object]bool{}, binders: map[*types.Func]bool{}}
	vmT := r.P.Named("internal/runtime", "VM")
	envT := r.P.Named("internal/runtime", "env")
	clT := r.P.Named("internal/runtime", "callable")
	fnT := r.P.Named("internal/runtime", "Function")
	nfT := r.P.Named("internal/runtime", "NativeFunction")
	tmT := r.P.Named("", "Template")
	for _, f := range []*types.Var{c17structField(vmT, "vars"), c17structField(envT, "globals"), c17structField(clT, "vars")} {
		if f != nil {
			x.sources[f] = true
		}
	}
	if !r.Anchor(R, "runtime.VM.vars, env.globals, callable.vars, runtime.Function, runtime.NativeFunction, scriggo.Template", len(x.sources) == 3 && fnT != nil && nfT != nil && tmT != nil) {
		return
	}
	x.longLive = []*types.Named{fnT, nfT, tmT}
	if pT := r.P.Named("", "Program"); pT != nil {
		x.longLive = append(x.longLive, pT)
	}
	for _, rel := range []string{"", "internal/runtime"} {
		for _, fi := range r.P.Funcs(rel) {
			if fi.Obj != nil && !r.P.isTestFile(fi.File) {
				x.fns = append(x.fns, fi)
				x.byObj[fi.Obj] = fi
			}
		}
	}
	sort.Slice(x.fns, func(i, j int) bool { return c17less(x.fns[i], x.fns[j]) })
	// the binder of Run's variables, by role (as in R-5)
	for _, fi := range x.fns {
		if relOf(fi.Obj.Pkg()) != "scriggo" || fi.Decl.Recv != nil {
			continue
		}
		sig := fi.Obj.Type().(*types.Signature)
		if sig.Params().Len() >= 1 && strings.HasSuffix(typeStr(sig.Params().At(0).Type()), "[]compiler.Global") && sig.Results().Len() == 1 && typeStr(sig.Results().At(0).Type()) == "[]reflect.Value" {
			x.binders[fi.Obj] = true
		}
	}
	if !r.Anchor(R, "the function binding Run's variables", len(x.binders) > 0) {
		return
	}
	// fixpoint over locals and parameters
	for round := 0; round < 8; round++ {
		changed := false
		for _, fi := range x.fns {
			if x.propagate(fi) {
				changed = true
			}
		}
		if !changed {
			break
		}
	}
	// sinks
	type hit struct {
		fi   *FuncInfo
		as   *ast.AssignStmt
		sink string
		val  ast.Expr
	}
	var hits []hit
	examined := map[string]int{}
	for _, fi := range x.fns {
		info := fi.Pkg.TypesInfo
		ast.Inspect(fi.Decl.Body, func(n ast.Node) bool {
			as, ok := n.(*ast.AssignStmt)
			if !ok {
				return true
			}
			for i, l := range as.Lhs {
				sink, group := x.sinkOf(info, l)
				if sink == "" {
					continue
				}
				examined[group]++
				var v ast.Expr
				if len(as.Lhs) == len(as.Rhs) {
					v = as.Rhs[i]
				} else if len(as.Rhs) == 1 {
					v = as.Rhs[0]
				}
				if v != nil && x.isTainted(info, v) {
					hits = append(hits, hit{fi, as, sink, v})
				}
			}
			return true
		})
	}
	bad := map[string]bool{}
	for _, h := range hits {
		group := h.sink
		if strings.HasPrefix(group, "variable ") {
			group = "variable"
		} else if i := strings.LastIndex(group, "."); i >= 0 {
			group = group[:i]
		}
		bad[group] = true
		r.Ob(R, funcKey(h.fi.Obj)+"#stores-cells-of-the-run-into:"+h.sink, h.as.Pos()).Bad("%s, derived from the variables of the running execution, is stored into %s, which is shared by every Run of the template: from the second Run on (or in a concurrent one) the references that go through it read and write the cells, and the caller's pointers, of an earlier Run, while the other references use the values given to this Run", exprStr(h.val), h.sink)
	}
	for _, t := range x.longLive {
		name := relOf(t.Obj().Pkg()) + "." + t.Obj().Name()
		if bad[name] {
			continue
		}
		r.Ob(R, name+"#holds-no-cells-of-a-run", t.Obj().Pos()).OK("none of the %d assignments to (a part of) a field of %s in internal/runtime and the root package stores a value derived from VM.vars, env.globals, callable.vars or %s", examined[name], name, c17binderNames(x.binders))
	}
	if !bad["variable"] {
		r.Ob(R, "package-variables#hold-no-cells-of-a-run", token.NoPos).OK("none of the %d assignments to a package-level variable of internal/runtime and the root package stores a value derived from the cells of a Run", examined["variable"])
	}
}

// holdsCell reports whether a value of type t can contain a reflect.Value.
func c17holdsCell(t types.Type, seen map[types.Type]bool) bool {
	if t == nil || seen[t] {
		return false
	}
	seen[t] = true
	switch u := t.(type) {
	case *types.Named:
		if u.Obj().Pkg() != nil && u.Obj().Pkg().Path() == "reflect" && u.Obj().Name() == "Value" {
			return true
		}
		return c17holdsCell(u.Underlying(), seen)
	case *types.Alias:
		return c17holdsCell(types.Unalias(u), seen)
	case *types.Pointer:
		return c17holdsCell(u.Elem(), seen)
	case *types.Slice:
		return c17holdsCell(u.Elem(), seen)
	case *types.Array:
		return c17holdsCell(u.Elem(), seen)
	case *types.Chan:
		return c17holdsCell(u.Elem(), seen)
	case *types.Map:
		return c17holdsCell(u.Key(), seen) || c17holdsCell(u.Elem(), seen)
	case *types.Struct:
		for i := 0; i < u.NumFields(); i++ {
			if c17holdsCell(u.Field(i).Type(), seen) {
				return true
			}
		}
	}
	return false
}

// isTainted: e can hold a cell and mentions a source field, a call of the binder, or a tainted object.
func (x *c17cells) isTainted(info *types.Info, e ast.Expr) bool {
	if e == nil {
		return false
	}
	if t := info.TypeOf(e); t == nil || !c17holdsCell(t, map[types.Type]bool{}) {
		return false
	}
	found := false
	ast.Inspect(e, func(n ast.Node) bool {
		if found {
			return false
		}
		switch m := n.(type) {
		case *ast.FuncLit:
			return false
		case *ast.SelectorExpr:
			if f := c17fieldOf(info, m); f != nil && x.sources[f] {
				found = true
			}
		case *ast.CallExpr:
			if x.binders[callee(info, m)] {
				found = true
			}
			// len(x), cap(x) do not carry cells
			if isBuiltinCall(info, m, "len") || isBuiltinCall(info, m, "cap") {
				return false
			}
		case *ast.Ident:
			if o := info.Uses[m]; o != nil && x.tainted[o] {
				found = true
			}
		}
		return !found
	})
	return found
}

// rootObj returns the variable at the root of an addressable expression (v, v[i], v.f, *v).
func c17rootObj(info *types.Info, e ast.Expr) types.Object {
	for {
		switch m := ast.Unparen(e).(type) {
		case *ast.Ident:
			return cgxObj(info, m)
		case *ast.IndexExpr:
			e = m.X
		case *ast.StarExpr:
			e = m.X
		case *ast.SelectorExpr:
			if s := info.Selections[m]; s != nil && s.Kind() == types.FieldVal {
				e = m.X
			} else {
				return cgxObj(info, m.Sel)
			}
		case *ast.SliceExpr:
			e = m.X
		default:
			return nil
		}
	}
}

// propagate marks the locals of fi, and the parameters of the functions it calls, that receive cells.
func (x *c17cells) propagate(fi *FuncInfo) bool {
	info := fi.Pkg.TypesInfo
	changed := false
	mark := func(o types.Object) {
		if o == nil || x.tainted[o] {
			return
		}
		v, ok := o.(*types.Var)
		if !ok || v.IsField() || (v.Pkg() != nil && v.Parent() == v.Pkg().Scope()) {
			return
		}
		if !c17holdsCell(v.Type(), map[types.Type]bool{}) {
			return
		}
		x.tainted[o] = true
		changed = true
	}
	ast.Inspect(fi.Decl.Body, func(n ast.Node) bool {
		switch s := n.(type) {
		case *ast.AssignStmt:
			for i, l := range s.Lhs {
				var v ast.Expr
				if len(s.Lhs) == len(s.Rhs) {
					v = s.Rhs[i]
				} else if len(s.Rhs) == 1 {
					v = s.Rhs[0]
				}
				if v != nil && x.isTainted(info, v) {
					mark(c17rootObj(info, l))
				}
			}
		case *ast.ValueSpec:
			for i, id := range s.Names {
				var v ast.Expr
				if len(s.Values) == len(s.Names) {
					v = s.Values[i]
				} else if len(s.Values) == 1 {
					v = s.Values[0]
				}
				if v != nil && x.isTainted(info, v) {
					mark(info.Defs[id])
				}
			}
		case *ast.RangeStmt:
			if x.isTainted(info, s.X) && s.Value != nil {
				mark(cgxObj(info, s.Value))
			}
		case *ast.CallExpr:
			f := callee(info, s)
			g := x.byObj[f]
			if g == nil {
				// copy(dst, src)
				if isBuiltinCall(info, s, "copy") && len(s.Args) == 2 && x.isTainted(info, s.Args[1]) {
					mark(c17rootObj(info, s.Args[0]))
				}
				return true
			}
			sig := f.Type().(*types.Signature)
			for i, a := range s.Args {
				if !x.isTainted(info, a) {
					continue
				}
				pi := i
				if pi >= sig.Params().Len() {
					pi = sig.Params().Len() - 1
				}
				if pi >= 0 {
					mark(sig.Params().At(pi))
				}
			}
		}
		return true
	})
	return changed
}

// sinkOf describes the long-lived object an assignment target belongs to ("" when none) and its group.
func (x *c17cells) sinkOf(info *types.Info, l ast.Expr) (string, string) {
	e := l
	for {
		switch m := ast.Unparen(e).(type) {
		case *ast.SelectorExpr:
			if s := info.Selections[m]; s != nil && s.Kind() == types.FieldVal {
				t := s.Recv()
				if p, ok := t.Underlying().(*types.Pointer); ok {
					t = p.Elem()
				}
				for _, ll := range x.longLive {
					if types.Identical(t, ll) {
						name := relOf(ll.Obj().Pkg()) + "." + ll.Obj().Name()
						return name + "." + m.Sel.Name, name
					}
				}
				e = m.X
				continue
			}
			if v, ok := info.Uses[m.Sel].(*types.Var); ok && v.Pkg() != nil && v.Parent() == v.Pkg().Scope() {
				return "variable " + relOf(v.Pkg()) + "." + v.Name(), "variable"
			}
			return "", ""
		case *ast.IndexExpr:
			e = m.X
		case *ast.StarExpr:
			e = m.X
		case *ast.SliceExpr:
			e = m.X
		case *ast.Ident:
			if v, ok := cgxObj(info, m).(*types.Var); ok && v.Pkg() != nil && v.Parent() == v.Pkg().Scope() {
				return "variable " + relOf(v.Pkg()) + "." + v.Name(), "variable"
			}
			return "", ""
		default:
			return "", ""
		}
	}
}

func c17binderNames(m map[*types.Func]bool) string {
	var ns []string
	for f := range m {
		ns = append(ns, f.Name())
	}
	sort.Strings(ns)
	return strings.Join(ns, "/")
}
