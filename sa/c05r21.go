package main

// C05 R-21 (added after seeded change C05-6): the outcome of a run is never made fatal.
//
// What a run of the virtual machine ends with — the error result of the function that recovers around the
// interpreter loop, and of every function that hands that result on (runFunc, VM.Run) — is one of: a
// *PanicError, the error given to Stop (stopError), a *fatalError, or THE CONTEXT'S ERROR. Run must return
// the last three as they are (the property: "Run returns nil, a *PanicError, the context's error, or the
// error given to Stop"). A *fatalError is the one value VM.Run re-panics into the host. Hence no fatalError
// may be built from a value that derives from
//     (a) the result of a run-outcome function,
//     (b) the Err method of a context.Context,
//     (c) a stopError,
// whatever test narrowed it before (a default branch, a type switch clause, err.Error(), a re-assignment).
// R-18 is the special case "from the success edge of an assertion to *PanicError"; this rule follows the
// value instead of the shape of the test. The derivation is a flow-insensitive taint over the locals of the
// enclosing declaration (function literals included: the adaptor that lets native code call a Scriggo
// function is a closure).

import (
	"go/ast"
	"go/types"
)

func init() {
	p := registry["C05"]
	if p == nil {
		return
	}
	run := p.run
	p.run = func(r *Run) { run(r); c05OutcomeNeverFatal(r) }
	p.explain += " R-21: no fatalError is created from the outcome of a run (the error result of the recovering function and of the functions that pass it on), from a context's Err() or from a stopError: the context's error and the Stop error are returned by Run, never re-panicked into the host."
}

// c05Taint computes the locals of body that (transitively) receive a value for which isSource holds.
// Flow-insensitive: `x := src`, `x = f(y)` with y tainted, `p, ok := x.(T)`, `switch e := x.(type)`,
// `var x = src`, `for _, x := range y`.
func c05Taint(info *types.Info, body ast.Node, isSource func(ast.Expr) bool) (tainted map[types.Object]bool, exprTainted func(ast.Expr) bool) {
	tainted = map[types.Object]bool{}
	exprTainted = func(e ast.Expr) bool {
		if e == nil {
			return false
		}
		hit := false
		ast.Inspect(e, func(n ast.Node) bool {
			if hit {
				return false
			}
			switch x := n.(type) {
			case *ast.FuncLit:
				return false // a closure value is not the value it computes
			case *ast.Ident:
				if o := info.Uses[x]; o != nil && tainted[o] {
					hit = true
				}
			}
			if x, ok := n.(ast.Expr); ok && !hit && isSource(x) {
				hit = true
			}
			return !hit
		})
		return hit
	}
	mark := func(l ast.Expr) bool {
		o := objOfIdent(info, l)
		if o == nil || tainted[o] {
			return false
		}
		if _, isVar := o.(*types.Var); !isVar {
			return false
		}
		tainted[o] = true
		return true
	}
	for changed := true; changed; {
		changed = false
		ast.Inspect(body, func(n ast.Node) bool {
			switch s := n.(type) {
			case *ast.AssignStmt:
				if len(s.Lhs) == len(s.Rhs) {
					for i := range s.Lhs {
						if exprTainted(s.Rhs[i]) && mark(s.Lhs[i]) {
							changed = true
						}
					}
				} else if len(s.Rhs) == 1 && exprTainted(s.Rhs[0]) {
					for _, l := range s.Lhs {
						if mark(l) {
							changed = true
						}
					}
				}
			case *ast.ValueSpec:
				for i, id := range s.Names {
					var rhs ast.Expr
					if len(s.Values) == len(s.Names) {
						rhs = s.Values[i]
					} else if len(s.Values) == 1 {
						rhs = s.Values[0]
					}
					if rhs != nil && exprTainted(rhs) && mark(id) {
						changed = true
					}
				}
			case *ast.RangeStmt:
				if exprTainted(s.X) {
					for _, l := range []ast.Expr{s.Key, s.Value} {
						if l != nil && mark(l) {
							changed = true
						}
					}
				}
			case *ast.TypeSwitchStmt:
				// switch e := x.(type): the implicit object of every clause
				as, ok := s.Assign.(*ast.AssignStmt)
				if !ok || len(as.Rhs) != 1 || !exprTainted(as.Rhs[0]) {
					break
				}
				for _, st := range s.Body.List {
					if o := info.Implicits[st]; o != nil && !tainted[o] {
						tainted[o] = true
						changed = true
					}
				}
			}
			return true
		})
	}
	return tainted, exprTainted
}

func c05OutcomeNeverFatal(r *Run) {
	const R = "R-21"
	const rel = "internal/runtime"
	fatalT := r.P.Named(rel, "fatalError")
	stopT := r.P.Named(rel, "stopError")
	if !r.Anchor(R, "runtime.fatalError and runtime.stopError", fatalT != nil && stopT != nil) {
		return
	}
	ctxT := r.P.ExtNamed("context", "Context")
	errT := types.Universe.Lookup("error").Type()
	var fns []*FuncInfo
	for _, fi := range r.P.Funcs(rel) {
		if !r.P.isTestFile(fi.File) && fi.Obj != nil {
			fns = append(fns, fi)
		}
	}
	returnsError := func(fi *FuncInfo) bool {
		res := fi.Obj.Type().(*types.Signature).Results()
		for i := 0; i < res.Len(); i++ {
			if types.Identical(res.At(i).Type(), errT) {
				return true
			}
		}
		return false
	}
	// ---- run-outcome functions, by role: the function with a recovering defer around the interpreter loop,
	// then every function whose error result derives from a call of one of them.
	outcome := map[*types.Func]bool{}
	for _, fi := range fns {
		if returnsError(fi) && c05HasRecoveringDefer(r, fi) != nil {
			outcome[fi.Obj] = true
		}
	}
	if !r.Anchor(R, "function recovering around the interpreter loop with an error result", len(outcome) > 0) {
		return
	}
	isOutcomeCall := func(info *types.Info) func(ast.Expr) bool {
		return func(e ast.Expr) bool {
			c, ok := e.(*ast.CallExpr)
			if !ok {
				return false
			}
			f := callee(info, c)
			return f != nil && outcome[f]
		}
	}
	for changed := true; changed; {
		changed = false
		for _, fi := range fns {
			if outcome[fi.Obj] || !returnsError(fi) {
				continue
			}
			info := fi.Pkg.TypesInfo
			_, tainted := c05Taint(info, fi.Decl.Body, isOutcomeCall(info))
			hands := false
			ast.Inspect(fi.Decl.Body, func(n ast.Node) bool {
				switch x := n.(type) {
				case *ast.FuncLit:
					return false
				case *ast.ReturnStmt:
					for _, e := range x.Results {
						if t := info.TypeOf(e); t != nil && types.Identical(t, errT) && tainted(e) {
							hands = true
						}
					}
				}
				return true
			})
			if hands {
				outcome[fi.Obj] = true
				changed = true
			}
		}
	}
	var outcomeNames []string
	for _, fi := range fns {
		if outcome[fi.Obj] {
			outcomeNames = append(outcomeNames, fi.Name())
		}
	}
	// ---- the fatalError literals
	n := 0
	for _, fi := range fns {
		info := fi.Pkg.TypesInfo
		var lits []*ast.CompositeLit
		ast.Inspect(fi.Decl.Body, func(m ast.Node) bool {
			if cl, ok := m.(*ast.CompositeLit); ok && types.Identical(info.TypeOf(cl), fatalT) {
				lits = append(lits, cl)
			}
			return true
		})
		if len(lits) == 0 {
			continue
		}
		isSrc := func(e ast.Expr) bool {
			if isOutcomeCall(info)(e) {
				return true
			}
			if c, ok := e.(*ast.CallExpr); ok {
				// ctx.Err() of a context.Context
				if sel, ok := ast.Unparen(c.Fun).(*ast.SelectorExpr); ok && ctxT != nil {
					if f := callee(info, c); f != nil && f.Name() == "Err" {
						if t := info.TypeOf(sel.X); t != nil && types.Identical(t, ctxT) {
							return true
						}
					}
				}
				return false
			}
			if _, isLit := e.(*ast.CompositeLit); isLit {
				return false
			}
			if t := info.TypeOf(e); t != nil && types.Identical(t, stopT) {
				if tv, ok := info.Types[e]; ok && tv.IsType() {
					return false
				}
				return true
			}
			return false
		}
		_, tainted := c05Taint(info, fi.Decl.Body, isSrc)
		for _, cl := range lits {
			n++
			o := r.Ob(R, fi.Name()+"#fatalError{}", cl.Pos())
			// the value of the interface-typed payload field (msg), keyed or positional
			var payload []ast.Expr
			st, _ := fatalT.Underlying().(*types.Struct)
			for i, el := range cl.Elts {
				if kv, ok := el.(*ast.KeyValueExpr); ok {
					if f, ok := info.Uses[kv.Key.(*ast.Ident)].(*types.Var); ok && types.IsInterface(f.Type()) {
						payload = append(payload, kv.Value)
					}
				} else if st != nil && i < st.NumFields() && types.IsInterface(st.Field(i).Type()) {
					payload = append(payload, el)
				}
			}
			bad := ""
			for _, e := range payload {
				if tainted(e) {
					bad = exprStr(e)
				}
			}
			if bad != "" {
				o.Bad("the fatalError carries `%s`, which derives from the outcome of a run (%s), from a context's Err() or from a stopError: when the context is canceled (or Stop is called) while that run is executing, the context's error is re-panicked by Run into the host instead of being returned", bad, fmtSet(outcomeNames))
			} else {
				o.OK("its payload does not derive from a run outcome, a context's Err() or a stopError (run-outcome functions: %s)", fmtSet(outcomeNames))
			}
		}
	}
	r.Require(R, 3)
}
