package main

// C15 R-5 (added after seeded change C15-4): whether a statement-only line is removed depends on the
// statement, not on where the statement stands.
//
// The template parser removes a line that holds a single statement and blanks when the statement's
// handler has raised a flag of the parser (today parsing.cutSpacesToken); the per-line logic reads the flag
// as one conjunct of the condition under which the line cutter is called. Each keyword has one clause in a
// switch over the token type, and a clause may handle the same keyword under several parents (the else of an
// if, of a for-in, of a for-range; the default of a switch or of a select; the end of every block). If one
// way through the clause of a keyword raises the flag and another way that also accepts the statement does
// not, a line made of that statement alone is removed in one construct and kept — blanks and newline — in the
// other: content-free lines survive in the output.
//
// Unit of the rule: every case clause of a switch over the token type that raises the flag (directly, or by
// calling a function of the package that raises it on all its normal exits), in whatever function it stands;
// and every function that raises the flag outside such a clause. For a unit, all normal exits (return
// without an error value, falling out of the clause; a trailing fallthrough/goto hands the state on and is
// judged where it lands) must agree: all with the flag raised. Paths ending in panic or returning an error
// are not exits. One principled exception: a clause that builds a Show node — a show has content, its line
// is removed only when the shown expression is a render, which is decided per expression.
//
// Not decided here: that a keyword raises the flag at all (`var`, `case`, `return` lines are kept by
// today's tree; that is behaviour, listed as not covered).

import (
	"go/ast"
	"go/token"
	"go/types"
	"sort"
	"strings"
)

func init() {
	p := registry["C15"]
	if p == nil {
		return
	}
	run := p.run
	p.run = func(r *Run) { run(r); c15CutFlagConsistency(r) }
	p.explain += " R-5: in the parser's switch over the statement keyword, a clause that marks the line as removable (the flag read by the call of the line cutter) does so on every normal way through it — for every parent construct the keyword can stand in; shows are exempt (content)."
	p.notCov = append(p.notCov, "that every statement keyword marks its line as removable at all (var, const, type, case, return, defer, go, goto lines are kept today)")
}

const (
	c15fUnset = 1
	c15fSet   = 2
)

type c15r5Env struct {
	r       *Run
	flag    *types.Var
	funcs   map[*types.Func]*FuncInfo
	summary map[*types.Func]int // 0 unknown/in progress, 1 not always, 2 always raises
	errT    types.Type
}

type c15r5Walker struct {
	env     *c15r5Env
	info    *types.Info
	exits   int // union of the flag states at normal exits (returns without error)
	nexits  int
	unsetAt []token.Pos
	hands   int // states handed on by goto / trailing fallthrough
	opaque  string
	// break / continue collectors, innermost last
	frames []*c15r5Frame
}

type c15r5Frame struct {
	label     string
	isLoop    bool
	brk, cont int
}

func (w *c15r5Walker) isFlag(e ast.Expr) bool {
	sel, ok := ast.Unparen(e).(*ast.SelectorExpr)
	if !ok {
		return false
	}
	return w.info.Uses[sel.Sel] == w.env.flag
}

// scanCalls reports whether n (not descending into closures) calls a function that raises the flag on
// every normal exit, or the builtin panic.
func (w *c15r5Walker) scanCalls(n ast.Node) (raises, panics bool) {
	if n == nil {
		return
	}
	ast.Inspect(n, func(m ast.Node) bool {
		switch x := m.(type) {
		case *ast.FuncLit:
			return false
		case *ast.CallExpr:
			if isBuiltinCall(w.info, x, "panic") {
				panics = true
			}
			if fn := callee(w.info, x); fn != nil && w.env.always(fn) {
				raises = true
			}
		}
		return true
	})
	return
}

func (w *c15r5Walker) isErrorReturn(rs *ast.ReturnStmt) bool {
	for _, e := range rs.Results {
		tv, ok := w.info.Types[e]
		if !ok || tv.IsNil() {
			continue
		}
		if tv.Type != nil && (types.Identical(tv.Type, w.env.errT) || types.Implements(tv.Type, w.env.errT.Underlying().(*types.Interface))) {
			return true
		}
	}
	return false
}

func (w *c15r5Walker) exit(pos token.Pos, st int) {
	if st == 0 {
		return
	}
	w.exits |= st
	w.nexits++
	if st&c15fUnset != 0 {
		w.unsetAt = append(w.unsetAt, pos)
	}
}

func (w *c15r5Walker) stmts(list []ast.Stmt, st int) int {
	for _, s := range list {
		if st == 0 {
			return 0
		}
		st = w.stmt(s, "", st)
	}
	return st
}

func (w *c15r5Walker) frame(label string, loopOnly bool) *c15r5Frame {
	for i := len(w.frames) - 1; i >= 0; i-- {
		f := w.frames[i]
		if label != "" {
			if f.label == label {
				return f
			}
			continue
		}
		if !loopOnly || f.isLoop {
			return f
		}
	}
	return nil
}

func (w *c15r5Walker) clauses(list []ast.Stmt, label string, st int) int {
	fr := &c15r5Frame{label: label}
	w.frames = append(w.frames, fr)
	out, carried, hasDefault := 0, 0, false
	for _, cs := range list {
		var body []ast.Stmt
		switch cc := cs.(type) {
		case *ast.CaseClause:
			if cc.List == nil {
				hasDefault = true
			}
			body = cc.Body
		case *ast.CommClause:
			if cc.Comm == nil {
				hasDefault = true
			}
			body = cc.Body
		}
		ft := false
		if n := len(body); n > 0 {
			if b, ok := body[n-1].(*ast.BranchStmt); ok && b.Tok == token.FALLTHROUGH {
				ft = true
				body = body[:n-1]
			}
		}
		res := w.stmts(body, st|carried)
		carried = 0
		if ft {
			carried = res
		} else {
			out |= res
		}
	}
	w.frames = w.frames[:len(w.frames)-1]
	if !hasDefault {
		out |= st
	}
	return out | fr.brk
}

func (w *c15r5Walker) stmt(s ast.Stmt, label string, st int) int {
	switch x := s.(type) {
	case *ast.AssignStmt:
		raises, panics := w.scanCalls(x)
		if panics {
			return 0
		}
		if raises {
			st = c15fSet
		}
		for i, l := range x.Lhs {
			if !w.isFlag(l) {
				continue
			}
			if len(x.Lhs) == len(x.Rhs) && x.Tok == token.ASSIGN {
				if tv, ok := w.info.Types[x.Rhs[i]]; ok && tv.Value != nil {
					if tv.Value.String() == "true" {
						st = c15fSet
					} else {
						st = c15fUnset
					}
					continue
				}
			}
			st = c15fSet | c15fUnset
		}
		return st
	case *ast.ExprStmt, *ast.DeclStmt, *ast.IncDecStmt, *ast.SendStmt, *ast.EmptyStmt:
		raises, panics := w.scanCalls(x)
		if panics {
			return 0
		}
		if raises {
			return c15fSet
		}
		return st
	case *ast.GoStmt, *ast.DeferStmt:
		return st
	case *ast.ReturnStmt:
		raises, panics := w.scanCalls(x)
		if panics {
			return 0
		}
		if raises {
			st = c15fSet
		}
		if !w.isErrorReturn(x) {
			w.exit(x.Pos(), st)
		}
		return 0
	case *ast.BranchStmt:
		lbl := ""
		if x.Label != nil {
			lbl = x.Label.Name
		}
		switch x.Tok {
		case token.BREAK:
			if f := w.frame(lbl, false); f != nil {
				f.brk |= st
			} else {
				w.hands |= st // leaves the unit (break out of an enclosing loop of the function)
			}
		case token.CONTINUE:
			if f := w.frame(lbl, true); f != nil {
				f.cont |= st
			} else {
				w.hands |= st
			}
		case token.GOTO, token.FALLTHROUGH:
			w.hands |= st
		}
		return 0
	case *ast.BlockStmt:
		return w.stmts(x.List, st)
	case *ast.LabeledStmt:
		return w.stmt(x.Stmt, x.Label.Name, st)
	case *ast.IfStmt:
		if x.Init != nil {
			st = w.stmt(x.Init, "", st)
		}
		if _, panics := w.scanCalls(x.Cond); panics {
			return 0
		}
		if raises, _ := w.scanCalls(x.Cond); raises {
			st = c15fSet
		}
		a := w.stmts(x.Body.List, st)
		b := st
		if x.Else != nil {
			b = w.stmt(x.Else, "", st)
		}
		return a | b
	case *ast.SwitchStmt:
		if x.Init != nil {
			st = w.stmt(x.Init, "", st)
		}
		if raises, _ := w.scanCalls(x.Tag); raises {
			st = c15fSet
		}
		return w.clauses(x.Body.List, label, st)
	case *ast.TypeSwitchStmt:
		if x.Init != nil {
			st = w.stmt(x.Init, "", st)
		}
		if raises, _ := w.scanCalls(x.Assign); raises {
			st = c15fSet
		}
		return w.clauses(x.Body.List, label, st)
	case *ast.SelectStmt:
		return w.clauses(x.Body.List, label, st)
	case *ast.ForStmt, *ast.RangeStmt:
		var body *ast.BlockStmt
		endless := false
		if f, ok := x.(*ast.ForStmt); ok {
			if f.Init != nil {
				st = w.stmt(f.Init, "", st)
			}
			body = f.Body
			endless = f.Cond == nil
		} else {
			body = x.(*ast.RangeStmt).Body
		}
		fr := &c15r5Frame{label: label, isLoop: true}
		w.frames = append(w.frames, fr)
		in := st
		for i := 0; i < 3; i++ {
			out := w.stmts(body.List, in)
			in |= out | fr.cont
		}
		w.frames = w.frames[:len(w.frames)-1]
		if endless {
			return fr.brk
		}
		return in | fr.brk
	}
	if w.opaque == "" {
		w.opaque = "a statement form the rule does not follow"
	}
	return st
}

// always reports whether fn (a function of the module with a body) raises the flag on every normal exit.
func (e *c15r5Env) always(fn *types.Func) bool {
	fi := e.funcs[fn]
	if fi == nil {
		return false
	}
	if v, ok := e.summary[fn]; ok {
		return v == 2
	}
	e.summary[fn] = 0
	// cheap pre-filter: the body mentions the flag, or calls something of the package
	w := &c15r5Walker{env: e, info: fi.Pkg.TypesInfo}
	end := w.stmts(fi.Decl.Body.List, c15fUnset)
	if end != 0 {
		w.exit(fi.Decl.Body.Rbrace, end)
	}
	res := 1
	if w.opaque == "" && w.nexits > 0 && w.exits == c15fSet && w.hands&c15fUnset == 0 {
		res = 2
	}
	e.summary[fn] = res
	return res == 2
}

func c15CutFlagConsistency(r *Run) {
	const R = "R-5"
	const rel = "internal/compiler"
	pk := r.P.Pkg(rel)
	textT := r.P.Named("ast", "Text")
	showT := r.P.Named("ast", "Show")
	tokT := r.P.Named(rel, "tokenTyp")
	if !r.Anchor(R, "package compiler", pk != nil) || !r.Anchor(R, "ast.Text", textT != nil) || !r.Anchor(R, "compiler.tokenTyp", tokT != nil) || !r.Anchor(R, "ast.Show", showT != nil) {
		return
	}
	env := &c15r5Env{r: r, funcs: map[*types.Func]*FuncInfo{}, summary: map[*types.Func]int{}, errT: types.Universe.Lookup("error").Type()}
	var fns []*FuncInfo
	for _, fi := range r.P.Funcs(rel) {
		if r.P.isTestFile(fi.File) || fi.Obj == nil {
			continue
		}
		fns = append(fns, fi)
		env.funcs[fi.Obj] = fi
	}
	// the line cutter(s): functions without receiver and results whose parameters are all *ast.Text
	cutters := map[*types.Func]bool{}
	for _, fi := range fns {
		sig := fi.Obj.Type().(*types.Signature)
		if sig.Recv() != nil || sig.Results().Len() != 0 || sig.Params().Len() == 0 {
			continue
		}
		all := true
		for i := 0; i < sig.Params().Len(); i++ {
			pt, ok := sig.Params().At(i).Type().(*types.Pointer)
			if !ok || c10NamedOf(pt) != textT {
				all = false
			}
		}
		if all {
			cutters[fi.Obj] = true
		}
	}
	if !r.Anchor(R, "the line cutter (function of compiler taking only *ast.Text)", len(cutters) > 0) {
		return
	}
	// the flag: a bool field that is a conjunct of the condition of an if whose body calls the cutter
	flags := map[*types.Var]bool{}
	for _, fi := range fns {
		info := fi.Pkg.TypesInfo
		ast.Inspect(fi.Decl.Body, func(n ast.Node) bool {
			is, ok := n.(*ast.IfStmt)
			if !ok {
				return true
			}
			callsCutter := false
			ast.Inspect(is.Body, func(m ast.Node) bool {
				if c, ok := m.(*ast.CallExpr); ok {
					if fn := callee(info, c); fn != nil && cutters[fn] {
						callsCutter = true
					}
				}
				return true
			})
			if !callsCutter {
				return true
			}
			for _, cj := range splitAnd(is.Cond) {
				if sel, ok := ast.Unparen(cj).(*ast.SelectorExpr); ok {
					if v, ok := info.Uses[sel.Sel].(*types.Var); ok && v.IsField() {
						if b, ok := v.Type().Underlying().(*types.Basic); ok && b.Kind() == types.Bool {
							flags[v] = true
						}
					}
				}
			}
			return true
		})
	}
	if !r.Anchor(R, "the single bool field that gates the call of the line cutter", len(flags) == 1) {
		return
	}
	for v := range flags {
		env.flag = v
	}

	makesShow := func(info *types.Info, n ast.Node) bool {
		found := false
		ast.Inspect(n, func(m ast.Node) bool {
			if c, ok := m.(*ast.CallExpr); ok {
				if t := info.TypeOf(c); t != nil && c10NamedOf(t) == showT {
					found = true
				}
			}
			return true
		})
		return found
	}
	raisesDirectly := func(info *types.Info, n ast.Node) bool {
		found := false
		ast.Inspect(n, func(m ast.Node) bool {
			if as, ok := m.(*ast.AssignStmt); ok {
				for _, l := range as.Lhs {
					if sel, ok := ast.Unparen(l).(*ast.SelectorExpr); ok && info.Uses[sel.Sel] == env.flag {
						found = true
					}
				}
			}
			return true
		})
		return found
	}

	units := 0
	judge := func(o *Obl, w *c15r5Walker, what string, show bool) {
		switch {
		case w.opaque != "":
			o.Unknown("%s: %s", what, w.opaque)
		case w.exits&c15fSet == 0 && w.hands&c15fSet == 0:
			o.Trivial("%s never leaves with the flag raised", what)
		case w.exits&c15fUnset != 0 && show:
			o.OK("%s builds a Show node: a show has content, its line is removable only when the shown expression is a render (decided per expression)", what)
		case w.exits&c15fUnset != 0:
			var at []string
			for _, p := range w.unsetAt {
				at = append(at, r.P.Pos(p))
			}
			sort.Strings(at)
			o.Bad("%s marks the line as removable (%s = true) on some ways through it but leaves normally without it at %s: a line holding only this statement is removed under one parent construct and kept, with its blanks and newline, under another", what, env.flag.Name(), strings.Join(at, ", "))
		default:
			o.OK("%s raises %s on each of its %d normal exits", what, env.flag.Name(), w.nexits)
		}
	}

	for _, fi := range fns {
		info := fi.Pkg.TypesInfo
		inClause := map[ast.Node]bool{}
		for _, sw := range switchesOn(info, fi.Decl.Body, tokT) {
			for _, cs := range sw.Body.List {
				cc := cs.(*ast.CaseClause)
				if !raisesDirectly(info, cc) {
					// or through a helper that always raises it
					viaHelper := false
					ast.Inspect(cc, func(m ast.Node) bool {
						if c, ok := m.(*ast.CallExpr); ok {
							if fn := callee(info, c); fn != nil && env.always(fn) {
								viaHelper = true
							}
						}
						return true
					})
					if !viaHelper {
						continue
					}
				}
				inClause[cc] = true
				var ns []string
				for _, e := range cc.List {
					if k := constOf(info, e); k != nil {
						ns = append(ns, k.Name())
					} else {
						ns = append(ns, exprStr(e))
					}
				}
				if cc.List == nil {
					ns = []string{"default"}
				}
				name := strings.Join(ns, ",")
				w := &c15r5Walker{env: env, info: info}
				body := cc.Body
				if n := len(body); n > 0 {
					if b, ok := body[n-1].(*ast.BranchStmt); ok && b.Tok == token.FALLTHROUGH {
						body = body[:n-1]
						// the state at a trailing fallthrough is handed to the next clause
						end := w.stmts(body, c15fUnset)
						w.hands |= end
						body = nil
					}
				}
				if body != nil {
					end := w.stmts(body, c15fUnset)
					if end != 0 {
						w.exit(cc.End(), end)
					}
				}
				units++
				judge(r.Ob(R, fi.Name()+"#case:"+name, cc.Pos()), w, "the clause of "+name+" in "+fi.Name(), makesShow(info, cc))
			}
		}
		// functions raising the flag outside a keyword clause
		outside := false
		ast.Inspect(fi.Decl.Body, func(n ast.Node) bool {
			if n != nil && inClause[n] {
				return false
			}
			if as, ok := n.(*ast.AssignStmt); ok {
				for i, l := range as.Lhs {
					if sel, ok := ast.Unparen(l).(*ast.SelectorExpr); ok && info.Uses[sel.Sel] == env.flag && i < len(as.Rhs) {
						if tv, ok := info.Types[as.Rhs[i]]; ok && tv.Value != nil && tv.Value.String() == "true" {
							outside = true
						}
					}
				}
			}
			return true
		})
		if outside {
			w := &c15r5Walker{env: env, info: info}
			end := w.stmts(fi.Decl.Body.List, c15fUnset)
			if end != 0 {
				w.exit(fi.Decl.Body.Rbrace, end)
			}
			units++
			judge(r.Ob(R, fi.Name()+"#body", fi.Decl.Pos()), w, "the function "+fi.Name(), makesShow(info, fi.Decl.Body))
		}
	}
	r.Stats["r5_units"] = units
	r.Require(R, 20)
}
