package main

// C13 R-7 (added after seeded change C13-8): the unwrapping of the output-error signal by the VM entry
// point depends on nothing but the dynamic type of the message.
//
// The entry point (VM.Run) is the only place where the panic raised by a failed write is turned back into
// the writer's error E. The property promises E for ANY template, so:
//
//	(a) whenever the run driver's result is a panic record, its message is tested against the output-error
//	    type: no feasible path from the driver call to an exit avoids the test;
//	(b) whenever that test succeeds, what the entry point returns is the error the signal carries: every
//	    path from the test on which the ok flag holds ends in `return <signal>.err` (directly or through
//	    the result variable), whatever else is true of the record (other panics in the chain, recovered
//	    flags, the VM being the main one, …).
//
// Any extra conjunct on the way (`ok && e.next == nil`), any other value returned, or a panic on such a
// path has an input — a write that fails while that extra condition is false — for which Run returns the
// internal *PanicError (or something else) instead of E.
//
// Accepted forms: `if s, ok := m.(T); ok {…}`, `s, ok := m.(T)` followed by `if ok` / `if !ok {return …}`
// / a tagless switch, `switch s := m.(type) { case T: … }`; delivery by `return s.err` or by assigning
// s.err to the variable that is returned later; the record established by a type switch on the driver's
// result or by a comma-ok assertion.

import (
	"go/ast"
	"go/types"

	"golang.org/x/tools/go/cfg"
)

func init() {
	p := registry["C13"]
	if p == nil {
		return
	}
	run := p.run
	p.run = func(r *Run) { run(r); c13UnwrapUnconditional(r) }
	p.explain += " R-7: in the VM entry point every path on which the driver's result is a panic record tests its message against the output-error type, and every path on which that test succeeds returns the error the signal carries — no other condition (length of the panic chain, flags) takes part."
}

// c13SignalType returns the output-error signal type: the runtime type the entry point asserts a field
// of the panic record to (same resolution as runC13), or nil.
func c13SignalType(a *c11Anchors) *types.Named {
	if a == nil || a.entry == nil || a.fPanic == nil {
		return nil
	}
	panicT := c11NamedOf(a.fPanic.Type())
	var out *types.Named
	check := func(subject ast.Expr, typ ast.Expr) {
		f := c11FieldOf(a.info, subject)
		if f == nil || typ == nil {
			return
		}
		for _, pf := range c11StructFields(panicT) {
			if pf == f {
				if n := c11NamedOf(a.info.TypeOf(typ)); n != nil && n.Obj().Pkg() == a.pk.Types {
					out = n
				}
			}
		}
	}
	ast.Inspect(a.entry.Decl.Body, func(n ast.Node) bool {
		switch v := n.(type) {
		case *ast.TypeAssertExpr:
			if v.Type != nil {
				check(v.X, v.Type)
			}
		case *ast.TypeSwitchStmt:
			if sub := c12SwitchSubject(v); sub != nil {
				for _, st := range v.Body.List {
					for _, te := range st.(*ast.CaseClause).List {
						if _, isPtr := a.info.TypeOf(te).(*types.Pointer); !isPtr {
							check(sub, te)
						}
					}
				}
			}
		}
		return true
	})
	return out
}

// c13SignalTest is one place of the entry point where the message is tested against the signal type.
type c13SignalTest struct {
	node    ast.Node        // the CFG node holding the test (assignment / value spec / type-switch assign)
	subject ast.Expr        // the asserted expression
	ok      types.Object    // the ok flag (comma-ok forms)
	clause  *ast.CaseClause // the clause of the signal type (type-switch form)
	single  bool            // single-value assertion: panics when the message is anything else
}

func c13UnwrapUnconditional(r *Run) {
	const R = "R-7"
	a := c11Resolve(r.P)
	if !r.Anchor(R, "VM entry point, run driver and panic record", a != nil && len(a.missing) == 0 && a.entry != nil && a.driver != nil && a.fPanic != nil) {
		return
	}
	info := a.info
	sigT := c13SignalType(a)
	if !r.Anchor(R, "output-error signal (runtime type "+a.entry.Name()+" asserts the panic message to)", sigT != nil) {
		return
	}
	panicT := c11NamedOf(a.fPanic.Type())
	errT := types.Universe.Lookup("error").Type()
	car := c11UniqueField(sigT, func(v *types.Var) bool { return types.Identical(v.Type(), errT) })
	if !r.Anchor(R, "the field of "+sigT.Obj().Name()+" carrying the writer's error", car != nil) {
		return
	}
	entry := a.entry
	key := entry.Name()
	c := r.P.CFGOf(entry)
	par := r.P.Parents(entry.File)

	// the variable holding the driver's result
	var errObj types.Object
	var drvNode ast.Node
	for _, dc := range c11CallsTo(info, entry.Decl.Body, a.driver.Obj, false) {
		switch s := par[dc].(type) {
		case *ast.AssignStmt:
			if len(s.Lhs) == 1 && len(s.Rhs) == 1 {
				errObj, drvNode = c11ObjOf(info, s.Lhs[0]), s
			}
		case *ast.ValueSpec:
			if len(s.Names) == 1 && len(s.Values) == 1 {
				errObj, drvNode = info.Defs[s.Names[0]], s
			}
		}
	}
	if !r.Anchor(R, "the variable of "+key+" assigned from "+a.driver.Name(), errObj != nil) {
		return
	}
	// the single named result, for bare returns
	var namedRes types.Object
	if fl := entry.Decl.Type.Results; fl != nil && len(fl.List) == 1 && len(fl.List[0].Names) == 1 {
		namedRes = info.Defs[fl.List[0].Names[0]]
	}

	isSig := func(t ast.Expr) bool {
		tt := info.TypeOf(t)
		n, _ := tt.(*types.Named)
		return n != nil && n == sigT
	}
	isRecordT := func(t types.Type) bool {
		if t == nil {
			return false
		}
		if _, isPtr := t.(*types.Pointer); isPtr && c11NamedOf(t) == panicT {
			return true
		}
		if it, ok := t.Underlying().(*types.Interface); ok {
			return types.Implements(types.NewPointer(panicT), it)
		}
		return false
	}

	// ------------------------------------------------------------------ the tests
	var tests []*c13SignalTest
	ast.Inspect(entry.Decl.Body, func(n ast.Node) bool {
		switch s := n.(type) {
		case *ast.FuncLit:
			return false
		case *ast.TypeSwitchStmt:
			sub := c12SwitchSubject(s)
			for _, st := range s.Body.List {
				cc := st.(*ast.CaseClause)
				for _, te := range cc.List {
					if sub != nil && isSig(te) {
						tests = append(tests, &c13SignalTest{node: s.Assign, subject: sub, clause: cc})
					}
				}
			}
		case *ast.TypeAssertExpr:
			if s.Type == nil || !isSig(s.Type) {
				return true
			}
			t := &c13SignalTest{subject: s.X}
			var p ast.Node = par[s]
			for {
				if pe, ok := p.(*ast.ParenExpr); ok {
					p = par[pe]
					continue
				}
				break
			}
			switch ps := p.(type) {
			case *ast.AssignStmt:
				t.node = ps
				if len(ps.Lhs) == 2 && len(ps.Rhs) == 1 {
					t.ok = c11ObjOf(info, ps.Lhs[1])
				} else {
					t.single = true
				}
			case *ast.ValueSpec:
				t.node = ps
				if len(ps.Names) == 2 && len(ps.Values) == 1 {
					t.ok = info.Defs[ps.Names[1]]
				} else {
					t.single = true
				}
			default:
				t.single = true
				if b, i := c.Locate(s); b != nil {
					t.node = b.Nodes[i]
				}
			}
			tests = append(tests, t)
		}
		return true
	})
	if len(tests) == 0 {
		r.Ob(R, key+"#tests-message", entry.Decl.Pos()).Unknown("%s does not assert the panic message to %s itself: the unwrapping could not be followed", key, sigT.Obj().Name())
		r.Require(R, 2)
		return
	}

	// feasible: can the edge b -> b.Succs[k] be taken when errObj holds a non-nil panic record?
	typeSwitchOnErr := func(st ast.Stmt) *ast.TypeSwitchStmt {
		ts, ok := st.(*ast.TypeSwitchStmt)
		if !ok {
			return nil
		}
		if sub := c12SwitchSubject(ts); sub != nil && c11ObjOf(info, sub) == errObj {
			return ts
		}
		return nil
	}
	clauseTakesRecord := func(cc *ast.CaseClause) bool {
		for _, te := range cc.List {
			if isRecordT(info.TypeOf(te)) {
				return true
			}
		}
		return false
	}
	hasRecordClause := func(ts *ast.TypeSwitchStmt) bool {
		for _, st := range ts.Body.List {
			if clauseTakesRecord(st.(*ast.CaseClause)) {
				return true
			}
		}
		return false
	}
	// ok flags of comma-ok assertions of errObj to the record type
	recOK := map[types.Object]bool{}
	ast.Inspect(entry.Decl.Body, func(n ast.Node) bool {
		as, ok := n.(*ast.AssignStmt)
		if !ok || len(as.Lhs) != 2 || len(as.Rhs) != 1 {
			return true
		}
		ta, ok := ast.Unparen(as.Rhs[0]).(*ast.TypeAssertExpr)
		if !ok || ta.Type == nil || c11ObjOf(info, ta.X) != errObj || !isRecordT(info.TypeOf(ta.Type)) {
			return true
		}
		if o := c11ObjOf(info, as.Lhs[1]); o != nil {
			recOK[o] = true
		}
		return true
	})
	feasible := func(b *cfg.Block, k int) bool {
		for _, l := range c.edgeLits(b, k) {
			if x, isNil, ok := c11LitNil(info, l); ok && isNil && c11ObjOf(info, x) == errObj {
				return false
			}
			if l.Tag == nil && !l.Truth && recOK[c11ObjOf(info, l.Expr)] {
				return false
			}
		}
		s := b.Succs[k]
		switch s.Kind {
		case cfg.KindSwitchCaseBody:
			if cc, ok := s.Stmt.(*ast.CaseClause); ok {
				if ts := typeSwitchOnErr(c13EnclosingSwitch(par, cc)); ts != nil {
					if cc.List == nil {
						return !hasRecordClause(ts)
					}
					return clauseTakesRecord(cc)
				}
			}
		case cfg.KindSwitchNextCase:
			// the chain of clause tests of a type switch on the driver's result: its last block (where no
			// clause matched: the default body or the jump to the end) cannot be entered by a record
			if cc, ok := s.Stmt.(*ast.CaseClause); ok {
				if ts := typeSwitchOnErr(c13EnclosingSwitch(par, cc)); ts != nil && hasRecordClause(ts) {
					inChain := len(s.Nodes) == 0 && len(s.Succs) == 2 && s.Succs[0].Kind == cfg.KindSwitchCaseBody
					if inChain {
						if cc2, ok := s.Succs[0].Stmt.(*ast.CaseClause); !ok || c13EnclosingSwitch(par, cc2) != ast.Stmt(ts) {
							inChain = false
						}
					}
					if !inChain {
						return false
					}
				}
			}
		}
		return true
	}

	// ------------------------------------------------------------------ (a) the test is always reached
	{
		o := r.Ob(R, key+"#record-message-tested", entry.Decl.Pos())
		isTest := func(n ast.Node) bool {
			for _, t := range tests {
				if t.node != nil && (t.node == n || containsNode(n, t.node)) {
					return true
				}
			}
			return false
		}
		b0, i0 := c.Locate(drvNode)
		bad := ""
		if b0 == nil {
			o.Unknown("the call of %s was not located in the graph", a.driver.Name())
		} else {
			c11Walk(c, b0, i0+1, func(b *cfg.Block, k int) bool { return !feasible(b, k) }, func(b *cfg.Block, i int, n ast.Node) bool {
				if isTest(n) {
					return true
				}
				if rs, ok := n.(*ast.ReturnStmt); ok {
					if bad == "" {
						bad = "the return at " + r.P.Pos(rs.Pos())
					}
					return true
				}
				return false
			}, func(b *cfg.Block) {
				if bad == "" {
					bad = "an exit of the function"
				}
			})
			if bad != "" {
				o.Bad("when %s returns a panic record, %s is reached without testing whether its message is the output-error signal %s: a failed write is then reported as a panic, not as the writer's error", a.driver.Name(), bad, sigT.Obj().Name())
			} else {
				o.OK("every path from the call of %s on which %s is a non-nil panic record reaches the test of its message against %s", a.driver.Name(), errObj.Name(), sigT.Obj().Name())
			}
		}
	}

	// ------------------------------------------------------------------ (b) a successful test delivers
	isCar := func(e ast.Expr) bool { return c11FieldOf(info, e) == car }
	for _, t := range tests {
		o := r.Ob(R, key+"#unwraps-"+sigT.Obj().Name(), t.subject.Pos())
		// the subject is the message of the record itself
		subjOK := false
		var fMessage *types.Var
		if f := c11FieldOf(info, t.subject); f != nil {
			fMessage = f
		} else if ob := c11ObjOf(info, t.subject); ob != nil {
			if rhs, clean := c11Defs(info, entry.Decl.Body, ob); clean && len(rhs) == 1 {
				fMessage = c11FieldOf(info, rhs[0])
				t.subject = rhs[0]
			}
		}
		if fMessage != nil {
			for _, pf := range c11StructFields(panicT) {
				if pf == fMessage {
					if se, ok := ast.Unparen(t.subject).(*ast.SelectorExpr); ok {
						if _, isID := ast.Unparen(se.X).(*ast.Ident); isID {
							subjOK = true
						}
					}
				}
			}
		}
		if !subjOK {
			o.Unknown("the expression asserted to %s is not a field of the panic record held in a variable", sigT.Obj().Name())
			continue
		}
		if t.single || t.node == nil {
			o.Bad("the message is asserted to %s without the ok form: any other panic makes %s panic in the host", sigT.Obj().Name(), key)
			continue
		}
		var sb *cfg.Block
		si := 0
		if t.clause != nil {
			if len(t.clause.Body) == 0 {
				o.Bad("the clause `case %s` is empty: the writer's error is not delivered", sigT.Obj().Name())
				continue
			}
			for _, b := range c.G.Blocks {
				if b.Kind == cfg.KindSwitchCaseBody && b.Stmt == ast.Stmt(t.clause) {
					sb, si = b, 0
				}
			}
		} else {
			sb, si = c.Locate(t.node)
			si++
		}
		if sb == nil {
			o.Unknown("the test was not located in the graph")
			continue
		}
		// depth-first walk of (block, variable currently holding the carried error)
		type state struct {
			b *cfg.Block
			d types.Object
		}
		seen := map[state]bool{}
		bad := ""
		nret := 0
		var walk func(b *cfg.Block, start int, d types.Object)
		walk = func(b *cfg.Block, start int, d types.Object) {
			for j := start; j < len(b.Nodes); j++ {
				switch s := b.Nodes[j].(type) {
				case *ast.AssignStmt:
					for i, l := range s.Lhs {
						lo := c11ObjOf(info, l)
						if lo == nil {
							continue
						}
						if len(s.Lhs) == len(s.Rhs) && isCar(s.Rhs[i]) {
							d = lo
						} else if lo == d {
							d = nil
						}
					}
				case *ast.ReturnStmt:
					good := false
					switch {
					case len(s.Results) == 0:
						good = namedRes != nil && namedRes == d
					case len(s.Results) == 1:
						good = isCar(s.Results[0]) || (d != nil && c11ObjOf(info, s.Results[0]) == d)
					}
					if good {
						nret++
					} else if bad == "" {
						what := "nothing"
						if len(s.Results) == 1 {
							what = exprStr(s.Results[0])
						}
						bad = "the return at " + r.P.Pos(s.Pos()) + " returns " + what
					}
					return
				}
			}
			if len(b.Succs) == 0 {
				if bad == "" {
					bad = "the function panics or ends"
				}
				return
			}
			for k, s := range b.Succs {
				skip := false
				for _, l := range c.edgeLits(b, k) {
					if l.Tag == nil && !l.Truth && t.ok != nil && c11ObjOf(info, l.Expr) == t.ok {
						skip = true // the ok flag is false on this edge
					}
				}
				if skip {
					continue
				}
				st := state{s, d}
				if !seen[st] {
					seen[st] = true
					walk(s, 0, d)
				}
			}
		}
		walk(sb, si, nil)
		switch {
		case bad != "":
			o.Bad("on a path where the message of the panic record is the output-error signal %s (the type test succeeded) %s instead of its field %s: some further condition decides whether the writer's error is unwrapped, so there is a failed write for which Run returns the internal panic instead of the writer's error", sigT.Obj().Name(), bad, car.Name())
		case nret == 0:
			o.Bad("no return delivers the field %s of the signal", car.Name())
		default:
			o.OK("every path from the successful type test of the message against %s returns its field %s (the writer's error); nothing else is tested on the way", sigT.Obj().Name(), car.Name())
		}
	}
	r.Require(R, 2)
}

// c13EnclosingSwitch returns the switch / type-switch statement a case clause belongs to.
func c13EnclosingSwitch(par map[ast.Node]ast.Node, cc *ast.CaseClause) ast.Stmt {
	if blk, ok := par[cc].(*ast.BlockStmt); ok {
		if st, ok := par[blk].(ast.Stmt); ok {
			return st
		}
	}
	return nil
}
