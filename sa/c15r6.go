package main

// C15 R-6 (added after seeded change C15-5): the text loop never steps blindly over a byte.
//
// The lexer's text loop examines one byte per iteration: the byte under the cursor is tested for the start
// of {{ }}, {% %}, {# #} at the top of the iteration and for a line break at the bottom (where the line
// counter, and with it the `lin` stamp of every later token, is advanced). Some clauses of the context state
// machine look one byte ahead and, on a match, advance the cursor themselves and then fall through to the
// loop's own increment: the byte after the cursor is then never examined at all. That is sound only when the
// test that allows the step pins that byte to values that are neither a newline nor an opening brace:
//   * a newline stepped over is not counted: every token after it carries a line that is one too small, the
//     parser believes that the tokens before and after that newline share a line, and a statement-only line
//     next to it is not removed (or one that is not statement-only is);
//   * a '{' stepped over hides the {{, {% or {# it starts: template syntax is emitted as text.
// Sites: every `cursor++` / `cursor += 1` inside the loop that holds the context switch, other than the
// loop's own increment, from which the own increment is reached within the same iteration. The condition
// of the path to the site (if / else-if / switch clauses) is evaluated in three-valued logic over the pair
// (byte under the cursor, byte after it); a comparison with a byte variable (the quote of the string being
// scanned) uses the set of values the variable is ever assigned. Atoms the rule does not understand are
// "maybe": a step allowed by them alone is reported.
//
// Not decided here: steps of more than one byte (p += 7 after a helper matched `</style`), steps that restart
// the iteration with `continue`, and helpers that return a new cursor (scanTag, scanAttribute).

import (
	"go/ast"
	"go/token"
	"go/types"
	"sort"
	"strings"

	"golang.org/x/tools/go/cfg"
)

func init() {
	p := registry["C15"]
	if p == nil {
		return
	}
	run := p.run
	p.run = func(r *Run) { run(r); c15LookaheadSkips(r) }
	p.explain += " R-6: in the lexer's text loop, a look-ahead step over the byte after the cursor (a cursor increment that falls through to the loop's own increment) is taken only under a test that excludes a newline and an opening brace for that byte."
	p.notCov = append(p.notCov, "cursor steps of more than one byte in the text loop (after isEndStyle/isEndScript matched), steps followed by continue, and the cursors returned by scanTag/scanAttribute/scanCodeBlock: whether every byte they pass is counted for line breaks")
}

type c15tv int

const (
	c15F c15tv = iota
	c15T
	c15U
)

func c15Not(a c15tv) c15tv {
	switch a {
	case c15F:
		return c15T
	case c15T:
		return c15F
	}
	return c15U
}
func c15And(a, b c15tv) c15tv {
	if a == c15F || b == c15F {
		return c15F
	}
	if a == c15T && b == c15T {
		return c15T
	}
	return c15U
}
func c15Or(a, b c15tv) c15tv { return c15Not(c15And(c15Not(a), c15Not(b))) }

// c15r6Eval evaluates boolean expressions with some byte expressions bound to values.
type c15r6Eval struct {
	info *types.Info
	// bind returns the value of a bound expression
	bind func(e ast.Expr) (int64, bool)
	// varSet returns the set of values a byte variable can hold (nil, false when unknown)
	varSet func(o types.Object) (map[int64]bool, bool)
	// watched reports expressions whose un-interpretable use makes the verdict imprecise
	watched   func(e ast.Expr) bool
	imprecise bool
	// funcs gives the declarations of the package: a call of a one-byte predicate written as a single
	// returned expression (isSpace) is evaluated on a known argument
	funcs map[*types.Func]*FuncInfo
	depth int
	// boolDefs gives the defining expression of bool locals defined once and never assigned again
	boolDefs map[types.Object]ast.Expr
}

func (ev *c15r6Eval) operand(e ast.Expr) (val int64, isVal bool, set map[int64]bool, isSet bool) {
	e = ast.Unparen(e)
	if v, ok := ev.bind(e); ok {
		return v, true, nil, false
	}
	if tv, ok := ev.info.Types[e]; ok && tv.Value != nil {
		if v, ok := intValue(ev.info, e); ok {
			return v, true, nil, false
		}
	}
	if c, ok := e.(*ast.CallExpr); ok && len(c.Args) == 1 {
		if tv, ok := ev.info.Types[c.Fun]; ok && tv.IsType() {
			return ev.operand(c.Args[0])
		}
	}
	if id, ok := e.(*ast.Ident); ok && ev.varSet != nil {
		if o := ev.info.Uses[id]; o != nil {
			if s, ok := ev.varSet(o); ok {
				return 0, false, s, true
			}
		}
	}
	if sel, ok := e.(*ast.SelectorExpr); ok && ev.varSet != nil {
		// a byte field of the scanner whose writes all pin it to a small set (the quote kept in a field)
		if o, ok := ev.info.Uses[sel.Sel].(*types.Var); ok && o.IsField() {
			if s, ok := ev.varSet(o); ok {
				return 0, false, s, true
			}
		}
	}
	return 0, false, nil, false
}

// mentionsWatched reports whether e uses a byte-typed variable or indexed byte that the evaluator could not
// resolve (neither bound, nor constant, nor a variable with a known value set): such a value may be the
// stepped byte under another name, so a verdict that rests on "maybe" is then imprecise, not a violation.
func (ev *c15r6Eval) mentionsWatched(e ast.Expr) bool {
	if ev.watched == nil {
		return false
	}
	found := false
	ast.Inspect(e, func(n ast.Node) bool {
		x, ok := n.(ast.Expr)
		if !ok || found {
			return !found
		}
		switch x.(type) {
		case *ast.Ident, *ast.IndexExpr:
		default:
			return true
		}
		tv, ok := ev.info.Types[x]
		if !ok || tv.Type == nil || !c15IsByte(tv.Type) || tv.Value != nil || tv.IsType() {
			_, isIx := x.(*ast.IndexExpr)
			return !isIx
		}
		if _, ok := ev.bind(x); ok {
			return false
		}
		if id, ok := x.(*ast.Ident); ok && ev.varSet != nil {
			if o := ev.info.Uses[id]; o != nil {
				if _, ok := ev.varSet(o); ok {
					return false
				}
			}
		}
		found = true
		return false
	})
	return found
}

func (ev *c15r6Eval) eval(e ast.Expr) c15tv {
	e = ast.Unparen(e)
	switch x := e.(type) {
	case *ast.UnaryExpr:
		if x.Op == token.NOT {
			return c15Not(ev.eval(x.X))
		}
	case *ast.BinaryExpr:
		switch x.Op {
		case token.LAND:
			return c15And(ev.eval(x.X), ev.eval(x.Y))
		case token.LOR:
			return c15Or(ev.eval(x.X), ev.eval(x.Y))
		case token.EQL, token.NEQ, token.LSS, token.LEQ, token.GTR, token.GEQ:
			lv, lIsV, ls, lIsS := ev.operand(x.X)
			rv, rIsV, rs, rIsS := ev.operand(x.Y)
			if lIsV && rIsV {
				var res bool
				switch x.Op {
				case token.EQL:
					res = lv == rv
				case token.NEQ:
					res = lv != rv
				case token.LSS:
					res = lv < rv
				case token.LEQ:
					res = lv <= rv
				case token.GTR:
					res = lv > rv
				case token.GEQ:
					res = lv >= rv
				}
				if res {
					return c15T
				}
				return c15F
			}
			if x.Op == token.EQL || x.Op == token.NEQ {
				var v int64
				var s map[int64]bool
				have := false
				if lIsV && rIsS {
					v, s, have = lv, rs, true
				} else if rIsV && lIsS {
					v, s, have = rv, ls, true
				}
				if have {
					if !s[v] {
						if x.Op == token.EQL {
							return c15F
						}
						return c15T
					}
					return c15U
				}
			}
		}
	case *ast.Ident:
		if def := ev.boolDefs[ev.info.Uses[x]]; def != nil && ev.depth < 6 {
			ev.depth++
			v := ev.eval(def)
			ev.depth--
			return v
		}
		if tv, has := ev.info.Types[e]; has && tv.Value != nil {
			if tv.Value.String() == "true" {
				return c15T
			}
			if tv.Value.String() == "false" {
				return c15F
			}
		}
	case *ast.CallExpr:
		if fn := callee(ev.info, x); fn != nil && ev.funcs != nil && len(x.Args) == 1 && ev.depth < 3 {
			if fi := ev.funcs[fn]; fi != nil && len(fi.Decl.Body.List) == 1 {
				sig := fn.Type().(*types.Signature)
				rs, isRet := fi.Decl.Body.List[0].(*ast.ReturnStmt)
				if isRet && len(rs.Results) == 1 && sig.Recv() == nil && sig.Params().Len() == 1 && c15IsByte(sig.Params().At(0).Type()) {
					if v, isV, _, _ := ev.operand(x.Args[0]); isV {
						pv := sig.Params().At(0)
						finfo := fi.Pkg.TypesInfo
						sub := &c15r6Eval{info: finfo, funcs: ev.funcs, depth: ev.depth + 1, bind: func(a ast.Expr) (int64, bool) {
							if id, ok := ast.Unparen(a).(*ast.Ident); ok && finfo.Uses[id] == pv {
								return v, true
							}
							return 0, false
						}}
						return sub.eval(rs.Results[0])
					}
				}
			}
		}
	default:
		if tv, has := ev.info.Types[e]; has && tv.Value != nil {
			if tv.Value.String() == "true" {
				return c15T
			}
			if tv.Value.String() == "false" {
				return c15F
			}
		}
	}
	if ev.mentionsWatched(e) {
		ev.imprecise = true
	}
	return c15U
}

// c15PathConds lists the conditions (expression, wanted truth; or tag + case list) that hold on the
// structural path from `outer` down to `site`.
type c15PathCond struct {
	cond  ast.Expr   // boolean condition
	truth bool       // wanted value
	tag   ast.Expr   // switch tag (then list holds the case values, any of which matches)
	list  []ast.Expr // case values / tagless case conditions
}

func c15PathConds(par map[ast.Node]ast.Node, site, outer ast.Node) []c15PathCond {
	var out []c15PathCond
	child := site
	for n := par[site]; n != nil && child != outer; child, n = n, par[n] {
		switch x := n.(type) {
		case *ast.IfStmt:
			if child == ast.Node(x.Body) {
				out = append(out, c15PathCond{cond: x.Cond, truth: true})
			} else if x.Else != nil && child == ast.Node(x.Else) {
				out = append(out, c15PathCond{cond: x.Cond, truth: false})
			}
		case *ast.CaseClause:
			if x.List == nil {
				continue
			}
			if sw, ok := par[par[x]].(*ast.SwitchStmt); ok {
				inBody := false
				for _, s := range x.Body {
					if s == child {
						inBody = true
					}
				}
				if inBody {
					out = append(out, c15PathCond{tag: sw.Tag, list: x.List})
				}
			}
		}
	}
	return out
}

func (ev *c15r6Eval) pathValue(pcs []c15PathCond) c15tv {
	res := c15T
	for _, pc := range pcs {
		var v c15tv
		switch {
		case pc.cond != nil:
			v = ev.eval(pc.cond)
			if !pc.truth {
				v = c15Not(v)
			}
		case pc.tag != nil:
			v = c15F
			for _, e := range pc.list {
				v = c15Or(v, ev.eval(&ast.BinaryExpr{X: pc.tag, Op: token.EQL, Y: e}))
			}
		default: // tagless switch: any of the case conditions
			v = c15F
			for _, e := range pc.list {
				v = c15Or(v, ev.eval(e))
			}
		}
		res = c15And(res, v)
	}
	return res
}

// c15TextLoop is what the rules R-6 and R-8 know about the lexer's text loop.
type c15TextLoop struct {
	scan           *FuncInfo
	info           *types.Info
	par            map[ast.Node]ast.Node
	loop           *ast.ForStmt
	cursor         types.Object
	srcField       *types.Var
	curVar         types.Object
	own            ast.Stmt
	writes         []c15CursorWrite
	isCursor       func(ast.Expr) bool
	isSrc          func(ast.Expr) bool
	isCurByteExpr  func(ast.Expr) bool
	isNextByteExpr func(ast.Expr) bool
	innerLoop      func(ast.Node) bool
	reaches        func(from, to ast.Node) bool
	varSet         func(o types.Object) (map[int64]bool, bool)
	clauseName     func(ast.Node) string
	funcs          map[*types.Func]*FuncInfo
	boolDefs       map[types.Object]ast.Expr
}

type c15CursorWrite struct {
	node ast.Stmt
	one  bool  // increments by exactly one
	by   int64 // constant increment (0 when not a constant increment)
}

func c15TextLoopModel(r *Run, R string) *c15TextLoop {
	const rel = "internal/compiler"
	ctxT := r.P.Named("ast", "Context")
	if !r.Anchor(R, "ast.Context", ctxT != nil) {
		return nil
	}
	var nonTest []*FuncInfo
	for _, f := range r.P.Funcs(rel) {
		if !r.P.isTestFile(f.File) {
			nonTest = append(nonTest, f)
		}
	}
	scan := c04GoroutineEntry(r, nonTest)
	if !r.Anchor(R, "the lexer goroutine entry (scan)", scan != nil) {
		return nil
	}
	info := scan.Pkg.TypesInfo
	par := r.P.Parents(scan.File)

	// the text loop: a for statement `cursor < len(X.f)` over a []byte field whose body holds a switch on ast.Context
	var loop *ast.ForStmt
	var cursor types.Object
	var srcField *types.Var
	ast.Inspect(scan.Decl.Body, func(n ast.Node) bool {
		fs, ok := n.(*ast.ForStmt)
		if !ok || fs.Cond == nil {
			return true
		}
		be, ok := ast.Unparen(fs.Cond).(*ast.BinaryExpr)
		if !ok || be.Op != token.LSS {
			return true
		}
		id, ok := ast.Unparen(be.X).(*ast.Ident)
		call, ok2 := ast.Unparen(be.Y).(*ast.CallExpr)
		if !ok || !ok2 || !isBuiltinCall(info, call, "len") || len(call.Args) != 1 {
			return true
		}
		sel, ok := ast.Unparen(call.Args[0]).(*ast.SelectorExpr)
		if !ok {
			return true
		}
		fv, ok := info.Uses[sel.Sel].(*types.Var)
		if !ok || !fv.IsField() || typeStr(fv.Type()) != "[]byte" {
			return true
		}
		if len(switchesOn(info, fs.Body, ctxT)) == 0 {
			return true
		}
		if loop == nil {
			loop, cursor, srcField = fs, info.Uses[id], fv
		}
		return true
	})
	if !r.Anchor(R, "the text loop of the lexer (for cursor < len(l.src) holding the switch on the context)", loop != nil && cursor != nil) {
		return nil
	}
	isCursor := func(e ast.Expr) bool {
		id, ok := ast.Unparen(e).(*ast.Ident)
		return ok && info.Uses[id] == cursor
	}
	isSrc := func(e ast.Expr) bool {
		sel, ok := ast.Unparen(e).(*ast.SelectorExpr)
		return ok && info.Uses[sel.Sel] == srcField
	}
	// src[cursor] and src[cursor+1]
	isCurByteExpr := func(e ast.Expr) bool {
		ix, ok := ast.Unparen(e).(*ast.IndexExpr)
		return ok && isSrc(ix.X) && isCursor(ix.Index)
	}
	nextAlias := map[types.Object]bool{}
	boolDefs := map[types.Object]ast.Expr{}
	isCursorPlusOne := func(e ast.Expr) bool {
		be, ok := ast.Unparen(e).(*ast.BinaryExpr)
		if !ok || be.Op != token.ADD {
			return false
		}
		if v, ok := intValue(info, be.Y); ok && v == 1 && isCursor(be.X) {
			return true
		}
		if v, ok := intValue(info, be.X); ok && v == 1 && isCursor(be.Y) {
			return true
		}
		return false
	}
	// a byte accessor: a function of the package with one int parameter and a byte result whose every return
	// gives src[param] or a constant other than a newline and '{' (the out-of-range answer)
	accessors := map[*types.Func]bool{}
	for _, f := range nonTest {
		if f.Obj == nil {
			continue
		}
		sig := f.Obj.Type().(*types.Signature)
		if sig.Params().Len() != 1 || sig.Results().Len() != 1 || !isIntType(sig.Params().At(0).Type()) || !c15IsByte(sig.Results().At(0).Type()) {
			continue
		}
		finfo := f.Pkg.TypesInfo
		pv := sig.Params().At(0)
		good, nret := true, 0
		ast.Inspect(f.Decl.Body, func(n ast.Node) bool {
			switch x := n.(type) {
			case *ast.FuncLit:
				good = false
				return false
			case *ast.ReturnStmt:
				nret++
				if len(x.Results) != 1 {
					good = false
					return true
				}
				if v, ok := intValue(finfo, x.Results[0]); ok {
					if v == '\n' || v == '{' {
						good = false
					}
					return true
				}
				ix, ok := ast.Unparen(x.Results[0]).(*ast.IndexExpr)
				if !ok {
					good = false
					return true
				}
				sel, ok := ast.Unparen(ix.X).(*ast.SelectorExpr)
				id, ok2 := ast.Unparen(ix.Index).(*ast.Ident)
				if !ok || !ok2 || finfo.Uses[sel.Sel] != srcField || finfo.Uses[id] != pv {
					good = false
				}
			}
			return true
		})
		if good && nret > 0 {
			accessors[f.Obj] = true
		}
	}
	isNextByteExpr := func(e ast.Expr) bool {
		if id, ok := ast.Unparen(e).(*ast.Ident); ok && nextAlias[info.Uses[id]] {
			return true
		}
		if c, ok := ast.Unparen(e).(*ast.CallExpr); ok && len(c.Args) == 1 {
			if fn := callee(info, c); fn != nil && accessors[fn] && isCursorPlusOne(c.Args[0]) {
				return true
			}
		}
		ix, ok := ast.Unparen(e).(*ast.IndexExpr)
		return ok && isSrc(ix.X) && isCursorPlusOne(ix.Index)
	}
	// locals that name the byte after the cursor: defined once as src[cursor+1], never assigned again
	{
		defs := map[types.Object]int{}
		cand := map[types.Object]bool{}
		ast.Inspect(loop.Body, func(n ast.Node) bool {
			switch x := n.(type) {
			case *ast.AssignStmt:
				for i, l := range x.Lhs {
					id, ok := ast.Unparen(l).(*ast.Ident)
					if !ok {
						continue
					}
					o := info.Defs[id]
					if o == nil {
						o = info.Uses[id]
					}
					if o == nil {
						continue
					}
					defs[o]++
					if x.Tok == token.DEFINE && len(x.Lhs) == len(x.Rhs) && isNextByteExpr(x.Rhs[i]) {
						cand[o] = true
					}
				}
			case *ast.IncDecStmt:
				if id, ok := ast.Unparen(x.X).(*ast.Ident); ok && info.Uses[id] != nil {
					defs[info.Uses[id]] += 2
				}
			case *ast.UnaryExpr:
				if id, ok := ast.Unparen(x.X).(*ast.Ident); ok && x.Op == token.AND && info.Uses[id] != nil {
					defs[info.Uses[id]] += 2
				}
			}
			return true
		})
		for o := range cand {
			if defs[o] == 1 {
				nextAlias[o] = true
			}
		}
		ast.Inspect(loop.Body, func(n ast.Node) bool {
			if x, ok := n.(*ast.AssignStmt); ok && x.Tok == token.DEFINE && len(x.Lhs) == len(x.Rhs) {
				for i, l := range x.Lhs {
					if id, ok := l.(*ast.Ident); ok {
						if o := info.Defs[id]; o != nil && defs[o] == 1 {
							if b, ok := o.Type().Underlying().(*types.Basic); ok && b.Kind() == types.Bool {
								boolDefs[o] = x.Rhs[i]
							}
						}
					}
				}
			}
			return true
		})
	}
	// the examined byte: a variable defined as src[cursor] directly in the loop body
	var curVar types.Object
	for _, s := range loop.Body.List {
		if as, ok := s.(*ast.AssignStmt); ok && as.Tok == token.DEFINE && len(as.Lhs) == 1 && len(as.Rhs) == 1 && isCurByteExpr(as.Rhs[0]) {
			if id, ok := as.Lhs[0].(*ast.Ident); ok {
				curVar = info.Defs[id]
			}
			break
		}
	}
	// cursor writes in the loop body
	type cw = c15CursorWrite
	var writes []cw
	var own ast.Stmt
	innerLoop := func(n ast.Node) bool {
		for p := par[n]; p != nil && p != ast.Node(loop); p = par[p] {
			switch p.(type) {
			case *ast.ForStmt, *ast.RangeStmt, *ast.FuncLit:
				return true
			}
		}
		return false
	}
	ast.Inspect(loop.Body, func(n ast.Node) bool {
		switch x := n.(type) {
		case *ast.FuncLit:
			return false
		case *ast.IncDecStmt:
			if isCursor(x.X) {
				by := int64(0)
				if x.Tok == token.INC {
					by = 1
				}
				writes = append(writes, cw{x, x.Tok == token.INC, by})
			}
		case *ast.AssignStmt:
			for i, l := range x.Lhs {
				if !isCursor(l) {
					continue
				}
				one, by := false, int64(0)
				if x.Tok == token.ADD_ASSIGN && len(x.Rhs) == 1 {
					if v, ok := intValue(info, x.Rhs[0]); ok {
						by = v
						one = v == 1
					}
				}
				if x.Tok == token.ASSIGN && len(x.Lhs) == 1 && len(x.Rhs) == 1 {
					// cursor = cursor + k
					if be, ok := ast.Unparen(x.Rhs[0]).(*ast.BinaryExpr); ok && be.Op == token.ADD {
						if v, ok := intValue(info, be.Y); ok && isCursor(be.X) {
							by, one = v, v == 1
						} else if v, ok := intValue(info, be.X); ok && isCursor(be.Y) {
							by, one = v, v == 1
						}
					}
				}
				_ = i
				writes = append(writes, cw{x, one, by})
			}
		}
		return true
	})
	for _, s := range loop.Body.List {
		if ids, ok := s.(*ast.IncDecStmt); ok && ids.Tok == token.INC && isCursor(ids.X) {
			own = s
		}
	}
	if !r.Anchor(R, "the text loop's own increment of the cursor (a top-level cursor++ of the loop body)", own != nil) {
		return nil
	}
	g := r.P.CFGOf(scan)
	head, _ := g.Locate(loop.Cond)
	ownBlk, _ := g.Locate(own)
	if !r.Anchor(R, "control-flow blocks of the loop head and of its own increment", head != nil && ownBlk != nil) {
		return nil
	}
	cutHead := func(b *cfg.Block) bool { return b == head }
	reaches := func(from, to ast.Node) bool {
		fb, fi := g.Locate(from)
		tb, ti := g.Locate(to)
		if fb == nil || tb == nil {
			return true
		}
		if fb == tb {
			return fi < ti
		}
		for _, s := range fb.Succs {
			if s == tb || (s != head && g.reachable(s, tb, nil, cutHead)) {
				return true
			}
		}
		return false
	}

	// value sets of byte variables compared with the next byte (the quote)
	setCache := map[types.Object]map[int64]bool{}
	setOK := map[types.Object]bool{}
	var varSet func(o types.Object) (map[int64]bool, bool)
	varSet = func(o types.Object) (map[int64]bool, bool) {
		if s, ok := setCache[o]; ok {
			return s, setOK[o]
		}
		setCache[o], setOK[o] = nil, false
		v, isVar := o.(*types.Var)
		if !isVar || !c15IsByte(v.Type()) || v.Pkg() == nil || v.Parent() == v.Pkg().Scope() {
			return nil, false
		}
		set := map[int64]bool{}
		good := true
		// refers reports whether e names o: the identifier of a local, or a selector of the field
		refers := func(e ast.Expr) bool {
			switch x := ast.Unparen(e).(type) {
			case *ast.Ident:
				return !v.IsField() && (info.Uses[x] == o || info.Defs[x] == o)
			case *ast.SelectorExpr:
				return v.IsField() && info.Uses[x.Sel] == o
			}
			return false
		}
		if v.IsField() {
			// a field of the scanner: starts at zero; every write outside the scanning function must be a
			// constant, and no literal may set it positionally or take its address
			set[0] = true
			for _, file := range scan.Pkg.Syntax {
				ast.Inspect(file, func(n ast.Node) bool {
					if n == ast.Node(scan.Decl.Body) {
						return false
					}
					switch x := n.(type) {
					case *ast.AssignStmt:
						for i, l := range x.Lhs {
							if !refers(l) {
								continue
							}
							if len(x.Lhs) != len(x.Rhs) || x.Tok != token.ASSIGN {
								good = false
							} else if iv, ok := intValue(info, x.Rhs[i]); ok {
								set[iv] = true
							} else {
								good = false
							}
						}
					case *ast.IncDecStmt:
						if refers(x.X) {
							good = false
						}
					case *ast.UnaryExpr:
						if x.Op == token.AND && refers(x.X) {
							good = false
						}
					case *ast.CompositeLit:
						tv, ok := info.Types[x]
						if !ok || tv.Type == nil {
							return true
						}
						st, ok := tv.Type.Underlying().(*types.Struct)
						if !ok {
							return true
						}
						has := false
						for i := 0; i < st.NumFields(); i++ {
							if st.Field(i) == v {
								has = true
							}
						}
						if !has {
							return true
						}
						for _, el := range x.Elts {
							kv, ok := el.(*ast.KeyValueExpr)
							if !ok {
								good = false // positional literal of the scanner
								continue
							}
							if k, ok := kv.Key.(*ast.Ident); ok && info.Uses[k] == o {
								if iv, ok := intValue(info, kv.Value); ok {
									set[iv] = true
								} else {
									good = false
								}
							}
						}
					}
					return true
				})
			}
		}
		addRhs := func(rhs ast.Expr, at ast.Node) {
			if iv, ok := intValue(info, rhs); ok {
				set[iv] = true
				return
			}
			rhs = ast.Unparen(rhs)
			if c, ok := rhs.(*ast.CallExpr); ok && len(c.Args) == 1 {
				if tv, ok := info.Types[c.Fun]; ok && tv.IsType() {
					if iv, ok := intValue(info, c.Args[0]); ok {
						set[iv] = true
						return
					}
					rhs = ast.Unparen(c.Args[0])
				}
			}
			id, ok := rhs.(*ast.Ident)
			if !ok || info.Uses[id] == nil {
				good = false
				return
			}
			src := info.Uses[id]
			// values of src for which the path to the assignment is not excluded
			pcs := c15PathConds(par, at, scan.Decl.Body)
			for b := int64(0); b < 256; b++ {
				ev := &c15r6Eval{info: info, bind: func(e ast.Expr) (int64, bool) {
					if x, ok := ast.Unparen(e).(*ast.Ident); ok && info.Uses[x] == src {
						return b, true
					}
					return 0, false
				}}
				if ev.pathValue(pcs) != c15F {
					set[b] = true
				}
			}
			if len(set) > 16 {
				good = false // not pinned by the guards
			}
		}
		ast.Inspect(scan.Decl.Body, func(n ast.Node) bool {
			switch x := n.(type) {
			case *ast.AssignStmt:
				for i, l := range x.Lhs {
					if !refers(l) {
						continue
					}
					if len(x.Lhs) != len(x.Rhs) || (x.Tok != token.ASSIGN && x.Tok != token.DEFINE) {
						good = false
						continue
					}
					addRhs(x.Rhs[i], x)
				}
			case *ast.ValueSpec:
				for i, id := range x.Names {
					if info.Defs[id] != o {
						continue
					}
					if i < len(x.Values) {
						addRhs(x.Values[i], x)
					} else {
						set[0] = true
					}
				}
			case *ast.IncDecStmt:
				if refers(x.X) {
					good = false
				}
			case *ast.UnaryExpr:
				if x.Op == token.AND && refers(x.X) {
					good = false
				}
			}
			return true
		})
		setCache[o], setOK[o] = set, good
		return set, good
	}

	ctxSwitches := switchesOn(info, loop.Body, ctxT)
	clauseName := func(n ast.Node) string {
		for p := par[n]; p != nil && p != ast.Node(loop); p = par[p] {
			cc, ok := p.(*ast.CaseClause)
			if !ok {
				continue
			}
			for _, sw := range ctxSwitches {
				if par[par[cc]] == ast.Node(sw) || par[cc] == ast.Node(sw.Body) {
					var ns []string
					for _, e := range cc.List {
						if k := constOf(info, e); k != nil {
							ns = append(ns, k.Name())
						}
					}
					return strings.Join(ns, ",")
				}
			}
		}
		return "loop"
	}

	funcs := map[*types.Func]*FuncInfo{}
	for _, f := range nonTest {
		if f.Obj != nil {
			funcs[f.Obj] = f
		}
	}
	return &c15TextLoop{scan: scan, info: info, par: par, loop: loop, cursor: cursor, srcField: srcField, curVar: curVar, own: own,
		writes: writes, isCursor: isCursor, isSrc: isSrc, isCurByteExpr: isCurByteExpr, isNextByteExpr: isNextByteExpr,
		innerLoop: innerLoop, reaches: reaches, varSet: varSet, clauseName: clauseName, funcs: funcs, boolDefs: boolDefs}
}

func c15LookaheadSkips(r *Run) {
	const R = "R-6"
	tl := c15TextLoopModel(r, R)
	if tl == nil {
		return
	}
	scan, info, par, loop, own, writes := tl.scan, tl.info, tl.par, tl.loop, tl.own, tl.writes
	curVar, reaches, innerLoop, varSet, clauseName := tl.curVar, tl.reaches, tl.innerLoop, tl.varSet, tl.clauseName
	isNextByteExpr, isCurByteExpr := tl.isNextByteExpr, tl.isCurByteExpr
	n, multi := 0, 0
	perClause := map[string]int{}
	for _, wr := range writes {
		if wr.node == own || innerLoop(wr.node) {
			continue
		}
		if !reaches(wr.node, own) {
			continue // restarts the iteration (continue) or follows the own increment
		}
		if !wr.one {
			multi++
			continue
		}
		name := clauseName(wr.node)
		perClause[name]++
		key := scan.Name() + "#lookahead-step:" + name
		if perClause[name] > 1 {
			key += "-" + string(rune('0'+perClause[name]))
		}
		n++
		o := r.Ob(R, key, wr.node.Pos())
		// no other cursor write may precede the site in the same iteration
		other := false
		for _, w2 := range writes {
			if w2.node != wr.node && w2.node != own && reaches(w2.node, wr.node) {
				other = true
			}
		}
		if other {
			o.Unknown("another cursor write can precede this step within the same iteration: the stepped byte is not simply the one after the cursor")
			continue
		}
		// the examined-byte variable must still hold src[cursor] at the site
		curOK := curVar != nil
		if curVar != nil {
			ast.Inspect(loop.Body, func(m ast.Node) bool {
				if as, ok := m.(*ast.AssignStmt); ok && as.Tok != token.DEFINE {
					for _, l := range as.Lhs {
						if id, ok := ast.Unparen(l).(*ast.Ident); ok && info.Uses[id] == curVar && reaches(as, wr.node) {
							curOK = false
						}
					}
				}
				return true
			})
		}
		pcs := c15PathConds(par, wr.node, loop.Body)
		var possible []string
		imprecise := false
		feasible := false
		for _, nb := range []int64{'\n', '{'} {
			can := false
			for cb := int64(0); cb < 256 && !can; cb++ {
				ev := &c15r6Eval{info: info, varSet: varSet, watched: isNextByteExpr, boolDefs: tl.boolDefs}
				ev.bind = func(e ast.Expr) (int64, bool) {
					if isNextByteExpr(e) {
						return nb, true
					}
					if isCurByteExpr(e) {
						return cb, true
					}
					if id, ok := ast.Unparen(e).(*ast.Ident); ok && curOK && info.Uses[id] == curVar {
						return cb, true
					}
					return 0, false
				}
				if ev.pathValue(pcs) != c15F {
					can = true
				}
				if ev.imprecise {
					imprecise = true
				}
			}
			if can {
				feasible = true
				if nb == '\n' {
					possible = append(possible, "a newline (not counted: the line stamps of all later tokens are off by one and the statement-only line rule misfires)")
				} else {
					possible = append(possible, "a '{' (the {{, {% or {# it starts is not recognised)")
				}
			}
		}
		// is the site reachable at all for some other next byte? (dead code is not a step)
		if !feasible {
			any := false
			for nb := int64(0); nb < 256 && !any; nb++ {
				for cb := int64(0); cb < 256 && !any; cb++ {
					ev := &c15r6Eval{info: info, varSet: varSet, boolDefs: tl.boolDefs}
					ev.bind = func(e ast.Expr) (int64, bool) {
						if isNextByteExpr(e) {
							return nb, true
						}
						if isCurByteExpr(e) {
							return cb, true
						}
						if id, ok := ast.Unparen(e).(*ast.Ident); ok && curOK && info.Uses[id] == curVar {
							return cb, true
						}
						return 0, false
					}
					if ev.pathValue(pcs) != c15F {
						any = true
					}
				}
			}
			if !any {
				o.Trivial("the conditions on the way to this step exclude every value of the examined byte: the step is never taken")
				continue
			}
		}
		sort.Strings(possible)
		switch {
		case len(possible) == 0:
			o.OK("the step over the byte after the cursor is taken only under a test that excludes a newline and '{' for that byte")
		case imprecise:
			o.Unknown("the test of the byte after the cursor on the way to this step is in a form the rule does not evaluate; it could not exclude %s", strings.Join(possible, " and "))
		default:
			o.Bad("in %s the cursor steps over the byte after it without examining it, and the conditions of the step do not exclude %s", name, strings.Join(possible, " nor "))
		}
	}
	if multi > 0 {
		r.Note("R-6: %d other writes of the text loop's cursor (not +1) fall through to the own increment; steps by a constant after a prefix helper are the subject of R-8", multi)
	}
	r.Stats["r6_sites"] = n
	r.Require(R, 6)
}

// c15PredSet is predSet over the bytes 0..255 for the variable v, extended with calls of one-byte predicates
// of package compiler written as a single returned expression. ok is false when some value does not evaluate
// to true or false.
func c15PredSet(r *Run, info *types.Info, cond ast.Expr, v types.Object) (map[int64]bool, bool) {
	funcs := map[*types.Func]*FuncInfo{}
	for _, f := range r.P.Funcs("internal/compiler") {
		if !r.P.isTestFile(f.File) && f.Obj != nil {
			funcs[f.Obj] = f
		}
	}
	out := map[int64]bool{}
	for b := int64(0); b < 256; b++ {
		ev := &c15r6Eval{info: info, funcs: funcs, bind: func(e ast.Expr) (int64, bool) {
			if id, ok := ast.Unparen(e).(*ast.Ident); ok && info.Uses[id] == v {
				return b, true
			}
			return 0, false
		}}
		switch ev.eval(cond) {
		case c15T:
			out[b] = true
		case c15F:
		default:
			return nil, false
		}
	}
	return out, true
}
