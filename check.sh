#!/bin/bash
# usage: check.sh <Cxx> [quick|thorough]     run the static rules of one property against /repo's working tree
#        check.sh --replay <report.json>     re-evaluate the obligations named in a report
cd "$(dirname "$0")"
. ./env.sh
REPO=${VERIF_REPO:-/repo}
if [ ! -x bin/scriggosa ] || [ -n "$(find sa -name '*.go' -newer bin/scriggosa 2>/dev/null | head -1)" ]; then
  mkdir -p bin; (cd sa && go build -o ../bin/scriggosa .) || { echo "VIOLATION property=${1} replay=/verif/evidence/${1}.report.json"; echo "analyser does not build"; exit 1; }
fi
if [ "$1" = "--replay" ]; then
  exec ./bin/scriggosa -replay "$2" -repo "$REPO" -verif "$(pwd)"
fi
TIER=${2:-${VERIF_TIER:-quick}}
if [ "$TIER" = "thorough" ]; then
  # self-test corpus first (never affects the verdict about /repo); its summary is embedded in the evidence
  ./tools/selftest.sh "$1" || true
fi
exec ./bin/scriggosa -property "$1" -tier "$TIER" -repo "$REPO" -verif "$(pwd)"
