#!/usr/bin/env python3
"""Copies the outcome of the thorough-tier self-test (evidence/.selftest/<id>.json, which analyses every
seeded change of the property) into seeded/<id>-<n>/verification.json, so that the table of DESIGN.md
§11.5 reflects the last thorough run."""
import json, glob, os, re
n = 0
for f in glob.glob('/verif/evidence/.selftest/C*.json'):
    j = json.load(open(f, errors='replace'))
    for m in j.get('mutants', []):
        name = m.get('mutant', '')
        mm = re.match(r'seeded[:/](C\d+-\d+)', name)
        if not mm:
            continue
        d = '/verif/seeded/' + mm.group(1)
        p = d + '/verification.json'
        if not os.path.exists(p):
            continue
        v = json.load(open(p))
        out = m.get('outcome', '')
        if out.startswith('skipped'):
            v['patch_applies_to_repo_head'] = 'no'
        else:
            v['patch_applies_to_repo_head'] = 'yes'
            v['check_detected'] = (out == 'detected')
            v['check_first_reports'] = [m['first_report']] if m.get('first_report') else []
        json.dump(v, open(p, 'w'), indent=1)
        n += 1
print('updated', n)
