#!/usr/bin/env python3
"""Generates /verif/MANIFEST.json from the table below and the properties the analyser registers.
Run after adding a rule set:  tools/gen_manifest.py
"""
import json, subprocess, os, sys

VERIF = os.path.dirname(os.path.dirname(os.path.abspath(__file__)))

# property -> (technique, what the level means here, design ref)
CLAIMS = {
 "C01": ("enum exhaustiveness of the opcode/condition switches, emitter/VM negated-opcode agreement, per-kind width agreement of conversions in arithmetic handlers, break-scope save/restore, boundary side of unicode.MaxRune comparisons, copy-helper must-pass-through for range element stores (typed AST)", "structural necessary conditions of gc-equivalence: every opcode/condition the emitter can produce has a VM handler, and each sized-kind clause truncates with its own type", "§5 C01"),
 "C02": ("typed-AST table checks with go/constant: representability bounds per kind, sibling operator coverage of the constant implementations, fast-path fallback presence, value-narrowing dataflow between representations, guard walk of the representability check after constant operations", "necessary conditions of exact constant arithmetic (bounds and operator tables), not the numeric results", "§5 C02"),
 "C03": ("types.Implements set equality for build-error types, panic-argument typing and recover/convert discipline on go/cfg", "decides only the clause 'a rejection is a *BuildError': every error type that can leave the compiler is wrapped", "§5 C03"),
 "C04": ("go/cfg pairing of lexer goroutine start/stop, bounded-lookahead index guard analysis of the lexer (must-dataflow of linear facts), keyed-array exhaustiveness of the disassembler tables", "necessary conditions: no index fault on the unprotected lexer goroutine for the analysed sites, goroutine always stopped, disassembler tables total", "§5 C04"),
 "C05": ("call-graph containment of the interpreter loop under the recovering frame, nil-window analysis of vm.fn, index-guard analysis of renderer/escapers, context dispatch exhaustiveness", "necessary conditions of 'no host panic': containment, recovery path free of nil dereference, guarded indexing in the renderer", "§5 C05"),
 "C06": ("go/cfg guard dominance for direct-write macro calls, sanitiser must-pass-through per showIn* function, finite-domain class inclusion for the tag context, three-switch context agreement", "given the lexer's context, no path writes an untrusted value without that context's escaper", "§5 C06"),
 "C07": ("literal escape-table checks computed with go/constant and html.UnescapeString over all 256 byte values; finite-domain class inclusion for terminator and pass-through classes", "per-character tables and classes that make the round trip true are correct for every byte; loop bookkeeping is not decided", "§5 C07"),
 "C08": ("kind-coverage inclusion for JS/JSON, sort must-pass-through before the first map write, string routing through the escaper, non-finite float guard dominance", "necessary conditions of literal validity in JS/JSON serialisers", "§5 C08"),
 "C09": ("finite set inclusion between two tables read from the typed AST: classes accepted by checkShow*/ classes handled by showIn*/toString, enumerated over all reflect kinds x contexts", "decides the clause for every static type class by enumeration (27 kinds, all interfaces, 16 contexts)", "§5 C09"),
 "C10": ("SSA who-may-write analysis over the functions reachable from VM.Run in the call graph: stores classified by the owner type of the written location", "compiled artefacts are not written at run time; a fresh VM per run; pool discipline", "§5 C10"),
 "C11": ("go/cfg must-pass-through of the done poll on every back edge of the interpreter loop; guard/ select-case analysis of every blocking reflect call", "every loop iteration polls cancellation and every blocking site is cancellable", "§5 C11"),
 "C12": ("type-switch exhaustiveness of the panic classifier against the sentinel types passed to panic, accessor field mapping", "sentinels are classified before the opcode switch; accessors forward fields and propagate nil", "§5 C12"),
 "C13": ("error-result flow of every write call in renderer/escapers (typed AST + go/cfg dataflow of unchecked errors); uniform outError wrapping at VM sinks", "no write error is dropped and no write follows a failed write in the renderer", "§5 C13"),
 "C14": ("SSA who-may-write on objects shared between goroutine VMs (env, callable), lock pairing on go/cfg", "isolation necessary conditions only: no unsynchronised store to state shared between VMs", "§5 C14"),
 "C15": ("SSA who-may-write on template text bytes and the lexer buffer; who-may-call of emitText", "text bytes are never rewritten after lexing (provenance only)", "§5 C15"),
 "C16": ("go/cfg guard dominance of the render fast path and the extends format gate", "the fast path and the generic path may differ only where the compatibility predicate holds", "§5 C16"),
 "C17": ("SSA/AST value-flow of the (package,name) key from declaration to predefVarIndex and initGlobalVariables; constant agreement of the package literal", "writer and reader of the globals table use the same key", "§5 C17"),
 "C18": ("who-may-call of file-system reads in the call graph, go/cfg dominance of path validation, cycle test and cache lookup before the read, push/pop pairing", "single read gate, names derive from rooted(), validation dominates node construction", "§5 C18"),
 "C19": ("who-may-call of Importer.Import and reflect Call sites, go/cfg must-pass-through of the allowGoStmt test, frozen universe list", "capabilities enter only through the importer, globals and the go gate", "§5 C19"),
 "C20": ("go/cfg guard dominance of every append to an index-addressed table of runtime.Function, limit constant vs operand width read from the VM's index expressions, narrowing-conversion audit", "every table growth is limit-checked and every limit fits the encoding the VM reads", "§5 C20"),
 "C21": ("field-mapping agreement of Position conversions; must-pass-through of the path assignment before a SyntaxError leaves the parser", "two necessary conditions: path set before the error leaves; Line/Column/Start/End map to themselves", "§5 C21"),
 "C22": ("SSA value flow of the callback result to the returned error; go/cfg loop-exit and first-wins rules", "lookup contracts in their structural part: errors propagate, loops stop at the first hit", "§5 C22"),
 "C23": ("field-population agreement between the constructions of filesFileInfo and the accessors that read them", "one necessary condition: both views of a node are built with mode/size populated", "§5 C23"),
 "C24": ("two-pass switch agreement and literal checks (go/constant, html.UnescapeString) of HTMLEscape", "case sets, literal lengths and increments of the two passes agree for the five characters", "§5 C24"),
 "C25": ("byte-indexed array length rule, explicit-panic reachability from error-returning builtins, pure-wrapper argument order", "structural necessary conditions of 'documented behaviour, error instead of panic'", "§5 C25"),
 "C27": ("enum exhaustiveness of the String/Precedence switches over AssignmentType/OperatorType/ChanDirection/LiteralType", "exhaustiveness only: every token the parser can produce has a printed form", "§5 C27"),
 "C28": ("implementer coverage of the clone and walk type switches with clause-order reachability, per-clause field coverage", "every node type has a reachable clone/walk clause and every node-typed field is cloned/visited", "§5 C28"),
 "C30": ("classification of every range over a map in the compiler (insensitive / sorted / sensitive) and sort-totality of collected keys", "no map iteration order reaches emitted code, disassembly or UsedVars", "§5 C30"),
}

NA = {
 "C26": "static analysis cannot apply: whether escaped text is inert is a fact about CommonMark's parser on arbitrary neighbourhoods; the only shape facts (a fixed character list, re-indent after newline) would be a frozen copy of today's code, not a condition of the property (DESIGN.md §6)",
 "C29": "static analysis cannot apply: agreement of a hand-written Markdown scanner with CommonMark on every document, idempotence and URL arithmetic are behavioural; the single structural clause would be a source-fragment match (DESIGN.md §6)",
}

def main():
    env = dict(os.environ)
    out = subprocess.run([os.path.join(VERIF, "bin/scriggosa"), "-list"], capture_output=True, text=True)
    registered = out.stdout.split()
    pending = set(open(os.path.join(VERIF, "tools/pending.txt")).read().split()) if os.path.exists(os.path.join(VERIF, "tools/pending.txt")) else set()
    registered = [p for p in registered if p not in pending]
    props = [json.loads(l)["id"] for l in open(os.path.join(VERIF, "properties.jsonl"))]
    checks, na = [], []
    for p in props:
        if p in registered and p in CLAIMS:
            tech, text, ref = CLAIMS[p]
            checks.append({
                "property_id": p,
                "quick_cmd": f"./check.sh {p} quick",
                "thorough_cmd": f"./check.sh {p} thorough",
                "evidence_file": f"evidence/{p}.json",
                "replay_cmd_template": "./check.sh --replay {path}",
                "engine": "scriggosa",
                "level_claimed": {"category": "other", "text": "static analysis of /repo's type-checked source; " + text + ". The behaviour itself is not decided; the evidence lists every obligation, its verdict and the discharging fact.", "design_ref": "DESIGN.md " + ref},
                "level_note": "trusted base: go/types, go/ssa, go/cfg (x/tools v0.50.0), the Go specification for the constructs the rules interpret, and the frozen rule tables in sa/; known findings are listed in known_findings.txt",
                "technique": "static analysis: " + tech,
            })
        elif p in NA:
            na.append({"property_id": p, "reason": NA[p]})
        else:
            na.append({"property_id": p, "reason": "not claimed in this revision: the static rules designed for it (DESIGN.md §5) are not built yet, so no check is registered"})
    m = {
        "version": 1,
        "setup_cmd": "./setup.sh",
        "hooks": {"guard": "verif", "enable": "none: static analysis needs no instrumentation; the build tag 'verif' is reserved and unused", "baseline_off_cmd": "./tools/baseline.sh", "source_commits": [], "add_only": True},
        "engines": [{"name": "scriggosa", "path": "sa/", "serves_properties": [c["property_id"] for c in checks], "kind_free_text": "repository-specific static analyser on go/packages + go/types + go/cfg + go/ssa (x/tools v0.50.0): obligations per rule+construct, fail-closed, known findings by key"}],
        "checks": checks,
        "not_applicable": na,
        "notes": "All checks inspect /repo's current working tree (go/packages load of ./...) on every run; nothing is executed. fix: commits in /repo repair defects the rules located (known_findings.txt lists them as fixed:).",
    }
    json.dump(m, open(os.path.join(VERIF, "MANIFEST.json"), "w"), indent=1)
    print("checks:", len(checks), "not_applicable:", len(na))

main()
