#!/bin/bash
# Rebases, with a three-way merge in a scratch worktree, the seeded and mutant patches that no longer apply
# to /repo HEAD because /repo moved on with repairs. A patch is rewritten only if the merge is clean and the
# tree builds; the author's original of a seed is kept as patch.orig.diff.
set -u
cd /verif
. ./env.sh
WT=/tmp/rebase-wt
git -C /repo worktree remove --force $WT >/dev/null 2>&1; rm -rf $WT
git -C /repo worktree add --detach $WT HEAD >/dev/null 2>&1
trap 'git -C /repo worktree remove --force $WT >/dev/null 2>&1' EXIT
try() { # $1 patch file
  git -C $WT reset -q --hard; git -C $WT clean -qfd
  if git -C $WT apply --3way "$1" >/dev/null 2>&1 && ! git -C $WT status --short | grep -q '^UU\|^AA'; then
    if (cd $WT && go build ./... >/dev/null 2>&1); then git -C $WT diff HEAD > /tmp/rebased.diff; [ -s /tmp/rebased.diff ] && return 0; fi
  fi
  return 1
}
for d in seeded/*/; do d=${d%/}
  git -C /repo apply --check $PWD/$d/patch.diff 2>/dev/null && continue
  if try $PWD/$d/patch.diff; then [ -f $d/patch.orig.diff ] || cp $d/patch.diff $d/patch.orig.diff; cp /tmp/rebased.diff $d/patch.diff; echo "rebased $d"; else echo "CONFLICT $d"; fi
done
for p in mutants/*/*.patch; do
  git -C /repo apply --check $PWD/$p 2>/dev/null && continue
  if try $PWD/$p; then cp /tmp/rebased.diff $p; echo "rebased $p"; else echo "CONFLICT $p"; fi
done
