#!/bin/bash
# Self-test corpus of one property (thorough tier): every /verif/mutants/<id>/*.patch and
# /verif/seeded/<id>-*/patch.diff is applied to a scratch copy of /repo's working tree (outside /repo and
# /verif, removed at the end) and analysed; a mutant is "detected" when the analyser exits 1 on it.
# Writes evidence/.selftest/<id>.json. Never reports a VIOLATION about /repo: a patch that does not
# apply is skipped and recorded. Mutants are analysed by up to $SELFTEST_JOBS (default 6) workers, each
# on its own scratch copy.
# usage: selftest.sh <Cxx>
set -u
cd "$(dirname "$0")/.."
. ./env.sh
ID=$1
REPO=${VERIF_REPO:-/repo}
JOBS=${SELFTEST_JOBS:-6}
VERIF=$(pwd)
OUTDIR=evidence/.selftest
mkdir -p "$OUTDIR"
SCR=$(mktemp -d "${TMPDIR:-/tmp}/scriggosa-selftest.XXXXXX")
trap 'rm -rf "$SCR"' EXIT
mkdir -p "$SCR/base" "$SCR/res"
rsync -a --exclude .git --exclude 'test/compare/cmd/cmd' "$REPO/" "$SCR/base/"
(cd "$SCR/base" && git init -q && git add -A >/dev/null 2>&1 && git -c user.email=x@x -c user.name=x commit -qm base >/dev/null 2>&1)
shopt -s nullglob
patches=(mutants/$ID/*.patch seeded/${ID}-*/patch.diff)
if [ ${#patches[@]} -eq 0 ]; then
  echo "{\"property_id\":\"$ID\",\"mutants\":[]}" > "$OUTDIR/$ID.json"
  echo "self-test $ID: no mutants"
  exit 0
fi
worker() {
  w=$1; shift
  dir="$SCR/w$w"
  mkdir -p "$dir/verif"
  cp -r "$SCR/base" "$dir/repo"
  cp "$VERIF/known_findings.txt" "$dir/verif/"
  for p in "$@"; do
    name=$(echo "$p" | sed 's#^mutants/##; s#^seeded/#seeded:#; s#/patch.diff$##; s#\.patch$##')
    safe=$(echo "$name" | tr '/:' '__')
    if ! (cd "$dir/repo" && git apply --check "$VERIF/$p" 2>/dev/null); then
      printf '{"mutant":"%s","outcome":"skipped: patch does not apply to the current tree"}\n' "$name" > "$SCR/res/$safe.json"
      continue
    fi
    (cd "$dir/repo" && git apply "$VERIF/$p")
    out=$("$VERIF/bin/scriggosa" -property "$ID" -tier quick -repo "$dir/repo" -verif "$dir/verif" 2>&1)
    code=$?
    first=$(echo "$out" | grep -a -m1 -E "^  (VIOLATED|UNDECIDED)" | cut -c1-300 | iconv -c -f utf-8 -t utf-8 | sed 's/\\/\\\\/g; s/"/\\"/g' | tr -d '\t')
    if [ $code -eq 1 ]; then
      printf '{"mutant":"%s","outcome":"detected","first_report":"%s"}\n' "$name" "$first" > "$SCR/res/$safe.json"
    else
      printf '{"mutant":"%s","outcome":"missed"}\n' "$name" > "$SCR/res/$safe.json"
    fi
    (cd "$dir/repo" && git checkout -q -- . && git clean -qfd)
  done
  rm -rf "$dir"
}
# distribute round-robin
n=${#patches[@]}
[ "$JOBS" -gt "$n" ] && JOBS=$n
pids=()
for ((w=0; w<JOBS; w++)); do
  mine=()
  for ((i=w; i<n; i+=JOBS)); do mine+=("${patches[$i]}"); done
  worker "$w" "${mine[@]}" &
  pids+=($!)
done
for p in "${pids[@]}"; do wait "$p"; done
{
  echo "{\"property_id\":\"$ID\",\"mutants\":["
  first=1
  for f in $(ls "$SCR/res"/*.json | sort); do
    [ $first -eq 0 ] && echo ","
    first=0
    cat "$f"
  done
  echo "]}"
} > "$OUTDIR/$ID.json"
det=$(grep -c '"detected"' "$OUTDIR/$ID.json" || true)
echo "self-test $ID: $det detected of $n mutants (details in $OUTDIR/$ID.json)"
