#!/bin/bash
# Self-test corpus of one property (thorough tier): every /verif/mutants/<id>/*.patch and
# /verif/seeded/<id>*/patch.diff is applied to a scratch copy of /repo's working tree (outside /repo and
# /verif, removed at the end) and analysed; a mutant is "detected" when the analyser exits 1 on it.
# Writes evidence/.selftest/<id>.json. Never reports a VIOLATION about /repo: a patch that does not
# apply is skipped and recorded.
# usage: selftest.sh <Cxx>
set -u
cd "$(dirname "$0")/.."
. ./env.sh
ID=$1
REPO=${VERIF_REPO:-/repo}
OUTDIR=evidence/.selftest
mkdir -p "$OUTDIR"
SCR=$(mktemp -d "${TMPDIR:-/tmp}/scriggosa-selftest.XXXXXX")
trap 'rm -rf "$SCR"' EXIT
mkdir -p "$SCR/repo" "$SCR/verif"
rsync -a --exclude .git --exclude 'test/compare/cmd/cmd' "$REPO/" "$SCR/repo/"
cp known_findings.txt "$SCR/verif/"
(cd "$SCR/repo" && git init -q && git add -A >/dev/null 2>&1 && git -c user.email=x@x -c user.name=x commit -qm base >/dev/null 2>&1)
results=()
shopt -s nullglob
for p in mutants/$ID/*.patch seeded/${ID}-*/patch.diff; do
  name=$(echo "$p" | sed 's#^mutants/##; s#^seeded/#seeded:#; s#/patch.diff$##; s#\.patch$##')
  if ! (cd "$SCR/repo" && git apply --check "$OLDPWD/$p" 2>/dev/null); then
    results+=("{\"mutant\":\"$name\",\"outcome\":\"skipped: patch does not apply to the current tree\"}")
    continue
  fi
  (cd "$SCR/repo" && git apply "$OLDPWD/$p")
  out=$(./bin/scriggosa -property "$ID" -tier quick -repo "$SCR/repo" -verif "$SCR/verif" 2>&1)
  code=$?
  first=$(echo "$out" | grep -a -m1 -E "^  (VIOLATED|UNDECIDED)" | cut -c1-300 | sed 's/\\/\\\\/g; s/"/\\"/g' | tr -d '\t')
  if [ $code -eq 1 ]; then
    results+=("{\"mutant\":\"$name\",\"outcome\":\"detected\",\"first_report\":\"$first\"}")
  else
    results+=("{\"mutant\":\"$name\",\"outcome\":\"missed\"}")
  fi
  (cd "$SCR/repo" && git checkout -q -- . && git clean -qfd)
done
{
  echo "{\"property_id\":\"$ID\",\"mutants\":["
  for i in "${!results[@]}"; do
    [ "$i" -gt 0 ] && echo ","
    echo "${results[$i]}"
  done
  echo "]}"
} > "$OUTDIR/$ID.json"
det=$(grep -c '"detected"' "$OUTDIR/$ID.json" || true)
tot=${#results[@]}
echo "self-test $ID: $det detected of $tot mutants (details in $OUTDIR/$ID.json)"
