#!/bin/bash
# Runs one property's check on a scratch copy of /repo's working tree with a patch applied.
#   try_patch.sh <property> <patch.diff> [analyser binary]
# Prints the summary line and the VIOLATED / UNDECIDED lines; exit 0 silent, 1 alarm, 2 patch does not apply.
set -u
cd "$(dirname "$0")/.."
. ./env.sh
VERIF=$(pwd)
PROP=$1; PATCH=$(readlink -f "$2"); BIN=${3:-$VERIF/bin/scriggosa}
SCR=$(mktemp -d "${TMPDIR:-/tmp}/scriggosa-try.XXXXXX")
trap 'rm -rf "$SCR"' EXIT
mkdir -p "$SCR/repo" "$SCR/verif"
rsync -a --exclude .git --exclude 'test/compare/cmd/cmd' "${VERIF_REPO:-/repo}/" "$SCR/repo/"
cp known_findings.txt "$SCR/verif/"
(cd "$SCR/repo" && git init -q && git apply "$PATCH") || { echo "patch does not apply"; exit 2; }
o=$("$BIN" -property "$PROP" -tier quick -repo "$SCR/repo" -verif "$SCR/verif" 2>&1); rc=$?
echo "$o" | grep -a -E "^(C[0-9]+ tier|  (VIOLATED|UNDECIDED)|VIOLATION|panic|FATAL)" | cut -c1-600 | head -20
[ $rc -eq 0 ] && echo "silent" || echo "ALARM (exit $rc)"
exit $([ $rc -eq 0 ] && echo 0 || echo 1)
