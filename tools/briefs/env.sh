# sourced by every script: offline Go toolchain able to load /repo (go.mod requires go >= 1.25)
export PATH=/opt/veriftools/go1.26.8/bin:$PATH
export GOTOOLCHAIN=local GOFLAGS=-mod=mod GOPROXY=off GOSUMDB=off CGO_ENABLED=0
unset GOWORK
