#!/bin/bash
# Runs the pinned baseline suite of /repo (or $1) with hooks off and compares with BASELINE.json stable_pass.
# usage: baseline.sh [repo-dir]
REPO=${1:-/repo}
export PATH=/opt/veriftools/go1.26.8/bin:$PATH GOTOOLCHAIN=local GOFLAGS=-mod=mod GOPROXY=off GOSUMDB=off
unset GOWORK
OUT=$(mktemp /tmp/baseline.XXXXXX.json)
for m in . ./test; do (cd $REPO/$m && go test -json -vet=off -count=1 -timeout 25m ./...); done > $OUT 2>/dev/null
python3 - "$OUT" <<'PY'
import json,sys
passed=set(); failed=set()
for line in open(sys.argv[1]):
    try: e=json.loads(line)
    except Exception: continue
    if e.get('Test') and e.get('Action') in('pass','fail'):
        k=e['Package']+'::'+e['Test']
        (passed if e['Action']=='pass' else failed).add(k)
base=set(json.load(open('/root/.vp/BASELINE.json'))['stable_pass'])
missing=sorted(base-passed)
print("baseline stable_pass=%d passed_now=%d missing=%d failed=%d"%(len(base),len(passed&base),len(missing),len(failed)))
for m in missing[:40]: print("MISSING",m)
for m in sorted(failed)[:40]: print("FAILED",m)
sys.exit(1 if missing else 0)
PY
rc=$?
rm -f $OUT
exit $rc
