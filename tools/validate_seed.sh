#!/bin/bash
# Validates one seeded change produced by an independent sub-agent and records it under /verif/seeded.
#   validate_seed.sh <ID> <n>        reads /tmp/seedout/<ID>/<n>/{patch.diff,demo/,meta.json}
# Steps (all in a scratch worktree /tmp/seed/<ID>, removed at the end):
#   1. the patch applies to /repo HEAD and compiles; the pinned baseline still passes
#   2. the demonstration fails with the change and passes without it
#   3. the property's check is run against the changed tree: detected / missed
# Output: /verif/seeded/<ID>-<n>/{patch.diff,demo/,meta.json,verification.json}
set -u
ID=$1; N=$2
SRC=/tmp/seedout/$ID/$N
DST=/verif/seeded/$ID-$N
WT=/tmp/seed/$ID
. /verif/env.sh
[ -f "$SRC/patch.diff" ] || { echo "no patch for $ID/$N"; exit 2; }
git -C /repo worktree remove --force "$WT" >/dev/null 2>&1
rm -rf "$WT"
git -C /repo worktree add --detach "$WT" >/dev/null 2>&1 || { echo "cannot create worktree"; exit 2; }
trap 'git -C /repo worktree remove --force "$WT" >/dev/null 2>&1; rm -rf "$WT"' EXIT
rundemo() {
  local d
  d=$(mktemp -d /tmp/seeddemo.XXXXXX)
  cp -r "$SRC/demo/." "$d/"
  ( cd "$d" && [ -f go.sum ] || cp /repo/go.sum "$d/" 2>/dev/null
    if ls "$d"/*_test.go >/dev/null 2>&1; then
      (cd "$d" && timeout 600 go test -count=1 . 2>&1 | tail -15)
    else
      (cd "$d" && timeout 600 go run . 2>&1 | tail -15)
    fi ) > "$d.out" 2>&1
  local rc=1
  # success = go test ok / program exit 0 : recompute exit code explicitly
  if ls "$d"/*_test.go >/dev/null 2>&1; then
    (cd "$d" && timeout 600 go test -count=1 . >/dev/null 2>&1); rc=$?
  else
    (cd "$d" && timeout 600 go run . >/dev/null 2>&1); rc=$?
  fi
  cat "$d.out"
  rm -rf "$d" "$d.out"
  return $rc
}
applies=no; builds=no; base="not run"; demo_with="?"; demo_without="?"
if git -C "$WT" apply --check "$SRC/patch.diff" 2>/dev/null; then
  applies=yes
  # demo without the change first (tree at HEAD)
  out_without=$(rundemo); rc_without=$?
  git -C "$WT" apply "$SRC/patch.diff"
  if (cd "$WT" && go build ./... >/dev/null 2>&1 && go vet ./internal/... >/dev/null 2>&1; cd "$WT" && go build ./... >/dev/null 2>&1); then builds=yes; fi
  base=$(/verif/tools/baseline.sh "$WT" | head -1)
  out_with=$(rundemo); rc_with=$?
  demo_with="exit $rc_with"; demo_without="exit $rc_without"
else
  out_with=""; out_without=""; rc_with=0; rc_without=0; chk=""; chk_rc=0
fi
mkdir -p /tmp/verif-seed-$ID; cp /verif/known_findings.txt /tmp/verif-seed-$ID/ 2>/dev/null
if [ "$applies" = yes ]; then
  chk=$(/verif/bin/scriggosa -property "$ID" -tier quick -repo "$WT" -verif /tmp/verif-seed-$ID 2>&1); chk_rc=$?
fi
rm -rf /tmp/verif-seed-$ID
valid=no
if [ "$applies" = yes ] && [ "$builds" = yes ] && echo "$base" | grep -q "missing=0" && [ $rc_with -ne 0 ] && [ $rc_without -eq 0 ]; then valid=yes; fi
detected=no; [ $chk_rc -eq 1 ] && detected=yes
mkdir -p "$DST"
cp "$SRC/patch.diff" "$DST/"; rm -rf "$DST/demo"; cp -r "$SRC/demo" "$DST/demo" 2>/dev/null; cp "$SRC/meta.json" "$DST/meta.json" 2>/dev/null
python3 - "$DST/verification.json" <<PY
import json,sys
json.dump({
 "property": "$ID", "seed": "$ID-$N", "valid": "$valid" == "yes",
 "patch_applies_to_repo_head": "$applies", "builds": "$builds", "baseline_with_change": """$base""",
 "demo_with_change": "$demo_with", "demo_without_change": "$demo_without",
 "demo_output_with_change": """$(echo "$out_with" | tail -8 | sed 's/\\/\\\\/g; s/"/\\"/g')""",
 "check_detected": "$detected" == "yes",
 "check_first_reports": [l for l in """$(echo "$chk" | grep -a -E "^  (VIOLATED|UNDECIDED)" | head -4 | cut -c1-400 | sed 's/\\/\\\\/g; s/"/\\"/g')""".split("\n") if l.strip()],
 "commands": ["git -C /repo worktree add --detach $WT; git -C $WT apply patch.diff", "/verif/tools/baseline.sh $WT", "go test|run in demo/ with and without the change", "/verif/bin/scriggosa -property $ID -repo $WT"],
}, open(sys.argv[1], "w"), indent=1)
PY
echo "$ID-$N valid=$valid detected=$detected base=[$base] demo_with=$demo_with demo_without=$demo_without"
