#!/usr/bin/env python3
"""Prints the markdown table of DESIGN.md §11.5 from seeded/*/verification.json and meta.json."""
import json, os, re, glob
rows = {}
for d in sorted(glob.glob('/verif/seeded/*-*')):
    sid = os.path.basename(d)
    prop, n = sid.split('-')
    try:
        v = json.load(open(d + '/verification.json'))
        m = json.load(open(d + '/meta.json'))
    except Exception:
        continue
    summ = (m.get('summary') or m.get('description') or '').replace('|', '/').replace('\n', ' ')
    summ = re.sub(r'\s+', ' ', summ)[:110]
    if v.get('patch_applies_to_repo_head') not in ('yes', True):
        mark = 'n/a (no longer applies to HEAD)'
    elif v.get('check_detected'):
        rule = ''
        fr = v.get('check_first_reports') or []
        if fr:
            mm = re.search(r'(VIOLATED|UNDECIDED) (R-[0-9a-z]+)', fr[0])
            if mm:
                rule = ' ' + mm.group(2)
        mark = '✓' + rule
    else:
        mark = '✗'
    rows.setdefault(prop, []).append((int(n), mark, summ))
tot = det = 0
print('| seed | check | change |')
print('|------|-------|--------|')
for prop in sorted(rows):
    for n, mark, summ in sorted(rows[prop]):
        if not mark.startswith('n/a'):
            tot += 1
            det += mark.startswith('✓')
        print(f'| {prop}-{n} | {mark} | {summ} |')
print()
print(f'{det} of {tot} applicable seeded changes are detected by the check of their own property.')
