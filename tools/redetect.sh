#!/bin/bash
# Re-runs the property's check against every validated seeded change and refreshes
# seeded/<id>-<n>/verification.json (fields check_detected, check_first_reports).
# usage: redetect.sh [ID ...]   (default: all)
cd "$(dirname "$0")/.."
. ./env.sh
SCR=$(mktemp -d "${TMPDIR:-/tmp}/scriggosa-redetect.XXXXXX")
trap 'rm -rf "$SCR"' EXIT
mkdir -p "$SCR/repo" "$SCR/verif"
rsync -a --exclude .git --exclude 'test/compare/cmd/cmd' /repo/ "$SCR/repo/"
cp known_findings.txt "$SCR/verif/"
(cd "$SCR/repo" && git init -q && git add -A >/dev/null 2>&1 && git -c user.email=x@x -c user.name=x commit -qm base >/dev/null 2>&1)
for d in seeded/*/; do
  s=$(basename "$d"); id=${s%%-*}
  if [ $# -gt 0 ] && ! echo " $* " | grep -q " $id "; then continue; fi
  [ -f "$d/patch.diff" ] || continue
  if ! (cd "$SCR/repo" && git apply --check "$OLDPWD/$d/patch.diff" 2>/dev/null); then echo "$s: patch does not apply"; continue; fi
  (cd "$SCR/repo" && git apply "$OLDPWD/$d/patch.diff")
  out=$(./bin/scriggosa -property "$id" -tier quick -repo "$SCR/repo" -verif "$SCR/verif" 2>&1); rc=$?
  (cd "$SCR/repo" && git checkout -q -- . && git clean -qfd)
  det=false; [ $rc -eq 1 ] && det=true
  echo "$out" | grep -a -E "^  (VIOLATED|UNDECIDED)" | head -4 | cut -c1-400 > "$SCR/rep.txt"
  python3 - "$d/verification.json" "$det" "$SCR/rep.txt" <<'PY'
import json,sys
p,det,rep=sys.argv[1:4]
try: v=json.load(open(p))
except Exception: v={}
v["check_detected"]=(det=="true")
v["check_first_reports"]=[l.rstrip("\n") for l in open(rep) if l.strip()]
json.dump(v,open(p,"w"),indent=1)
PY
  echo "$s detected=$det"
done
