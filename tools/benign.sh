#!/bin/bash
# False-alarm corpus: every /verif/benign/<area>/<n>/patch.diff is a behaviour-preserving maintenance edit
# written by an independent sub-agent (it keeps the pinned baseline at 1060/1060). Each is applied to a
# scratch copy of /repo's working tree (outside /repo and /verif, removed at the end) and ALL checks are run
# on it: every check must stay silent. Prints one line per patch and writes evidence/.selftest/benign.json.
# usage: benign.sh [area]     env: SCRIGGOSA_BIN (analyser binary), BENIGN_PROPERTY (default all), BENIGN_OUT
set -u
cd "$(dirname "$0")/.."
. ./env.sh
VERIF=$(pwd)
REPO=${VERIF_REPO:-/repo}
SCR=$(mktemp -d "${TMPDIR:-/tmp}/scriggosa-benign.XXXXXX")
trap 'rm -rf "$SCR"' EXIT
mkdir -p "$SCR/repo" "$SCR/verif" evidence/.selftest
rsync -a --exclude .git --exclude 'test/compare/cmd/cmd' "$REPO/" "$SCR/repo/"
(cd "$SCR/repo" && git init -q && git add -A >/dev/null 2>&1 && git -c user.email=x@x -c user.name=x commit -qm base >/dev/null 2>&1)
cp known_findings.txt "$SCR/verif/"
shopt -s nullglob
out="${BENIGN_OUT:-$VERIF/evidence/.selftest/benign.json}"
BIN=${SCRIGGOSA_BIN:-$VERIF/bin/scriggosa}
echo '{"benign":[' > "$out"; first=1; tot=0; silent=0
for p in benign/${1:-*}/*/patch.diff; do
  name=${p#benign/}; name=${name%/patch.diff}
  if ! (cd "$SCR/repo" && git apply --check "$VERIF/$p" 2>/dev/null); then res="skipped: patch does not apply to the current tree"
  else
    (cd "$SCR/repo" && git apply "$VERIF/$p")
    o=$("$BIN" -property ${BENIGN_PROPERTY:-all} -tier quick -repo "$SCR/repo" -verif "$SCR/verif" 2>&1); rc=$?
    tot=$((tot+1))
    if [ $rc -eq 0 ] && ! echo "$o" | grep -q '^VIOLATION'; then res="silent"; silent=$((silent+1))
    else res="ALARM: $(echo "$o" | grep -a -m3 -E '^  (VIOLATED|UNDECIDED)' | cut -c1-220 | iconv -c -f utf-8 -t utf-8 | sed 's/\\/\\\\/g; s/"/\\"/g' | tr '\n\t' '; ')"; fi
    (cd "$SCR/repo" && git checkout -q -- . && git clean -qfd)
  fi
  [ $first -eq 0 ] && echo ',' >> "$out"; first=0
  printf '{"patch":"%s","outcome":"%s"}' "$name" "$res" >> "$out"
  echo "$name: $res" | cut -c1-400
done
echo "],\"silent\":$silent,\"applied\":$tot}" >> "$out"
echo "benign corpus: $silent of $tot applied patches leave every check silent"
